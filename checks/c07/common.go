package main

import (
	"context"
	"fmt"
	"sort"
	"strings"

	"github.com/blugelabs/bluge"
	"github.com/blugelabs/bluge/analysis/analyzer"
	"github.com/blugelabs/bluge/index"
	"github.com/blugelabs/bluge/search"
	"github.com/blugelabs/bluge/verifmc"
	segment "github.com/blugelabs/bluge_segment_api"

	"verif/crashfs"
	"verif/harness"
)

// ---------------------------------------------------------------- index construction

// wop is one writer operation of a batch: an insert of a document, or the
// deletion of an id.
type wop struct {
	del bool
	id  string
	doc *bluge.Document
}

var simpleAnalyzer = analyzer.NewSimpleAnalyzer()

// buildIndex runs the real writer (under the controlled scheduler with the
// default, deterministic schedule): every batch becomes one segment, in order,
// nothing is merged.  A batch consisting of deletions only adds pending
// deletions to the earlier segments.  It returns a reader over the result.
func buildIndex(batches [][]wop) (*bluge.Reader, error) {
	dir := crashfs.New()
	dir.Points = false
	var werr error
	s := verifmc.Run(verifmc.Options{}, func() {
		cfg := harness.Config(dir, harness.Opts{NoMemMerge: true})
		w, err := bluge.OpenWriter(cfg)
		if err != nil {
			werr = fmt.Errorf("open writer: %v", err)
			return
		}
		for bi, ops := range batches {
			b := bluge.NewBatch()
			for _, o := range ops {
				if o.del {
					b.Delete(bluge.Identifier(o.id))
				} else {
					b.Insert(o.doc)
				}
			}
			if err := w.Batch(b); err != nil {
				werr = fmt.Errorf("batch %d: %v", bi, err)
				break
			}
		}
		if err := w.Close(); err != nil && werr == nil {
			werr = fmt.Errorf("close writer: %v", err)
		}
	})
	if s.Failure != "" {
		return nil, fmt.Errorf("writer failed under the default schedule: %s", s.Failure)
	}
	if werr != nil {
		return nil, werr
	}
	r, err := bluge.OpenReader(harness.Config(dir, harness.Opts{}))
	if err != nil {
		return nil, fmt.Errorf("open reader: %v", err)
	}
	return r, nil
}

// layoutOf describes the physical layout of the index behind a reader:
// "docs-per-segment/deleted-per-segment", e.g. "4+3/1+1".
func layoutOf(r *bluge.Reader) string {
	infos := r.VerifSnapshot().VerifSegInfos()
	var dels []string
	for _, si := range infos {
		dels = append(dels, fmt.Sprint(len(si.Deleted)))
	}
	return fmt.Sprintf("%dsegs/del=%s", len(infos), strings.Join(dels, "+"))
}

var _ = index.ItemKindSegment

// ---------------------------------------------------------------- running searches

// searchMode is one way of executing a query.
type searchMode struct {
	name string
	mk   func(q bluge.Query, n int) bluge.SearchRequest
}

var (
	modeAll = searchMode{"all", func(q bluge.Query, n int) bluge.SearchRequest { return bluge.NewAllMatches(q) }}
	modeLoc = searchMode{"all+locations", func(q bluge.Query, n int) bluge.SearchRequest {
		return bluge.NewAllMatches(q).IncludeLocations()
	}}
	modeTopN = searchMode{"topn", func(q bluge.Query, n int) bluge.SearchRequest { return bluge.NewTopNSearch(n, q) }}
	modeNone = searchMode{"topn-score-none", func(q bluge.Query, n int) bluge.SearchRequest {
		return bluge.NewTopNSearch(n, q).SetScore("none")
	}}
)

// idCache remembers, per reader, the _id read from the stored fields of a
// document number (a reader is an immutable snapshot, so the mapping is a
// function of the reader; it is read through the hit the first time a number
// is delivered).
var idCache = map[*bluge.Reader]map[uint64]string{}

// runSearch executes the request and returns the _id of every hit in the
// order delivered.  A panic inside bluge is returned as an error.
func runSearch(r *bluge.Reader, req bluge.SearchRequest) (ids []string, err error) {
	defer func() {
		if p := recover(); p != nil {
			err = fmt.Errorf("PANIC: %v", p)
		}
	}()
	cache := idCache[r]
	if cache == nil {
		cache = map[uint64]string{}
		idCache[r] = cache
	}
	it, err := r.Search(context.Background(), req)
	if err != nil {
		return nil, err
	}
	for {
		m, err := it.Next()
		if err != nil {
			return ids, err
		}
		if m == nil {
			return ids, nil
		}
		id, ok := cache[m.Number]
		if !ok {
			id = "?"
			err = m.VisitStoredFields(func(field string, value []byte) bool {
				if field == "_id" {
					id = string(value)
					return false
				}
				return true
			})
			if err != nil {
				return ids, fmt.Errorf("stored fields of hit %d: %v", m.Number, err)
			}
			cache[m.Number] = id
		}
		ids = append(ids, id)
	}
}

// judge compares the delivered ids with the expected set.  want must be
// sorted.  dontCare ids may be present or absent (cases the property text
// classifies separately).  It returns "" or a description.
func judge(got []string, want []string, dontCare map[string]bool) string {
	g := append([]string(nil), got...)
	sort.Strings(g)
	for i := 1; i < len(g); i++ {
		if g[i] == g[i-1] {
			return fmt.Sprintf("document %s returned twice (returned %v)", g[i], got)
		}
	}
	if len(dontCare) > 0 {
		var g2, w2 []string
		for _, x := range g {
			if !dontCare[x] {
				g2 = append(g2, x)
			}
		}
		for _, x := range want {
			if !dontCare[x] {
				w2 = append(w2, x)
			}
		}
		g, want = g2, w2
	}
	if len(g) == len(want) {
		same := true
		for i := range g {
			if g[i] != want[i] {
				same = false
				break
			}
		}
		if same {
			return ""
		}
	}
	var missed, extra []string
	ws := map[string]bool{}
	for _, x := range want {
		ws[x] = true
	}
	gs := map[string]bool{}
	for _, x := range g {
		gs[x] = true
		if !ws[x] {
			extra = append(extra, x)
		}
	}
	for _, x := range want {
		if !gs[x] {
			missed = append(missed, x)
		}
	}
	return fmt.Sprintf("returned %v, expected %v (missed %v, wrongly returned %v)", g, want, missed, extra)
}

func q(s string) string { return fmt.Sprintf("%q", s) }

// ---------------------------------------------------------------- pre-flight of range queries

// A numeric/date range searcher enumerates candidate terms and asks the
// dictionary about each of them while it is being constructed.  On some inputs
// that enumeration does not end in practice (it walks 256^k byte strings), and a
// search that never returns cannot be judged - nor interrupted.  preflight
// therefore constructs the searcher once over a reader whose dictionary lookups
// are counted; when the count exceeds preflightLimit it aborts the construction
// and reports that, and the query is not executed for real.
const preflightLimit = 60000

type tooManyLookups struct{}

type countingReader struct {
	search.Reader
	n *int
}

type countingLookup struct {
	segment.DictionaryLookup
	n *int
}

func (c countingLookup) Contains(key []byte) (bool, error) {
	*c.n++
	if *c.n > preflightLimit {
		panic(tooManyLookups{})
	}
	return c.DictionaryLookup.Contains(key)
}

func (c countingReader) DictionaryLookup(field string) (segment.DictionaryLookup, error) {
	dl, err := c.Reader.DictionaryLookup(field)
	if err != nil {
		return nil, err
	}
	return countingLookup{dl, c.n}, nil
}

var preflightCfg = harness.Config(crashfs.New(), harness.Opts{})

// preflight returns the number of dictionary lookups made while constructing
// the searcher, and whether the limit was exceeded.
func preflight(r *bluge.Reader, req bluge.SearchRequest) (lookups int, exceeded bool, err error) {
	n := 0
	defer func() {
		if p := recover(); p != nil {
			if _, ok := p.(tooManyLookups); ok {
				lookups, exceeded, err = n, true, nil
				return
			}
			lookups, err = n, fmt.Errorf("PANIC: %v", p)
		}
	}()
	s, err := req.Searcher(countingReader{r.VerifSnapshot(), &n}, preflightCfg)
	if err != nil {
		return n, false, nil // the real run reports the error
	}
	_ = s.Close()
	return n, false, nil
}

// C20: highlighted fragments are faithful to the stored text.
//
//	c20-short        every text of <= L runes over {a, b, ' ', é, 世} indexed with the
//	                 standard, keyword and CJK analyzers, searched with real queries
//	                 (IncludeLocations), highlighted with every fragment size
//	                 1..len+1 and the default, 1..3 fragments, HTML and ANSI
//	c20-replacement  the same over {a, b, ' ', U+FFFD} (a valid rune that the decoder
//	                 also uses as its error value)
//	c20-long         hand-built long texts (> 3 x the default fragment size)
//	c20-wide         texts of one repeated 2-, 3- or 4-byte rune, longer than every
//	                 fragment size, with the match at every rune index 0..70 and at the end
//	c20-adversarial  location sets built by hand (out of range, inverted, mid-rune,
//	                 unsorted, overlapping) passed directly to the highlighter: no panic
package main

import (
	"context"
	"fmt"
	"html"
	"io"
	"log"
	"sort"
	"strings"
	"time"
	"unicode/utf8"

	"github.com/blugelabs/bluge"
	"github.com/blugelabs/bluge/analysis/lang/cjk"
	"github.com/blugelabs/bluge/search"
	"github.com/blugelabs/bluge/search/highlight"
	"github.com/blugelabs/bluge/verifmc"

	"verif/checkmain"
	"verif/crashfs"
	"verif/explore"
	"verif/harness"
)

// ---------------------------------------------------------------- failures

type failure struct {
	rank int
	key  string
	msg  string
}

type failures struct {
	list []failure
	seen map[string]bool
}

// add records a failure once per key.
func (f *failures) add(rank int, key string, msg func() string) {
	if f.seen == nil {
		f.seen = map[string]bool{}
	}
	if f.seen[key] || len(f.list) >= 32 {
		return
	}
	f.seen[key] = true
	f.list = append(f.list, failure{rank, key, msg()})
}

const (
	rankSpecific = 1 // failure keyed by its input
	rankClass    = 3 // failure keyed by its class
)

// Classes of failures that the unchanged tree shows.  One case reports one
// failure, so every block of inputs is presented once per pinned class (it
// reports that class if it occurs) and once for everything else (it reports the
// most specific other failure); the block itself is evaluated once per process.
var pinned = []string{
	"cut-rune:no-locations",
	"best-no-fragment:text-with-U+FFFD",
	"best-unmarked:overlapping-locations",
	"panic:location-start<0",
	"panic:location-end<start",
}

type blockEval func(block int64, param string) (*explore.Result, *failures)

func withAspects(name string, total func(string) int64, eval blockEval) {
	nA := int64(len(pinned) + 1)
	var lastBlock, lastIdx int64 = -1, -1
	var lastParam string
	var lastRes *explore.Result
	var lastFs *failures
	explore.RegisterEnum(name, func(p string) int64 { return total(p) * nA }, func(idx int64, param string) *explore.Result {
		block, aspect := idx/nA, int(idx%nA)
		// the same case asked again is the framework's determinism re-check: evaluate afresh
		if block != lastBlock || param != lastParam || idx == lastIdx {
			lastRes, lastFs = eval(block, param)
			lastBlock, lastParam = block, param
		}
		lastIdx = idx
		if lastRes.Failure != "" { // harness error of the block
			return lastRes
		}
		res := &explore.Result{Outcome: fmt.Sprintf("%s/%d", lastRes.Outcome, aspect)}
		if aspect == 0 {
			res.Evals, res.Nontrivial, res.Counts, res.Sample = lastRes.Evals, lastRes.Nontrivial, lastRes.Counts, lastRes.Sample
		}
		isPinned := func(k string) bool {
			for _, p := range pinned {
				if p == k {
					return true
				}
			}
			return false
		}
		best := -1
		for i, f := range lastFs.list {
			if aspect == 0 {
				if !isPinned(f.key) && (best < 0 || f.rank < lastFs.list[best].rank) {
					best = i
				}
			} else if f.key == pinned[aspect-1] {
				best = i
				break
			}
		}
		if best >= 0 {
			res.Key, res.Failure = lastFs.list[best].key, lastFs.list[best].msg
		}
		return res
	})
}

// ---------------------------------------------------------------- formatter knowledge

const (
	sep        = highlight.DefaultSeparator // "…"
	htmlBefore = "<mark>"
	htmlAfter  = "</mark>"
	ansiBefore = highlight.BgYellow
	ansiAfter  = highlight.Reset
)

type span struct{ s, e int }

// strip removes the separators and the markup of one formatted fragment and
// returns the plain bytes with the marked spans as offsets into them.
func strip(frag string, kind string) (plain []byte, marks []span, err error) {
	frag = strings.TrimPrefix(frag, sep)
	frag = strings.TrimSuffix(frag, sep)
	before, after := htmlBefore, htmlAfter
	if kind == "ansi" {
		before, after = ansiBefore, ansiAfter
	}
	unesc := func(s string) (string, error) {
		if kind == "html" {
			if strings.ContainsAny(s, "<>") {
				return "", fmt.Errorf("unescaped markup character in %q", s)
			}
			return html.UnescapeString(s), nil
		}
		if strings.Contains(s, "\x1b") {
			return "", fmt.Errorf("stray escape sequence in %q", s)
		}
		return s, nil
	}
	rest := frag
	for {
		i := strings.Index(rest, before)
		if i < 0 {
			t, e := unesc(rest)
			if e != nil {
				return nil, nil, e
			}
			plain = append(plain, t...)
			return plain, marks, nil
		}
		t, e := unesc(rest[:i])
		if e != nil {
			return nil, nil, e
		}
		plain = append(plain, t...)
		rest = rest[i+len(before):]
		j := strings.Index(rest, after)
		if j < 0 {
			return nil, nil, fmt.Errorf("unterminated mark in %q", frag)
		}
		t, e = unesc(rest[:j])
		if e != nil {
			return nil, nil, e
		}
		marks = append(marks, span{len(plain), len(plain) + len(t)})
		plain = append(plain, t...)
		rest = rest[j+len(after):]
	}
}

// ---------------------------------------------------------------- the oracle

func runeAligned(text []byte, p int) bool {
	return p == 0 || p == len(text) || (p > 0 && p < len(text) && utf8.RuneStart(text[p]))
}

func locsOf(tlm search.TermLocationMap) []span {
	var out []span
	seen := map[span]bool{}
	for _, ls := range tlm {
		for _, l := range ls {
			if l == nil {
				continue
			}
			s := span{l.Start, l.End}
			if !seen[s] {
				seen[s] = true
				out = append(out, s)
			}
		}
	}
	sort.Slice(out, func(i, j int) bool {
		if out[i].s != out[j].s {
			return out[i].s < out[j].s
		}
		return out[i].e < out[j].e
	})
	return out
}

// validMark: the span is one location, or the union of a run of overlapping
// locations.  (If some set of locations connected by overlaps has the union
// [s,e), then so has the set of all non-empty locations inside [s,e).)
func validMark(locs []span, m span) bool {
	for _, l := range locs {
		if l == m {
			return true
		}
	}
	cur := -1
	for _, l := range locs { // sorted by start
		if l.s < m.s || l.e > m.e || l.s >= l.e {
			continue
		}
		if cur < 0 {
			if l.s != m.s {
				return false
			}
			cur = l.e
			continue
		}
		if l.s >= cur { // does not share a byte with the run so far
			return false
		}
		if l.e > cur {
			cur = l.e
		}
	}
	return cur == m.e
}

type hcase struct {
	text  []byte
	locs  []span
	size  int    // fragment size in runes
	num   int    // fragments asked for
	kind  string // html | ansi
	desc  func() string
	class string // coarse input class for class-level keys
}

type parsed struct {
	plain []byte
	marks []span
	cands []int // byte positions where plain occurs in the text and every mark is valid
}

// judge checks the laws on the output of BestFragments (out) for one case.
func judge(h *hcase, out []string, fs *failures, cnt map[string]int64) (marked, covers bool) {
	in := func() string {
		var o []string
		for _, f := range out {
			o = append(o, shortBytes([]byte(f)))
		}
		return fmt.Sprintf("%s size=%d num=%d %s -> [%s]", h.desc(), h.size, h.num, h.kind, strings.Join(o, ", "))
	}
	if len(out) > h.num {
		fs.add(rankSpecific, "too-many-fragments:"+in(), func() string {
			return fmt.Sprintf("%s: %d fragments returned, %d asked for", in(), len(out), h.num)
		})
	}
	ps := make([]parsed, len(out))
	for i, f := range out {
		plain, marks, err := strip(f, h.kind)
		if err != nil {
			fs.add(rankSpecific, "markup:"+in(), func() string { return fmt.Sprintf("%s: fragment %d has malformed markup: %v", in(), i, err) })
			return false, false
		}
		if len(marks) > 0 && i == 0 {
			marked = true
		}
		if n := utf8.RuneCount(plain); n > h.size && utf8.Valid(plain) {
			fs.add(rankSpecific, "fragment-too-long:"+in(), func() string {
				return fmt.Sprintf("%s: fragment %d has %d runes, the fragment size is %d", in(), i, n, h.size)
			})
		}
		ps[i] = parsed{plain: plain, marks: marks}
		// occurrences of the piece
		var occ []int
		for p := 0; p+len(plain) <= len(h.text); p++ {
			if string(h.text[p:p+len(plain)]) == string(plain) {
				occ = append(occ, p)
			}
		}
		if len(occ) == 0 {
			fs.add(rankSpecific, "not-a-piece:"+in(), func() string {
				return fmt.Sprintf("%s: fragment %d without markup and separators is %s, which is not a contiguous piece of the text", in(), i, shortBytes(plain))
			})
			return marked, false
		}
		var aligned []int
		for _, p := range occ {
			if runeAligned(h.text, p) && runeAligned(h.text, p+len(plain)) {
				aligned = append(aligned, p)
			}
		}
		if len(aligned) == 0 {
			key := "cut-rune:" + h.class
			fs.add(rankClass, key, func() string {
				return fmt.Sprintf("%s: fragment %d without markup is %s: a piece of the bytes of the text that begins or ends inside a multi-byte rune", in(), i, shortBytes(plain))
			})
			return marked, false
		}
		for _, p := range aligned {
			ok := true
			for _, m := range marks {
				if !validMark(h.locs, span{p + m.s, p + m.e}) {
					ok = false
					break
				}
			}
			if ok {
				ps[i].cands = append(ps[i].cands, p)
			}
		}
		if len(ps[i].cands) == 0 {
			fs.add(rankSpecific, "bad-mark:"+in(), func() string {
				var ms []string
				for _, m := range marks {
					ms = append(ms, fmt.Sprintf("%q@+%d", plain[m.s:m.e], m.s))
				}
				return fmt.Sprintf("%s: fragment %d (piece %s, at byte %v of the text) marks %v; at none of these positions is every marked span one matched term location or a run of overlapping ones", in(), i, shortBytes(plain), firstInts(aligned), ms)
			})
			return marked, false
		}
	}
	if len(ps) > 0 {
		for _, p := range ps[0].cands {
			for _, l := range h.locs {
				if l.s < l.e && p <= l.s && l.e <= p+len(ps[0].plain) {
					covers = true
				}
			}
		}
	}
	// pairwise disjoint placement (the piece may occur several times in the text)
	if len(ps) > 1 {
		budget := 200000
		var place func(i int, used []span) bool
		place = func(i int, used []span) bool {
			if i == len(ps) {
				return true
			}
			for _, p := range ps[i].cands {
				budget--
				if budget < 0 {
					return true // undecided: not a failure
				}
				s := span{p, p + len(ps[i].plain)}
				clash := false
				for _, u := range used {
					if s.s < u.e && u.s < s.e {
						clash = true
						break
					}
				}
				if !clash && place(i+1, append(used, s)) {
					return true
				}
			}
			return false
		}
		if !place(0, nil) {
			fs.add(rankSpecific, "overlap:"+in(), func() string {
				return fmt.Sprintf("%s: the fragments cannot be placed in the text without overlapping", in())
			})
		}
		if budget < 0 {
			cnt["placement_undecided"]++
		}
	}
	return marked, covers
}

// fits: some location is a whole-rune piece of the text of at most size runes.
func (h *hcase) fits() bool {
	for _, l := range h.locs {
		if l.s >= 0 && l.s < l.e && l.e <= len(h.text) && runeAligned(h.text, l.s) && runeAligned(h.text, l.e) &&
			utf8.Valid(h.text[l.s:l.e]) && utf8.RuneCount(h.text[l.s:l.e]) <= h.size {
			return true
		}
	}
	return false
}

func guard(f func()) (p interface{}) {
	defer func() { p = recover() }()
	f()
	return nil
}

type fmtKind struct {
	name string
	mk   func(size int) *highlight.SimpleHighlighter
}

var formatters = []fmtKind{
	{"html", func(size int) *highlight.SimpleHighlighter {
		if size == 0 {
			return highlight.NewHTMLHighlighter()
		}
		return highlight.NewSimpleHighlighter(highlight.NewSimpleFragmenterSized(size), highlight.NewHTMLFragmentFormatter(), highlight.DefaultSeparator)
	}},
	{"ansi", func(size int) *highlight.SimpleHighlighter {
		if size == 0 {
			return highlight.NewANSIHighlighter()
		}
		return highlight.NewSimpleHighlighter(highlight.NewSimpleFragmenterSized(size), highlight.NewANSIFragmentFormatter(), highlight.DefaultSeparator)
	}},
}

const defaultSize = 200

// classOf gives the coarse class of an input for class-level keys.
func classOf(text []byte, locs []span) string {
	var parts []string
	if len(locs) == 0 {
		return "no-locations"
	}
	overl := false
	for i := range locs {
		for j := i + 1; j < len(locs); j++ {
			if locs[i].s < locs[j].e && locs[j].s < locs[i].e {
				overl = true
			}
		}
	}
	if overl {
		parts = append(parts, "overlapping-locations")
	}
	if strings.ContainsRune(string(text), utf8.RuneError) {
		parts = append(parts, "text-with-U+FFFD")
	}
	if len(parts) == 0 {
		return "plain"
	}
	return strings.Join(parts, "+")
}

// checkAll highlights one (text, location map) with every size, count and formatter.
func checkAll(text []byte, tlm search.TermLocationMap, sizes []int, desc func() string, fs *failures, res *explore.Result) {
	locs := locsOf(tlm)
	class := classOf(text, locs)
	for _, size := range sizes {
		for _, fk := range formatters {
			hl := fk.mk(size)
			eff := size
			if eff == 0 {
				eff = defaultSize
			}
			for num := 1; num <= 3; num++ {
				h := &hcase{text: text, locs: locs, size: eff, num: num, kind: fk.name, desc: desc, class: class}
				var out []string
				if p := guard(func() { out = hl.BestFragments(tlm, text, num) }); p != nil {
					fs.add(rankSpecific, "panic:"+desc(), func() string {
						return fmt.Sprintf("%s size=%d num=%d %s: BestFragments panicked: %v", desc(), eff, num, fk.name, p)
					})
					continue
				}
				res.Evals++
				if marked, _ := judge(h, out, fs, res.Counts); marked {
					res.Nontrivial++
				}
				res.Counts["fragments"] += int64(len(out))
			}
			// the best fragment
			h := &hcase{text: text, locs: locs, size: eff, num: 1, kind: fk.name, desc: desc, class: class}
			var best string
			if p := guard(func() { best = hl.BestFragment(tlm, text) }); p != nil {
				fs.add(rankSpecific, "panic:"+desc(), func() string {
					return fmt.Sprintf("%s size=%d %s: BestFragment panicked: %v", desc(), eff, fk.name, p)
				})
				continue
			}
			res.Evals++
			var outs []string
			if best != "" || len(locs) == 0 {
				outs = []string{best}
			}
			marked, covers := judge(h, outs, fs, res.Counts)
			if h.fits() {
				res.Counts["best_with_fitting_location"]++
				if !marked {
					sub, what := "no-match", "which contains no matched location"
					if best == "" {
						sub, what = "no-fragment", "no fragment at all"
					} else if covers {
						sub, what = "unmarked", "which contains a matched location but marks nothing"
					}
					fs.add(rankClass, "best-"+sub+":"+class, func() string {
						return fmt.Sprintf("%s size=%d %s: a matched location of at most %d runes exists but BestFragment returned %s, %s", desc(), eff, fk.name, eff, shortBytes([]byte(best)), what)
					})
				}
			}
		}
	}
}

// ---------------------------------------------------------------- texts

var alphaShort = []rune{'a', 'b', ' ', 'é', '世'}
var alphaRepl = []rune{'a', 'b', ' ', utf8.RuneError}

func pow(b, e int) int64 {
	r := int64(1)
	for i := 0; i < e; i++ {
		r *= int64(b)
	}
	return r
}

func nTexts(alpha []rune, maxLen int) int64 {
	var n int64
	for l := 0; l <= maxLen; l++ {
		n += pow(len(alpha), l)
	}
	return n
}

// textOf: texts ordered by length, then by the alphabet order.
func textOf(alpha []rune, k int64) string {
	for l := 0; ; l++ {
		n := pow(len(alpha), l)
		if k < n {
			r := make([]rune, l)
			for i := l - 1; i >= 0; i-- {
				r[i] = alpha[k%int64(len(alpha))]
				k /= int64(len(alpha))
			}
			return string(r)
		}
		k -= n
	}
}

const blockSize = 125

type qspec struct {
	name  string
	field string
	mk    func() bluge.Query
}

var cjkAnalyzer = cjk.Analyzer()

func querySpecs() []qspec {
	var qs []qspec
	for _, t := range []string{"a", "b", "é", "世"} {
		t := t
		qs = append(qs, qspec{"term " + t, "t", func() bluge.Query { return bluge.NewTermQuery(t).SetField("t") }})
	}
	qs = append(qs,
		qspec{`phrase "a b"`, "t", func() bluge.Query { return bluge.NewMatchPhraseQuery("a b").SetField("t") }},
		qspec{`match "a b"`, "t", func() bluge.Query { return bluge.NewMatchQuery("a b").SetField("t") }},
		qspec{`match "a b 世 é"`, "t", func() bluge.Query { return bluge.NewMatchQuery("a b 世 é").SetField("t") }},
		qspec{"match-all (no locations)", "t", func() bluge.Query { return bluge.NewMatchAllQuery() }},
	)
	for _, t := range []string{"a", "b", " ", "é", "世", string(utf8.RuneError)} {
		t := t
		qs = append(qs, qspec{fmt.Sprintf("keyword prefix %q", t), "k", func() bluge.Query { return bluge.NewPrefixQuery(t).SetField("k") }})
	}
	qs = append(qs,
		qspec{`cjk match "世世"`, "c", func() bluge.Query { return bluge.NewMatchQuery("世世").SetField("c").SetAnalyzer(cjkAnalyzer) }},
		qspec{`cjk match "世世 世 a"`, "c", func() bluge.Query { return bluge.NewMatchQuery("世世 世 a").SetField("c").SetAnalyzer(cjkAnalyzer) }},
	)
	return qs
}

var queries = querySpecs()

func buildIndex(texts []string) (*bluge.Reader, error) {
	dir := crashfs.New()
	dir.Points = false
	var werr error
	s := verifmc.Run(verifmc.Options{}, func() {
		w, err := bluge.OpenWriter(harness.Config(dir, harness.Opts{NoMemMerge: true}))
		if err != nil {
			werr = err
			return
		}
		b := bluge.NewBatch()
		for i, t := range texts {
			d := bluge.NewDocument(fmt.Sprintf("%d", i)).
				AddField(bluge.NewTextField("t", t).StoreValue().HighlightMatches()).
				AddField(bluge.NewKeywordField("k", t).StoreValue().HighlightMatches()).
				AddField(bluge.NewTextField("c", t).WithAnalyzer(cjkAnalyzer).StoreValue().HighlightMatches())
			b.Insert(d)
		}
		if err := w.Batch(b); err != nil {
			werr = err
		}
		if err := w.Close(); err != nil && werr == nil {
			werr = err
		}
	})
	if s.Failure != "" {
		return nil, fmt.Errorf("index build failed: %s", s.Failure)
	}
	if werr != nil {
		return nil, werr
	}
	return bluge.OpenReader(harness.Config(dir, harness.Opts{}))
}

func copyTLM(tlm search.TermLocationMap) search.TermLocationMap {
	if tlm == nil {
		return nil
	}
	out := search.TermLocationMap{}
	for t, ls := range tlm {
		for _, l := range ls {
			c := *l
			out[t] = append(out[t], &c)
		}
	}
	return out
}

func describeTLM(tlm search.TermLocationMap) string {
	type tl struct {
		t    string
		s, e int
	}
	var all []tl
	for t, ls := range tlm {
		for _, l := range ls {
			all = append(all, tl{t, l.Start, l.End})
		}
	}
	sort.Slice(all, func(i, j int) bool {
		if all[i].s != all[j].s {
			return all[i].s < all[j].s
		}
		if all[i].e != all[j].e {
			return all[i].e < all[j].e
		}
		return all[i].t < all[j].t
	})
	var parts []string
	for i, x := range all {
		if i == 8 && len(all) > 10 {
			parts = append(parts, fmt.Sprintf("... %d more", len(all)-8))
			break
		}
		parts = append(parts, fmt.Sprintf("%q[%d,%d)", x.t, x.s, x.e))
	}
	return strings.Join(parts, " ")
}

func shortBytes(b []byte) string {
	if len(b) <= 100 {
		return fmt.Sprintf("%q", b)
	}
	return fmt.Sprintf("%q...%q (%d bytes)", b[:60], b[len(b)-30:], len(b))
}

func firstInts(a []int) string {
	if len(a) <= 6 {
		return fmt.Sprint(a)
	}
	return fmt.Sprintf("%v... (%d positions)", a[:6], len(a))
}

func shortText(text []byte) string {
	if utf8.RuneCount(text) <= 48 {
		return fmt.Sprintf("%q", text)
	}
	r := []rune(string(text))
	return fmt.Sprintf("%q...%q (%d runes, %d bytes)", string(r[:24]), string(r[len(r)-16:]), len(r), len(text))
}

// searchAndCheck runs every query over the indexed texts and checks every hit.
func searchAndCheck(texts []string, sizesOf func(text string) []int, fs *failures, res *explore.Result, only ...string) {
	r, err := buildIndex(texts)
	if err != nil {
		res.Failure, res.Key = "harness: "+err.Error(), "harness"
		return
	}
	defer r.Close()
	for _, q := range queries {
		q := q
		if len(only) > 0 {
			use := false
			for _, n := range only {
				if n == q.name {
					use = true
				}
			}
			if !use {
				continue
			}
		}
		it, err := r.Search(context.Background(), bluge.NewTopNSearch(len(texts)+1, q.mk()).IncludeLocations())
		if err != nil {
			fs.add(rankSpecific, "search-error:"+q.name, func() string { return fmt.Sprintf("query %s: %v", q.name, err) })
			continue
		}
		for {
			m, err := it.Next()
			if err != nil {
				fs.add(rankSpecific, "search-error:"+q.name, func() string { return fmt.Sprintf("query %s: %v", q.name, err) })
				break
			}
			if m == nil {
				break
			}
			var id string
			var stored []byte
			_ = m.VisitStoredFields(func(field string, value []byte) bool {
				if field == "_id" {
					id = string(value)
				}
				if field == q.field {
					stored = append([]byte(nil), value...)
				}
				return true
			})
			var di int
			fmt.Sscanf(id, "%d", &di)
			if di < 0 || di >= len(texts) || string(stored) != texts[di] {
				fs.add(rankSpecific, "stored-text:"+id, func() string {
					return fmt.Sprintf("document %s: stored value of field %s is %q, indexed %q", id, q.field, stored, texts[di])
				})
				continue
			}
			tlm := copyTLM(m.Locations[q.field])
			if len(tlm) > 0 {
				res.Counts["hits_with_locations"]++
			} else {
				res.Counts["hits_without_locations"]++
			}
			text := stored
			desc := func() string {
				return fmt.Sprintf("text=%s query=%s field=%s locations={%s}", shortText(text), q.name, q.field, describeTLM(tlm))
			}
			checkAll(text, tlm, sizesOf(texts[di]), desc, fs, res)
		}
	}
}

func shortSizes(text string) []int {
	n := utf8.RuneCountInString(text)
	var s []int
	for i := 1; i <= n+1; i++ {
		s = append(s, i)
	}
	return append(s, 0) // 0 = the bundled default highlighter
}

func maxLenOf(param string, alpha []rune) int {
	if len(alpha) == len(alphaRepl) {
		if param == "thorough" {
			return 6
		}
		return 5
	}
	if param == "thorough" {
		return 7
	}
	return 5
}

func shortTotal(alpha []rune) func(string) int64 {
	return func(param string) int64 {
		return (nTexts(alpha, maxLenOf(param, alpha)) + blockSize - 1) / blockSize
	}
}

func shortEval(alpha []rune) blockEval {
	return func(idx int64, param string) (*explore.Result, *failures) {
		total := nTexts(alpha, maxLenOf(param, alpha))
		var texts []string
		for k := idx * blockSize; k < (idx+1)*blockSize && k < total; k++ {
			texts = append(texts, textOf(alpha, k))
		}
		res := &explore.Result{Counts: map[string]int64{}, Outcome: fmt.Sprint(idx)}
		var fs failures
		searchAndCheck(texts, shortSizes, &fs, res)
		if idx%40 == 1 {
			res.Sample = map[string]interface{}{"texts": fmt.Sprintf("%q .. %q", texts[0], texts[len(texts)-1]), "highlighter_calls": res.Evals}
		}
		return res, &fs
	}
}

// ---------------------------------------------------------------- long texts

func filler(words []string, runes int) string {
	var b strings.Builder
	n := 0
	for i := 0; n < runes; i++ {
		w := words[i%len(words)]
		if i > 0 {
			b.WriteByte(' ')
			n++
		}
		b.WriteString(w)
		n += utf8.RuneCountInString(w)
	}
	return b.String()
}

var latin = []string{"lorem", "ipsum", "dolor", "sit", "amet", "consectetur", "adipiscing", "elit"}
var multi = []string{"été", "日本語", "naïve", "Ωmega", "über", "漢字かな"}
var emoji = []string{"😀", "😀😀", "x😀y"}

func longTexts() []string {
	F := func(n int) string { return filler(latin, n) }
	M := func(n int) string { return filler(multi, n) }
	E := func(n int) string { return filler(emoji, n) }
	every := func(gap, times int, w string) string {
		var parts []string
		for i := 0; i < times; i++ {
			parts = append(parts, F(gap), w)
		}
		return strings.Join(parts, " ")
	}
	rep := string(utf8.RuneError)
	return []string{
		"a " + F(700) + " b",
		"b " + F(700) + " a b",
		F(300) + " a " + F(300) + " b " + F(300),
		"a " + M(700) + " b",
		strings.Repeat("a b ", 400),
		"a" + strings.Repeat(" ", 700) + "b",
		`a <b> & "a" 'b' </mark> <mark> b &amp; ` + F(650) + ` a&b <a> b`,
		"a " + rep + " b " + F(700) + " a " + rep,
		"a b " + F(300) + " " + rep + " " + F(300) + " a b",
		every(150, 6, "a"),
		every(199, 4, "a b"),
		every(201, 4, "b"),
		"世 " + M(700) + " 世世 世",
		"é " + F(700) + " é",
		F(500) + " a " + F(500),
		F(700) + " a",
		"a" + " " + F(700),
		"a " + E(650) + " b",
		"a\nb\ta b\r\n" + F(700) + "\na\n",
		strings.Repeat("世", 650),
		"a " + strings.Repeat("é", 650) + " b",
		"a b",
		"世世世 世世世",
		"世世世世 世世 世世世世世",
		"é a é é a é",
	}
}

var longList = longTexts()

func longSizes(text string) []int {
	n := utf8.RuneCountInString(text)
	return []int{1, 2, 3, 5, 8, 13, 50, 199, 200, 201, n - 1, n, n + 1, 0}
}

func longTotal(string) int64 { return int64(len(longList)) }

func longEval(idx int64, param string) (*explore.Result, *failures) {
	res := &explore.Result{Counts: map[string]int64{}, Outcome: fmt.Sprint(idx)}
	var fs failures
	searchAndCheck([]string{longList[idx]}, longSizes, &fs, res)
	if idx == 0 {
		res.Sample = map[string]interface{}{"long_text_runes": utf8.RuneCountInString(longList[idx]), "highlighter_calls": res.Evals}
	}
	return res, &fs
}

// ---------------------------------------------------------------- wide-rune texts longer than the fragment

// Texts of one repeated multi-byte rune (a non-letter, so that the match "a" stays
// a token of its own) that are longer than every fragment size used, with the
// match at every rune index 0..70 and at the end; alone, and with a second match
// at the end of the text.
type wideFiller struct {
	name string
	r    string
}

var wideFillers = []wideFiller{
	{"2-byte U+00A7", "\u00a7"},
	{"3-byte U+4E16", "\u4e16"},
	{"3-byte U+3001", "\u3001"},
	{"4-byte U+1F600", "\U0001F600"},
	{"2-byte U+00A7 and space", "\u00a7 "},
	{"3-byte U+4E16 and space", "\u4e16 "},
}

const wideRunes = 260

func wideTexts(f wideFiller) []string {
	unit := utf8.RuneCountInString(f.r)
	mk := func(k int, second bool) string {
		var b strings.Builder
		n := 0
		for n+unit <= k {
			b.WriteString(f.r)
			n += unit
		}
		for n < k { // filler of two runes: complete with its first rune
			r, _ := utf8.DecodeRuneInString(f.r)
			b.WriteRune(r)
			n++
		}
		b.WriteString("a")
		n++
		for n+unit <= wideRunes-2 {
			b.WriteString(f.r)
			n += unit
		}
		if second {
			r, _ := utf8.DecodeRuneInString(f.r)
			b.WriteRune(r)
			b.WriteString("a")
		}
		return b.String()
	}
	var out []string
	for k := 0; k <= 70; k++ {
		out = append(out, mk(k, false), mk(k, true))
	}
	out = append(out, mk(wideRunes-1, false), mk(wideRunes/2, false), mk(199, false), mk(200, false), mk(201, true))
	return out
}

func wideSizes(string) []int { return []int{5, 20, 30, 100, 200, 0} }

const wideBlock = 21

var wideBlocks = (len(wideTexts(wideFillers[0])) + wideBlock - 1) / wideBlock

func wideTotal(string) int64 { return int64(len(wideFillers) * wideBlocks) }

// the queries that find the single-letter match (and the one without locations);
// the filler itself is not searched for: hundreds of locations per text are the
// subject of c20-long, not of this family
var wideQueries = []string{"term a", `match "a b"`, "match-all (no locations)"}

func wideEval(idx int64, param string) (*explore.Result, *failures) {
	res := &explore.Result{Counts: map[string]int64{}, Outcome: fmt.Sprint(idx)}
	var fs failures
	f := wideFillers[idx/int64(wideBlocks)]
	texts := wideTexts(f)
	lo := int(idx%int64(wideBlocks)) * wideBlock
	hi := min(lo+wideBlock, len(texts))
	texts = texts[lo:hi]
	searchAndCheck(texts, wideSizes, &fs, res, wideQueries...)
	if idx%int64(wideBlocks) == 0 {
		res.Sample = map[string]interface{}{"filler": f.name, "texts": len(texts), "runes_each": utf8.RuneCountInString(texts[0]), "highlighter_calls": res.Evals}
	}
	return res, &fs
}

// ---------------------------------------------------------------- adversarial locations

var advTextsQuick = []string{"", "é", "aé世b"}
var advTextsThorough = []string{"", "a", "é", "aé世b", "世a é"}

// positions: -1, 0, 1, inside a multi-byte rune, len-1, len, len+1
func advPositions(text string) []int {
	n := len(text)
	ps := []int{-1, 0, 1}
	for i := 0; i < n; i++ {
		if !utf8.RuneStart(text[i]) {
			ps = append(ps, i)
			break
		}
	}
	ps = append(ps, n-1, n, n+1)
	var out []int
	seen := map[int]bool{}
	for _, p := range ps {
		if !seen[p] {
			seen[p] = true
			out = append(out, p)
		}
	}
	return out
}

type advSpace struct {
	text string
	locs []span
	n    int64 // sequences of 0..3 locations
}

func mkAdvSpaces(texts []string) []advSpace {
	var out []advSpace
	for _, t := range texts {
		ps := advPositions(t)
		var locs []span
		for _, s := range ps {
			for _, e := range ps {
				locs = append(locs, span{s, e})
			}
		}
		k := int64(len(locs))
		out = append(out, advSpace{t, locs, 1 + k + k*k + k*k*k})
	}
	return out
}

var advQuick, advThorough = mkAdvSpaces(advTextsQuick), mkAdvSpaces(advTextsThorough)

func advSpacesOf(param string) []advSpace {
	if param == "thorough" {
		return advThorough
	}
	return advQuick
}

const advChunk = 200

func advTotal(param string) int64 {
	var n int64
	for _, s := range advSpacesOf(param) {
		n += (s.n + advChunk - 1) / advChunk
	}
	return n
}

func advSeq(sp *advSpace, k int64) []span {
	n := int64(len(sp.locs))
	for l := 0; l <= 3; l++ {
		c := pow(int(n), l)
		if k < c {
			out := make([]span, l)
			for i := 0; i < l; i++ {
				out[i] = sp.locs[k%n]
				k /= n
			}
			return out
		}
		k -= c
	}
	return nil
}

func advClass(text string, seq []span) string {
	for _, l := range seq {
		if l.s < 0 {
			return "location-start<0"
		}
	}
	for _, l := range seq {
		if l.e < l.s {
			return "location-end<start"
		}
	}
	return "other"
}

func advEval(idx int64, param string) (*explore.Result, *failures) {
	res := &explore.Result{Counts: map[string]int64{}, Outcome: fmt.Sprint(idx)}
	var fs failures
	var sp *advSpace
	advSpaces := advSpacesOf(param)
	for i := range advSpaces {
		c := (advSpaces[i].n + advChunk - 1) / advChunk
		if idx < c {
			sp = &advSpaces[i]
			break
		}
		idx -= c
	}
	text := []byte(sp.text)
	sizes := []int{1, 2, utf8.RuneCountInString(sp.text) + 1, 0}
	for k := idx * advChunk; k < (idx+1)*advChunk && k < sp.n; k++ {
		seq := advSeq(sp, k)
		// (a) all locations under one term, in the given order; (b) one term each
		// when the starts are distinct (the order after sorting is then determined)
		variants := 1
		distinct := len(seq) > 1
		for i := range seq {
			for j := i + 1; j < len(seq); j++ {
				if seq[i].s == seq[j].s {
					distinct = false
				}
			}
		}
		if distinct {
			variants = 2
		}
		for v := 0; v < variants; v++ {
			tlm := search.TermLocationMap{}
			for i, l := range seq {
				term := "t"
				if v == 1 {
					term = fmt.Sprintf("t%d", i)
				}
				tlm.AddLocation(term, &search.Location{Pos: i + 1, Start: l.s, End: l.e})
			}
			for _, size := range sizes {
				for _, fk := range formatters {
					hl := fk.mk(size)
					for num := 1; num <= 3; num += 2 {
						res.Evals++
						p := guard(func() { _ = hl.BestFragments(tlm, text, num) })
						if p == nil {
							p = guard(func() { _ = hl.BestFragment(tlm, text) })
						}
						if p == nil {
							continue
						}
						res.Counts["panics"]++
						class := advClass(sp.text, seq)
						in := fmt.Sprintf("text=%q locations=%v terms=%s size=%d num=%d %s", sp.text, seq, []string{"one", "distinct"}[v], size, num, fk.name)
						if class == "other" {
							fs.add(rankSpecific, "panic:"+in, func() string { return in + ": panic: " + fmt.Sprint(p) })
						} else {
							fs.add(rankClass, "panic:"+class, func() string { return in + ": panic: " + fmt.Sprint(p) })
						}
					}
				}
			}
		}
		wellFormed := true
		for _, l := range seq {
			if l.s < 0 || l.e < l.s {
				wellFormed = false
			}
		}
		if wellFormed && len(seq) > 0 {
			res.Nontrivial++
		}
	}
	return res, &fs
}

func main() {
	log.SetOutput(io.Discard)
	withAspects("c20-short", shortTotal(alphaShort), shortEval(alphaShort))
	withAspects("c20-replacement", shortTotal(alphaRepl), shortEval(alphaRepl))
	withAspects("c20-long", longTotal, longEval)
	withAspects("c20-wide", wideTotal, wideEval)
	withAspects("c20-adversarial", advTotal, advEval)
	explore.WorkerMain()
	c := checkmain.New("C20")
	if v := c.IsReplay(); v != nil {
		c.RunReplay(v)
	}
	c.Rule = "short: every text of <= 5 (thorough: 7) runes over {a, b, space, e-acute (2 bytes), U+4E16 (3 bytes)}, indexed in blocks of 125 documents as a stored, highlightable field with the standard analyzer, as a keyword field and with the CJK analyzer (overlapping bigrams); 16 queries (term a/b/e-acute/U+4E16, phrase \"a b\", match \"a b\", match of four terms, match-all = no locations for the field, keyword prefix queries = one location spanning the whole text, two CJK bigram matches) through TopNSearch.IncludeLocations; every hit x fragment sizes 1..runes+1 and the bundled default x 1..3 fragments x HTML and ANSI, plus BestFragment. replacement: the same over {a, b, space, U+FFFD} up to 5 (6) runes. long: 25 hand-built texts (> 3 x 200 runes, matches at both ends, multi-byte and 4-byte fillers, HTML special characters, U+FFFD, dense matches, runs of overlapping bigrams) x sizes {1,2,3,5,8,13,50,199,200,201,n-1,n,n+1,default}. wide: 6 fillers (a 2-byte, two 3-byte and a 4-byte non-letter rune repeated, and the 2- and 3-byte ones alternating with a space) x texts of about 260 runes with the match a at every rune index 0..70, at 130, 199, 200 and at the end, alone and with a second match at the end x sizes {5,20,30,100,200,default} x HTML/ANSI x BestFragment and BestFragments(1..3), queries term a, match \"a b\" and match-all. adversarial: texts {empty, e-acute, a+e-acute+U+4E16+b} (thorough: also a and U+4E16+a+space+e-acute) x every sequence of <= 3 locations with start,end in {-1,0,1,inside a rune,len-1,len,len+1} (inverted ones included), all under one term in the given order and, when the starts differ, one term each x sizes {1,2,runes+1,default} x HTML/ANSI x 1 and 3 fragments. Every block is presented once per pinned failure class and once for all other failures (evaluated once). non-trivial = the best fragment carries a mark (real searches), a non-empty well-formed location sequence (adversarial)"
	c.Explanation = "bounded-exhaustive enumeration; the oracle works on the returned strings only: the separators (U+2026 at either end) and the known markup (<mark>..</mark>, ESC[43m..ESC[0m) are removed, HTML is un-escaped; the rest must occur in the stored text as a contiguous piece that starts and ends on rune boundaries and has at most fragment-size runes; at some occurrence every marked span must equal one location of the hit or the union of a run of overlapping locations (sets, no order); the fragments must be placeable pairwise disjoint (the piece may occur several times); at most the requested number; if a location of at most fragment-size runes exists BestFragment must carry a mark; nothing may panic"
	c.Assumptions = []string{
		"locations come from TopNSearch.IncludeLocations (AllMatches.IncludeLocations never fills DocumentMatch.Locations: the AllIterator does not call Complete)",
		"'contains at least one match' is read as 'carries a mark'; a best fragment that covers a matched location without marking it is reported under its own key (best-unmarked)",
		"a fragment that is a contiguous piece of the bytes of the text but begins or ends inside a multi-byte rune is not a piece of the text (key cut-rune)",
		"the fragment-size law (a fragment has at most fragment-size runes) is checked although the statement only implies it",
		"failure classes that the unchanged tree shows carry class-level keys (cut-rune:no-locations, best-no-fragment:text-with-U+FFFD, best-unmarked:overlapping-locations, panic:location-start<0, panic:location-end<start); every other failure is keyed by its input",
		"locations with end < start or negative offsets cannot come from the bundled analyzers; they are part of the adversarial grid because the statement says 'whatever the text and locations'",
	}
	c.AddEnum(explore.Enumerate(explore.EnumConfig{Name: "c20-short", Param: c.Tier, Budget: c.PickD(20*time.Second, 6*time.Minute)}))
	c.AddEnum(explore.Enumerate(explore.EnumConfig{Name: "c20-replacement", Param: c.Tier, Budget: c.PickD(8*time.Second, 2*time.Minute)}))
	c.AddEnum(explore.Enumerate(explore.EnumConfig{Name: "c20-long", Param: c.Tier, Budget: c.PickD(12*time.Second, 2*time.Minute), Chunk: int64(len(pinned) + 1)}))
	c.AddEnum(explore.Enumerate(explore.EnumConfig{Name: "c20-wide", Param: c.Tier, Budget: c.PickD(10*time.Second, 2*time.Minute), Chunk: int64(len(pinned) + 1)}))
	c.AddEnum(explore.Enumerate(explore.EnumConfig{Name: "c20-adversarial", Param: c.Tier, Budget: c.PickD(12*time.Second, 2*time.Minute)}))
	c.Finish()
}

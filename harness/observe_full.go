package harness

import (
	"context"
	"fmt"
	"sort"
	"strings"

	"github.com/blugelabs/bluge"
	"github.com/blugelabs/bluge/search"
	"github.com/blugelabs/bluge/verifmc"
)

func idsOf(it search.DocumentMatchIterator, withScore bool) ([]string, error) {
	var out []string
	for {
		m, err := it.Next()
		if err != nil {
			return nil, err
		}
		if m == nil {
			return out, nil
		}
		var id, ver string
		err = m.VisitStoredFields(func(field string, value []byte) bool {
			if field == "_id" {
				id = string(value)
			}
			if field == "v" {
				ver = string(value)
			}
			return true
		})
		if err != nil {
			return nil, err
		}
		e := id + "=" + ver
		if withScore {
			e += fmt.Sprintf("@%.6f", m.Score)
		}
		out = append(out, e)
	}
}

// ObserveFull exercises every read path of a reader and renders the answers
// canonically: content (count, match-all, stored fields), a field sort
// (document values), a full dictionary scan, an unscored conjunction (bitmap
// optimisation), a scored disjunction and a scored term search (recycled
// postings iterators), lookups by id.  ids lists the ids to look up.
func ObserveFull(r *bluge.Reader, ids []string) (string, error) {
	var parts []string
	var rerr error
	verifmc.Quiet(func() {
		pairs, err := observe(r)
		if err != nil {
			rerr = err
			return
		}
		parts = append(parts, "content{"+ContentOf(pairs)+"}")
		ctx := context.Background()
		// document values through a field sort
		it, err := r.Search(ctx, bluge.NewTopNSearch(100, bluge.NewMatchAllQuery()).SortBy([]string{"-v", "_id"}))
		if err != nil {
			rerr = fmt.Errorf("sorted search: %v", err)
			return
		}
		l, err := idsOf(it, false)
		if err != nil {
			rerr = fmt.Errorf("sorted search: %v", err)
			return
		}
		parts = append(parts, "sorted["+strings.Join(l, " ")+"]")
		// dictionary scan
		di, err := r.DictionaryIterator("t", nil, nil, nil)
		if err != nil {
			rerr = fmt.Errorf("dictionary: %v", err)
			return
		}
		var terms []string
		for {
			e, err := di.Next()
			if err != nil {
				rerr = fmt.Errorf("dictionary next: %v", err)
				return
			}
			if e == nil {
				break
			}
			terms = append(terms, fmt.Sprintf("%s:%d", e.Term(), e.Count()))
		}
		_ = di.Close()
		parts = append(parts, "dict["+strings.Join(terms, " ")+"]")
		// unscored conjunction / disjunction (unadorned bitmap paths)
		for _, id := range ids {
			q := bluge.NewBooleanQuery().AddMust(bluge.NewTermQuery("common").SetField("t"), bluge.NewTermQuery(id).SetField("t"))
			it, err = r.Search(ctx, bluge.NewTopNSearch(100, q).SetScore("none").SortBy([]string{"_id", "v"}))
			if err != nil {
				rerr = fmt.Errorf("conjunction: %v", err)
				return
			}
			l, err = idsOf(it, false)
			if err != nil {
				rerr = fmt.Errorf("conjunction: %v", err)
				return
			}
			parts = append(parts, "conj("+id+")["+strings.Join(l, " ")+"]")
		}
		dq := bluge.NewBooleanQuery()
		for _, id := range ids {
			dq.AddShould(bluge.NewTermQuery(id).SetField("t"))
		}
		it, err = r.Search(ctx, bluge.NewTopNSearch(100, dq).SetScore("none").SortBy([]string{"_id", "v"}))
		if err != nil {
			rerr = fmt.Errorf("disjunction: %v", err)
			return
		}
		l, err = idsOf(it, false)
		if err != nil {
			rerr = fmt.Errorf("disjunction: %v", err)
			return
		}
		parts = append(parts, "disj["+strings.Join(l, " ")+"]")
		// scored searches, twice (the second run uses recycled postings iterators)
		for k := 0; k < 2; k++ {
			it, err = r.Search(ctx, bluge.NewTopNSearch(100, bluge.NewMatchQuery("common").SetField("t")))
			if err != nil {
				rerr = fmt.Errorf("scored search: %v", err)
				return
			}
			l, err = idsOf(it, true)
			if err != nil {
				rerr = fmt.Errorf("scored search: %v", err)
				return
			}
			sort.Strings(l)
			parts = append(parts, "scored["+strings.Join(l, " ")+"]")
		}
	})
	if rerr != nil {
		return "", rerr
	}
	byID, err := ObserveByID(r, ids)
	if err != nil {
		return "", err
	}
	parts = append(parts, "byid{"+byID+"}")
	return strings.Join(parts, " "), nil
}

// ContentOfFull extracts the content{...} part of a full observation.
func ContentOfFull(full string) string {
	i := strings.Index(full, "content{")
	if i < 0 {
		return ""
	}
	j := strings.Index(full[i:], "}")
	return full[i+8 : i+j]
}

#!/bin/bash
# verify_seed.sh <seed dir with patch.diff, demo/, meta.json> : confirm independently that
#  (1) the demonstration passes on the unmodified tree, (2) with the patch bluge builds and its own
#  suite passes, (3) the demonstration fails with the patch.  Uses a scratch worktree, removed afterwards.
set -u
D=$(realpath "$1")
export GOFLAGS=-mod=mod GOPROXY=off GOSUMDB=off GOTOOLCHAIN=local GOCACHE=/verif/build/gocache
W=/tmp/verif-seedchk-$$
git -C /repo worktree add -q --detach $W HEAD || exit 2
trap 'git -C /repo worktree remove --force $W >/dev/null 2>&1' EXIT
cmd=$(python3 -c "import json;print(json.load(open('$D/meta.json'))['demo_cmd'])")
cp -r $D/demo/. $W/
echo "--- demo on the unmodified tree: $cmd"
( cd $W && timeout 600 bash -c "$cmd" ) > $W/.demo0.log 2>&1; r0=$?
tail -3 $W/.demo0.log
cp $W/.demo0.log /tmp/.demo0.$$.log; git -C $W clean -fdq; 
git -C $W apply $D/patch.diff || { echo "SEED-RESULT patch does not apply"; exit 1; }
echo "--- build + suite with the patch"
( cd $W && go build ./... && go test -vet=off -count=1 ./... ) > $W/.suite.log 2>&1; rs=$?
if [ $rs -ne 0 ]; then
  # timing-based lock test is flaky under load: retry failing packages once
  ( cd $W && go test -vet=off -count=1 ./... ) > $W/.suite.log 2>&1; rs=$?
fi
grep -v "^ok\|no test files" $W/.suite.log | head -5
echo "--- demo with the patch"
cp -r $D/demo/. $W/
( cd $W && timeout 600 bash -c "$cmd" ) > $W/.demo1.log 2>&1; r1=$?
tail -3 $W/.demo1.log
echo "SEED-RESULT demo_without=$r0 suite_with=$rs demo_with=$r1"
if [ $r0 -eq 0 ] && [ $rs -eq 0 ] && [ $r1 -ne 0 ]; then echo "SEED-OK"; else echo "SEED-REJECTED"; fi

// C10: numeric encoding preserves order; range decomposition is exact.
//
// Five complete enumerations over boundary value sets:
//
//	c10-roundtrip  every value x every shift 0..63: encode, validate, decode
//	c10-order      all pairs (a, b) x every shift: byte order == value order
//	c10-range      all (min, max) x {open, closed}^2 x all probes, through the
//	               real NumericRangeQuery / DateRangeQuery searcher construction
//	               over a stub search.Reader whose dictionary is exactly the
//	               probes' indexed tokens, and through splitInt64Range+Enumerate
//	c10-window     every closed interval inside 256-point windows (stride 1 and
//	               strides 2^s) against every probe of the window
//	c10-e2e        NumericRangeQuery / DateRangeQuery / numeric sort on a real
//	               three-segment index
//
// A range query whose term enumeration would probe more than probeCap candidate
// terms is reported as a violation (it would not return in reasonable time) and
// skipped; see probeCap.
//
// The oracle is plain Go comparison of int64 / float64 values (with -0 ordered
// immediately below +0); it never calls the code under test.
package main

import (
	"bytes"
	"context"
	"fmt"
	"io"
	"log"
	"math"
	"os"
	"sort"
	"time"

	"github.com/blugelabs/bluge"
	"github.com/blugelabs/bluge/numeric"
	"github.com/blugelabs/bluge/numeric/geo"
	"github.com/blugelabs/bluge/search"
	"github.com/blugelabs/bluge/search/searcher"
	"github.com/blugelabs/bluge/verifmc"
	segment "github.com/blugelabs/bluge_segment_api"

	"verif/checkmain"
	"verif/crashfs"
	"verif/explore"
	"verif/harness"
)

// ---------------------------------------------------------------- value sets

const (
	posInfImage = int64(0x7FF0000000000000)  // bit pattern of +Inf read as a sortable int64
	negInfImage = int64(-0x7FF0000000000001) // 0x800FFFFFFFFFFFFF: what -Inf maps to
)

var patterns = []int64{0x0123456789ABCDEF, 0x0FEDCBA987654321, 0x0FFFFFFFFFFFFFF0, 0x5555555555555555,
	0x2AAAAAAAAAAAAAAA, 0x0F0F0F0F0F0F0F0F, 0x7F7F7F7F7F7F7F7F, 0x00FF00FF00FF00FF, 0x7F00000000000000, 0x00000000FFFFFFF0}

type intSet map[int64]bool

func (s intSet) add(vs ...int64) {
	for _, v := range vs {
		s[v] = true
	}
}
func (s intSet) addPM(v int64) { s[v] = true; s[-v] = true }
func (s intSet) sorted() []int64 {
	out := make([]int64, 0, len(s))
	for v := range s {
		out = append(out, v)
	}
	sort.Slice(out, func(i, j int) bool { return out[i] < out[j] })
	return out
}

// probes: the boundary set V of int64 values
func buildProbeInts() intSet {
	s := intSet{}
	for d := int64(-3); d <= 3; d++ {
		s.add(d)
	}
	for k := uint(0); k <= 62; k++ {
		p := int64(1) << k
		for d := int64(-1); d <= 1; d++ {
			s.addPM(p + d)
		}
	}
	for _, d := range []int64{0, 1, 2, 15, 16, 17, 127, 128, 129} {
		s.add(math.MinInt64+d, math.MaxInt64-d)
	}
	// every 4-bit precision-step boundary: m*16^j + {-1,0,+1}
	for j := uint(0); j < 16; j++ {
		for m := uint64(1); m <= 15; m++ {
			u := m << (4 * j)
			if u > math.MaxInt64 {
				if u == 1<<63 {
					s.add(math.MinInt64)
				}
				continue
			}
			for d := int64(-1); d <= 1; d++ {
				s.addPM(int64(u) + d)
			}
		}
	}
	// 7-bit byte boundaries of the prefix coding: 127*2^(7i), 2^(7i)*129 and neighbours
	for i := uint(0); i < 9; i++ {
		if 7*i+7 <= 62 {
			for d := int64(-1); d <= 1; d++ {
				s.addPM(int64(127)<<(7*i) + d)
			}
		}
		if 7*i+8 <= 62 {
			for d := int64(-1); d <= 1; d++ {
				s.addPM(int64(129)<<(7*i) + d)
			}
		}
	}
	for _, p := range patterns {
		s.addPM(p)
		s.addPM(p + 1)
		s.addPM(p - 1)
	}
	for d := int64(-2); d <= 2; d++ {
		s.add(posInfImage+d, negInfImage+d)
	}
	// geo hashes of the corner / centre points (stored through the same encoding)
	for _, lon := range []float64{-180, -90, 0, 90, 179.999999} {
		for _, lat := range []float64{-90, -45, 0, 45, 89.999999} {
			s.add(int64(geo.MortonHash(lon, lat)))
		}
	}
	return s
}

var quickK = []uint{4, 7, 16, 28, 35, 52, 60, 62}

// interval end points: V' (a subset of V)
func buildEndInts(thorough bool) intSet {
	s := intSet{}
	s.add(0, 1, -1, 2, -2, math.MinInt64, math.MinInt64+1, math.MaxInt64, posInfImage, negInfImage)
	ks := quickK
	if thorough {
		ks = nil
		for k := uint(1); k <= 62; k++ {
			ks = append(ks, k)
		}
	}
	for _, k := range ks {
		for d := int64(-1); d <= 1; d++ {
			s.addPM(int64(1)<<k + d)
		}
	}
	type mj struct{ m, j uint }
	mjs := []mj{{15, 1}, {15, 7}, {7, 15}}
	if thorough {
		mjs = nil
		for j := uint(0); j < 16; j++ {
			for _, m := range []uint{3, 7, 9, 15} {
				mjs = append(mjs, mj{m, j})
			}
		}
	}
	for _, x := range mjs {
		u := uint64(x.m) << (4 * x.j)
		if u > math.MaxInt64 {
			continue
		}
		for d := int64(-1); d <= 1; d++ {
			s.addPM(int64(u) + d)
		}
	}
	np := 2
	if thorough {
		np = len(patterns)
	}
	for _, p := range patterns[:np] {
		s.addPM(p)
	}
	return s
}

func buildE2EInts(thorough bool) intSet {
	s := intSet{}
	s.add(0, 1, -1, 2, -2, 15, 16, 17, -15, -16, -17, 127, 128, -127, -128, 255, 256, -255, -256)
	s.add(math.MinInt64, math.MinInt64+1, math.MaxInt64-1, math.MaxInt64)
	for d := int64(-1); d <= 1; d++ {
		s.add(posInfImage+d, negInfImage+d)
		s.addPM(1<<28 + d)
		s.addPM(1<<32 + d)
	}
	s.addPM(1 << 60)
	s.addPM(1<<60 - 1)
	s.addPM(1 << 62)
	s.addPM(patterns[0])
	s.add(time.Date(2020, 1, 1, 0, 0, 0, 0, time.UTC).UnixNano(), time.Date(1969, 12, 31, 23, 59, 59, 999999999, time.UTC).UnixNano())
	if thorough {
		for k := uint(4); k <= 62; k += 4 {
			for d := int64(-1); d <= 1; d++ {
				s.addPM(int64(1)<<k + d)
			}
		}
		for _, p := range patterns {
			s.addPM(p)
		}
	}
	return s
}

// total order on finite floats and infinities, -0 immediately below +0
func totalLess(a, b float64) bool {
	if a < b {
		return true
	}
	if a > b {
		return false
	}
	return math.Signbit(a) && !math.Signbit(b)
}

type floatSet map[uint64]bool

func (s floatSet) add(fs ...float64) {
	for _, f := range fs {
		if math.IsNaN(f) || math.IsInf(f, 0) {
			continue
		}
		s[math.Float64bits(f)] = true
	}
}
func (s floatSet) addPM(fs ...float64) {
	for _, f := range fs {
		s.add(f, -f)
	}
}
func (s floatSet) addNear(fs ...float64) {
	for _, f := range fs {
		s.addPM(f, math.Nextafter(f, math.Inf(1)), math.Nextafter(f, math.Inf(-1)))
	}
}
func (s floatSet) sorted() []float64 {
	out := make([]float64, 0, len(s))
	for b := range s {
		out = append(out, math.Float64frombits(b))
	}
	sort.Slice(out, func(i, j int) bool { return totalLess(out[i], out[j]) })
	return out
}

var largestSubnormal = math.Float64frombits(0x000FFFFFFFFFFFFF)
var smallestNormal = math.Float64frombits(0x0010000000000000)

func humanFloats() []float64 {
	return []float64{0, 1, 2, 3, 10, 16, 100, 255, 256, 0.1, 0.5, 1.5, math.Pi, math.E, 1e-10, 1e10, 1e100, 1e-100, 1e300, 1e-300,
		1 << 53, 1<<53 - 1, 1 << 63, 1 << 62, float64(1 << 32), math.MaxFloat64, math.SmallestNonzeroFloat64, largestSubnormal, smallestNormal,
		math.MaxFloat32, math.SmallestNonzeroFloat32}
}

// float values whose bit patterns are the non-negative members of an int set
func fromBits(s floatSet, ints intSet) {
	for v := range ints {
		if v >= 0 && uint64(v) < 0x7FF0000000000000 {
			s.addPM(math.Float64frombits(uint64(v)))
		}
	}
}

func buildProbeFloats(probeInts intSet) floatSet {
	s := floatSet{}
	fromBits(s, probeInts)
	s.addNear(humanFloats()...)
	for k := -1074; k <= 1023; k++ {
		if k%16 == 0 || k < -1070 || k > 1020 || (k > -1026 && k < -1018) || (k >= -4 && k <= 8) || (k >= 51 && k <= 54) || (k >= 62 && k <= 64) {
			s.addPM(math.Ldexp(1, k))
		}
	}
	return s
}

func buildEndFloats(endInts intSet) floatSet {
	s := floatSet{}
	fromBits(s, endInts)
	s.addPM(0, 1, 0.5, 2, 0.1, 100, 1e10, 1e-10, math.Pi, math.MaxFloat64, math.SmallestNonzeroFloat64, largestSubnormal, smallestNormal,
		math.Nextafter(1, 2), math.Nextafter(1, 0), 1<<53)
	return s
}

func buildE2EFloats(thorough bool) floatSet {
	s := floatSet{}
	s.addPM(0, math.SmallestNonzeroFloat64, largestSubnormal, smallestNormal, 1, math.Nextafter(1, 2), math.Nextafter(1, 0), 0.5, 2, 0.1, 3, 10, 16,
		255, 256, 1e10, 1<<53, 1<<53-1, 1e100, 1e-100, math.MaxFloat64, math.Nextafter(math.MaxFloat64, 0), math.Pi, 1<<63, 65536, 4096.5)
	if thorough {
		s.addNear(humanFloats()...)
		for k := -1074; k <= 1023; k += 64 {
			s.addPM(math.Ldexp(1, k))
		}
	}
	return s
}

type valueSets struct {
	I, IE, I2 []int64
	F, FE, F2 []float64
}

var setCache = map[string]*valueSets{}

func sets(param string) *valueSets {
	if vs, ok := setCache[param]; ok {
		return vs
	}
	th := param == "thorough"
	pi := buildProbeInts()
	ie := buildEndInts(th)
	i2 := buildE2EInts(th)
	for v := range ie {
		pi.add(v)
	}
	for v := range i2 {
		pi.add(v)
	}
	pf := buildProbeFloats(pi)
	fe := buildEndFloats(ie)
	f2 := buildE2EFloats(th)
	for b := range fe {
		pf[b] = true
	}
	for b := range f2 {
		pf[b] = true
	}
	vs := &valueSets{I: pi.sorted(), IE: ie.sorted(), I2: i2.sorted(), F: pf.sorted(), FE: fe.sorted(), F2: f2.sorted()}
	setCache[param] = vs
	return vs
}

func fstr(f float64) string { return fmt.Sprintf("%g[%016x]", f, math.Float64bits(f)) }

// ---------------------------------------------------------------- 1: round trip

func truncated(v int64, shift uint) int64 { return v &^ (int64(1)<<shift - 1) }

func rtTotal(param string) int64 { vs := sets(param); return int64(len(vs.I) + len(vs.F)) }

func rtEval(idx int64, param string) *explore.Result {
	vs := sets(param)
	res := &explore.Result{}
	fail := func(key, f string, a ...interface{}) *explore.Result {
		if res.Failure == "" {
			res.Key = key
			res.Failure = fmt.Sprintf(f, a...)
		}
		return res
	}
	if idx >= int64(len(vs.I)) {
		// float64 <-> int64 <-> bytes
		f := vs.F[idx-int64(len(vs.I))]
		res.Evals, res.Nontrivial = 4, 1
		res.Outcome = "f" + fstr(f)
		i := numeric.Float64ToInt64(f)
		back := numeric.Int64ToFloat64(i)
		if math.Float64bits(back) != math.Float64bits(f) {
			return fail("roundtrip:float:"+fstr(f), "Int64ToFloat64(Float64ToInt64(%s)) = %s", fstr(f), fstr(back))
		}
		fld := bluge.NewNumericField("n", f)
		got, err := bluge.DecodeNumericFloat64(fld.Value())
		if err != nil || math.Float64bits(got) != math.Float64bits(f) {
			return fail("roundtrip:numeric-field:"+fstr(f), "DecodeNumericFloat64(NewNumericField(%s).Value()) = %s, %v", fstr(f), fstr(got), err)
		}
		// the sign of the sortable integer is the sign of the number, -0 maps just below +0
		if (i < 0) != math.Signbit(f) {
			return fail("roundtrip:float-sign:"+fstr(f), "Float64ToInt64(%s) = %d has the wrong sign", fstr(f), i)
		}
		return res
	}
	v := vs.I[idx]
	res.Outcome = fmt.Sprint("i", v)
	for shift := uint(0); shift <= 63; shift++ {
		res.Evals++
		enc, err := numeric.NewPrefixCodedInt64(v, shift)
		if err != nil {
			return fail(fmt.Sprintf("roundtrip:int:v=%d:shift=%d:encode", v, shift), "NewPrefixCodedInt64(%d, %d) failed: %v", v, shift, err)
		}
		wantLen := int((63-shift)/7) + 2
		if len(enc) != wantLen || enc[0] != numeric.ShiftStartInt64+byte(shift) {
			return fail(fmt.Sprintf("roundtrip:int:v=%d:shift=%d:shape", v, shift), "encoding of %d at shift %d is %x: expected %d bytes starting with %#x", v, shift, []byte(enc), wantLen, numeric.ShiftStartInt64+byte(shift))
		}
		if ok, s := numeric.ValidPrefixCodedTermBytes(enc); !ok || s != int(shift) {
			return fail(fmt.Sprintf("roundtrip:int:v=%d:shift=%d:valid", v, shift), "ValidPrefixCodedTermBytes(%x) = %v, %d for the encoding of %d at shift %d", []byte(enc), ok, s, v, shift)
		}
		buf := make([]byte, 32)
		enc2, rest, err := numeric.NewPrefixCodedInt64Prealloc(v, shift, buf)
		if err != nil || !bytes.Equal(enc, enc2) || len(rest) != len(buf)-len(enc) {
			return fail(fmt.Sprintf("roundtrip:int:v=%d:shift=%d:prealloc", v, shift), "the preallocated encoding of %d at shift %d differs: %x vs %x (rest %d, err %v)", v, shift, []byte(enc2), []byte(enc), len(rest), err)
		}
		want := truncated(v, shift)
		gs, err := enc.Shift()
		if err != nil {
			if shift == 63 {
				fail("roundtrip:shift=63:decode-rejected", "PrefixCoded.Shift() rejects the encoding %x that NewPrefixCodedInt64(%d, 63) produced (and ValidPrefixCodedTermBytes accepts): %v; expected shift 63 and value %d", []byte(enc), v, err, want)
				continue
			}
			return fail(fmt.Sprintf("roundtrip:int:v=%d:shift=%d:shift-rejected", v, shift), "Shift() of the encoding of %d at shift %d: %v", v, shift, err)
		}
		if gs != shift {
			return fail(fmt.Sprintf("roundtrip:int:v=%d:shift=%d:shift-value", v, shift), "Shift() of the encoding of %d at shift %d = %d", v, shift, gs)
		}
		got, err := enc.Int64()
		if err != nil || got != want {
			return fail(fmt.Sprintf("roundtrip:int:v=%d:shift=%d:value", v, shift), "decoding the encoding of %d at shift %d gives %d, %v; expected %d", v, shift, got, err, want)
		}
		if got != v {
			res.Nontrivial++ // precision actually dropped
		}
	}
	res.Nontrivial++ // shift 0
	if _, err := numeric.NewPrefixCodedInt64(v, 64); err == nil {
		return fail(fmt.Sprintf("roundtrip:int:v=%d:shift=64:accepted", v), "NewPrefixCodedInt64(%d, 64) did not fail", v)
	}
	// date fields carry the value as UnixNano
	t := time.Unix(0, v)
	fld := bluge.NewDateTimeField("d", t)
	back, err := bluge.DecodeDateTime(fld.Value())
	res.Evals++
	if err != nil || !back.Equal(t) || back.UnixNano() != v {
		return fail(fmt.Sprintf("roundtrip:date:v=%d", v), "DecodeDateTime(NewDateTimeField(%v).Value()) = %v, %v", t.UTC(), back, err)
	}
	if idx%400 == 0 {
		e0, _ := numeric.NewPrefixCodedInt64(v, 0)
		e8, _ := numeric.NewPrefixCodedInt64(v, 8)
		res.Sample = map[string]interface{}{"roundtrip_value": v, "shift0": fmt.Sprintf("%x", []byte(e0)), "shift8": fmt.Sprintf("%x", []byte(e8)), "shift8_decodes_to": truncated(v, 8)}
	}
	return res
}

// ---------------------------------------------------------------- 2: order embedding

type encTable struct {
	ints   [][]numeric.PrefixCoded // [value][shift]
	floats []numeric.PrefixCoded   // shift 0 of Float64ToInt64
	fints  []int64
}

var encCache = map[string]*encTable{}

func encs(param string) *encTable {
	if t, ok := encCache[param]; ok {
		return t
	}
	vs := sets(param)
	t := &encTable{}
	for _, v := range vs.I {
		row := make([]numeric.PrefixCoded, 64)
		for s := uint(0); s < 64; s++ {
			row[s] = numeric.MustNewPrefixCodedInt64(v, s)
		}
		t.ints = append(t.ints, row)
	}
	for _, f := range vs.F {
		i := numeric.Float64ToInt64(f)
		t.fints = append(t.fints, i)
		t.floats = append(t.floats, numeric.MustNewPrefixCodedInt64(i, 0))
	}
	encCache[param] = t
	return t
}

func sign(x int) int {
	switch {
	case x < 0:
		return -1
	case x > 0:
		return 1
	}
	return 0
}

func cmpInt(a, b int64) int {
	switch {
	case a < b:
		return -1
	case a > b:
		return 1
	}
	return 0
}

func ordTotal(param string) int64 { vs := sets(param); return int64(len(vs.I) + len(vs.F)) }

func ordEval(idx int64, param string) *explore.Result {
	vs := sets(param)
	t := encs(param)
	res := &explore.Result{}
	if idx >= int64(len(vs.I)) {
		ai := int(idx) - len(vs.I)
		a := vs.F[ai]
		res.Outcome = "f" + fstr(a)
		for bi, b := range vs.F {
			res.Evals++
			want := 0
			if totalLess(a, b) {
				want = -1
			} else if totalLess(b, a) {
				want = 1
			}
			if want != 0 {
				res.Nontrivial++
			}
			if got := cmpInt(t.fints[ai], t.fints[bi]); got != want {
				res.Key = fmt.Sprintf("order:float-int:a=%s:b=%s", fstr(a), fstr(b))
				res.Failure = fmt.Sprintf("Float64ToInt64 does not embed the order: %s vs %s compare %d, their images %d vs %d compare %d", fstr(a), fstr(b), want, t.fints[ai], t.fints[bi], got)
				return res
			}
			if got := sign(bytes.Compare(t.floats[ai], t.floats[bi])); got != want {
				res.Key = fmt.Sprintf("order:float:a=%s:b=%s", fstr(a), fstr(b))
				res.Failure = fmt.Sprintf("%s vs %s compare %d but their encodings %x vs %x compare %d", fstr(a), fstr(b), want, []byte(t.floats[ai]), []byte(t.floats[bi]), got)
				return res
			}
		}
		// -0 immediately below +0: adjacent images
		if a == 0 && !math.Signbit(a) {
			nz := numeric.Float64ToInt64(math.Copysign(0, -1))
			pz := numeric.Float64ToInt64(0)
			res.Evals++
			if pz-nz != 1 {
				res.Key = "order:float:zeros-not-adjacent"
				res.Failure = fmt.Sprintf("-0 maps to %d and +0 to %d: not adjacent", nz, pz)
				return res
			}
		}
		return res
	}
	ai := int(idx)
	a := vs.I[ai]
	res.Outcome = fmt.Sprint("i", a)
	for bi, b := range vs.I {
		for s := uint(0); s < 64; s++ {
			res.Evals++
			want := cmpInt(a>>s, b>>s) // the truncated values
			if want != 0 {
				res.Nontrivial++
			}
			got := sign(bytes.Compare(t.ints[ai][s], t.ints[bi][s]))
			if got != want {
				res.Key = fmt.Sprintf("order:int:a=%d:b=%d:shift=%d", a, b, s)
				res.Failure = fmt.Sprintf("at shift %d the values %d and %d truncate to %d and %d (compare %d) but their encodings %x and %x compare %d", s, a, b, a>>s, b>>s, want, []byte(t.ints[ai][s]), []byte(t.ints[bi][s]), got)
				return res
			}
		}
	}
	if idx%500 == 0 {
		res.Sample = map[string]interface{}{"order_row": a, "compared_with_values": len(vs.I), "shifts": 64}
	}
	return res
}

// ---------------------------------------------------------------- tokens as indexed

func fieldTokens(f *bluge.TermField) []string {
	f.Analyze(0)
	var out []string
	f.EachTerm(func(ft segment.FieldTerm) { out = append(out, string(ft.Term())) })
	sort.Strings(out)
	return out
}

func intTokens(v int64) []string {
	t := time.Unix(0, v)
	if t.UnixNano() != v {
		panic("time.Unix(0, v).UnixNano() != v")
	}
	return fieldTokens(bluge.NewDateTimeField("d", t))
}

func floatTokens(f float64) []string { return fieldTokens(bluge.NewNumericField("n", f)) }

// probeIndex: dictionary (union of all probes' tokens) and term -> probes
type probeIndex struct {
	n      int
	tokens [][]string
	byTerm map[string][]int32
}

func newProbeIndex(n int, tok func(i int) []string) *probeIndex {
	p := &probeIndex{n: n, byTerm: map[string][]int32{}}
	for i := 0; i < n; i++ {
		ts := tok(i)
		p.tokens = append(p.tokens, ts)
		for _, t := range ts {
			p.byTerm[t] = append(p.byTerm[t], int32(i))
		}
	}
	return p
}

func (p *probeIndex) contains(term []byte) bool { _, ok := p.byTerm[string(term)]; return ok }

// matched marks every probe that carries one of the terms
func (p *probeIndex) matched(terms [][]byte, into []bool) []bool {
	if cap(into) < p.n {
		into = make([]bool, p.n)
	}
	into = into[:p.n]
	for i := range into {
		into[i] = false
	}
	for _, t := range terms {
		for _, i := range p.byTerm[string(t)] {
			into[i] = true
		}
	}
	return into
}

// ---------------------------------------------------------------- stub search.Reader

// probeCap bounds the number of dictionary probes one range query may spend on
// enumerating its prefix terms.  An exact decomposition has at most 2*15 terms
// on each of 16 precision levels; enumerating them by byte-wise increment costs
// 128 extra probes when a range crosses one 7-bit term byte, 32 896 when it
// crosses two, 8.4 million for three, 2.1 billion for four, ...  The cap
// separates "at most two" from "three or more".
const probeCap = 1 << 17

type blowup struct{}

var errBlowup = fmt.Errorf("more than %d candidate terms probed in the dictionary", probeCap)

type stubReader struct {
	field string
	idx   *probeIndex
	asked [][]byte
	bad   string
	calls int
}

type stubDict struct{ r *stubReader }

func (d stubDict) Contains(key []byte) (bool, error) {
	d.r.calls++
	if d.r.calls > probeCap {
		panic(blowup{})
	}
	return d.r.idx.contains(key), nil
}
func (d stubDict) Close() error { return nil }

type emptyPostings struct{}

func (emptyPostings) Next() (segment.Posting, error)          { return nil, nil }
func (emptyPostings) Advance(uint64) (segment.Posting, error) { return nil, nil }
func (emptyPostings) Size() int                               { return 0 }
func (emptyPostings) Empty() bool                             { return true }
func (emptyPostings) Count() uint64                           { return 0 }
func (emptyPostings) Close() error                            { return nil }

type stubStats struct{}

func (stubStats) TotalDocumentCount() uint64    { return 0 }
func (stubStats) DocumentCount() uint64         { return 0 }
func (stubStats) SumTotalTermFrequency() uint64 { return 0 }
func (stubStats) Merge(segment.CollectionStats) {}

type stubDV struct{}

func (stubDV) VisitDocumentValues(uint64, segment.DocumentValueVisitor) error { return nil }

func (r *stubReader) DocumentValueReader([]string) (segment.DocumentValueReader, error) {
	return stubDV{}, nil
}
func (r *stubReader) VisitStoredFields(uint64, segment.StoredFieldVisitor) error { return nil }
func (r *stubReader) CollectionStats(string) (segment.CollectionStats, error) {
	return stubStats{}, nil
}
func (r *stubReader) DictionaryLookup(field string) (segment.DictionaryLookup, error) {
	if field != r.field {
		r.bad = "dictionary of field " + field
	}
	return stubDict{r}, nil
}
func (r *stubReader) DictionaryIterator(string, segment.Automaton, []byte, []byte) (segment.DictionaryIterator, error) {
	return nil, fmt.Errorf("stub: no dictionary iterator")
}
func (r *stubReader) PostingsIterator(term []byte, field string, _, _, _ bool) (segment.PostingsIterator, error) {
	if field != r.field {
		r.bad = "postings of field " + field
	}
	r.asked = append(r.asked, append([]byte(nil), term...))
	return emptyPostings{}, nil
}
func (r *stubReader) Close() error { return nil }

// ---------------------------------------------------------------- 3: ranges over all boundary pairs

type rangeCtx struct {
	fIdx, iIdx *probeIndex
	fEnds      []float64 // -Inf, FE..., +Inf
	iEnds      []int64   // IE; index -1 = unbounded
	fr, ir     *stubReader
	buf        []bool
}

var rangeCache = map[string]*rangeCtx{}

func rangeSetup(param string) *rangeCtx {
	if c, ok := rangeCache[param]; ok {
		return c
	}
	vs := sets(param)
	c := &rangeCtx{}
	c.fIdx = newProbeIndex(len(vs.F), func(i int) []string { return floatTokens(vs.F[i]) })
	c.iIdx = newProbeIndex(len(vs.I), func(i int) []string { return intTokens(vs.I[i]) })
	c.fEnds = append([]float64{math.Inf(-1)}, vs.FE...)
	c.fEnds = append(c.fEnds, math.Inf(1))
	c.iEnds = vs.IE
	c.fr = &stubReader{field: "n", idx: c.fIdx}
	c.ir = &stubReader{field: "d", idx: c.iIdx}
	rangeCache[param] = c
	return c
}

// a float interval
type fInterval struct {
	min, max   float64
	imin, imax bool
}

func (iv fInterval) String() string {
	return fmt.Sprintf("min=%s(%s),max=%s(%s)", fstr(iv.min), incl(iv.imin), fstr(iv.max), incl(iv.imax))
}
func (iv fInterval) holds(v float64) bool {
	lower := totalLess(iv.min, v) || (iv.imin && !totalLess(v, iv.min))
	upper := totalLess(v, iv.max) || (iv.imax && !totalLess(iv.max, v))
	return lower && upper
}

// an int64 (date) interval; an unbounded end has has*=false
type iInterval struct {
	min, max       int64
	hasMin, hasMax bool
	imin, imax     bool
}

func (iv iInterval) String() string {
	a, b := "unbounded", "unbounded"
	if iv.hasMin {
		a = fmt.Sprint(iv.min)
	}
	if iv.hasMax {
		b = fmt.Sprint(iv.max)
	}
	return fmt.Sprintf("start=%s(%s),end=%s(%s)", a, incl(iv.imin), b, incl(iv.imax))
}
func (iv iInterval) holds(v int64) bool {
	lower := !iv.hasMin || v > iv.min || (iv.imin && v == iv.min)
	upper := !iv.hasMax || v < iv.max || (iv.imax && v == iv.max)
	return lower && upper
}

func incl(b bool) string {
	if b {
		return "incl"
	}
	return "excl"
}

// first probe (in value order) whose membership differs from the oracle
func firstWrong(n int, got []bool, want func(i int) bool) (int, bool, int) {
	nm := 0
	first, dir := -1, false
	for i := 0; i < n; i++ {
		w := want(i)
		if w {
			nm++
		}
		if got[i] != w && first < 0 {
			first, dir = i, got[i]
		}
	}
	return first, dir, nm
}

func wrongText(dir bool) string {
	if dir {
		return "unexpected-match"
	}
	return "missed"
}

// run the real NumericRangeQuery searcher construction over the stub
func (c *rangeCtx) numericTerms(iv fInterval) ([][]byte, error) {
	return numericTermsOn(c.fr, iv)
}

func catchBlowup(err *error) {
	if p := recover(); p != nil {
		if _, ok := p.(blowup); ok {
			*err = errBlowup
			return
		}
		panic(p)
	}
}

func numericTermsOn(r *stubReader, iv fInterval) (terms [][]byte, err error) {
	defer catchBlowup(&err)
	r.asked, r.bad, r.calls = r.asked[:0], "", 0
	q := bluge.NewNumericRangeInclusiveQuery(iv.min, iv.max, iv.imin, iv.imax).SetField(r.field)
	s, err := q.Searcher(r, search.SearcherOptions{})
	if err != nil {
		return nil, err
	}
	_ = s.Close()
	if r.bad != "" {
		return nil, fmt.Errorf("the searcher asked for the %s", r.bad)
	}
	return r.asked, nil
}

func (c *rangeCtx) dateTerms(iv iInterval) ([][]byte, error) {
	return dateTermsOn(c.ir, iv)
}

func dateTermsOn(r *stubReader, iv iInterval) (terms [][]byte, err error) {
	defer catchBlowup(&err)
	c := struct{ ir *stubReader }{r}
	c.ir.asked, c.ir.bad, c.ir.calls = c.ir.asked[:0], "", 0
	var start, end time.Time
	if iv.hasMin {
		start = time.Unix(0, iv.min)
	}
	if iv.hasMax {
		end = time.Unix(0, iv.max)
	}
	q := bluge.NewDateRangeInclusiveQuery(start, end, iv.imin, iv.imax).SetField(r.field)
	s, err := q.Searcher(c.ir, search.SearcherOptions{})
	if err != nil {
		return nil, err
	}
	_ = s.Close()
	if c.ir.bad != "" {
		return nil, fmt.Errorf("the searcher asked for the %s", c.ir.bad)
	}
	return c.ir.asked, nil
}

// splitCost is the number of candidate terms termRanges.Enumerate walks through
// for the closed interval [lo, hi]: computed from the start / end terms of the
// ranges the implementation produced (each term read as a base-256 number).
func splitCost(lo, hi int64) float64 {
	starts, ends := searcher.VerifSplitInt64RangeBounds(lo, hi, 4)
	total := 0.0
	for i := range starts {
		a, b := starts[i], ends[i]
		if len(a) != len(b) {
			return math.Inf(1)
		}
		d := 0.0
		for k := range a {
			d = d*256 + float64(int(b[k])-int(a[k]))
		}
		if d >= 0 {
			total += d + 1
		}
	}
	return total
}

// judgeFloat returns "" or (key, failure) for one numeric interval evaluated by eval
func judgeFloat(iv fInterval, probes []float64, eval func(fInterval) ([]bool, error)) (key, failure string, nmatch int) {
	check := func(iv fInterval) (int, bool, int, error) {
		got, err := eval(iv)
		if err != nil {
			return -1, false, 0, err
		}
		f, d, n := firstWrong(len(probes), got, func(i int) bool { return iv.holds(probes[i]) })
		return f, d, n, nil
	}
	f, d, n, err := check(iv)
	if err == errBlowup {
		return skipKey, "", 0 // the caller reports the blow-up
	}
	if err != nil {
		return "numeric-range:" + iv.String() + ":error", fmt.Sprintf("numeric range %s: %v", iv, err), 0
	}
	if f < 0 {
		return "", "", n
	}
	// shrink the failing input: unbounded / closed ends where the same failure (same first wrong probe) persists
	alts := []func(fInterval) fInterval{
		func(x fInterval) fInterval { x.max = math.Inf(1); return x },
		func(x fInterval) fInterval { x.min = math.Inf(-1); return x },
		func(x fInterval) fInterval { x.imax = true; return x },
		func(x fInterval) fInterval { x.imin = true; return x },
	}
	for changed := true; changed; {
		changed = false
		for _, alt := range alts {
			c := alt(iv)
			if c == iv {
				continue
			}
			if f2, d2, _, err := check(c); err == nil && f2 == f && d2 == d {
				iv, changed = c, true
			}
		}
	}
	return fmt.Sprintf("numeric-range:%s:probe=%s:%s", iv, fstr(probes[f]), wrongText(d)),
		fmt.Sprintf("numeric range %s: the indexed value %s is %s (it %s the interval)", iv, fstr(probes[f]), wrongText(d), liesText(iv.holds(probes[f]))), n
}

// skipKey marks an interval whose term enumeration exceeds probeCap: it cannot
// be evaluated for exactness; the caller reports it as a violation of its own.
const skipKey = "\x00skipped"

func liesText(in bool) string {
	if in {
		return "lies in"
	}
	return "lies outside"
}

func judgeInt(kind string, iv iInterval, probes []int64, eval func(iInterval) ([]bool, error)) (key, failure string, nmatch int) {
	check := func(iv iInterval) (int, bool, int, error) {
		got, err := eval(iv)
		if err != nil {
			return -1, false, 0, err
		}
		f, d, n := firstWrong(len(probes), got, func(i int) bool { return iv.holds(probes[i]) })
		return f, d, n, nil
	}
	f, d, n, err := check(iv)
	if err == errBlowup {
		return skipKey, "", 0 // the caller reports the blow-up
	}
	if err != nil {
		return kind + ":" + iv.String() + ":error", fmt.Sprintf("%s %s: %v", kind, iv, err), 0
	}
	if f < 0 {
		return "", "", n
	}
	alts := []func(iInterval) iInterval{
		func(x iInterval) iInterval { x.hasMax, x.max = false, 0; return x },
		func(x iInterval) iInterval { x.hasMin, x.min = false, 0; return x },
		func(x iInterval) iInterval { x.imax = true; return x },
		func(x iInterval) iInterval { x.imin = true; return x },
	}
	for changed := true; changed; {
		changed = false
		for _, alt := range alts {
			c := alt(iv)
			if c == iv {
				continue
			}
			if f2, d2, _, err := check(c); err == nil && f2 == f && d2 == d {
				iv, changed = c, true
			}
		}
	}
	return fmt.Sprintf("%s:%s:probe=%d:%s", kind, iv, probes[f], wrongText(d)),
		fmt.Sprintf("%s %s: the indexed value %d is %s (it %s the interval)", kind, iv, probes[f], wrongText(d), liesText(iv.holds(probes[f]))), n
}

var flagCombos = [4][2]bool{{true, true}, {true, false}, {false, true}, {false, false}}

func rangeTotal(param string) int64 {
	c := rangeSetup(param)
	nf, ni := int64(len(c.fEnds)), int64(len(c.iEnds))
	return 4*nf*nf + 4*(ni+1)*(ni+1) + ni*ni
}

func rangeEval(idx int64, param string) *explore.Result {
	c := rangeSetup(param)
	vs := sets(param)
	res := &explore.Result{Counts: map[string]int64{}}
	var pend pending
	defer pend.settle(res)
	nf, ni := int64(len(c.fEnds)), int64(len(c.iEnds))
	note := func(nm, n int) {
		res.Evals += int64(n)
		if nm > 0 && nm < n {
			res.Nontrivial++
		}
	}
	switch {
	case idx < 4*nf*nf:
		a, b := c.fEnds[idx/4/nf], c.fEnds[idx/4%nf]
		res.Outcome = "n"
		for _, fl := range flagCombos[idx%4 : idx%4+1] {
			iv := fInterval{a, b, fl[0], fl[1]}
			nterms := 0
			key, failure, nm := judgeFloat(iv, vs.F, func(iv fInterval) ([]bool, error) {
				terms, err := c.numericTerms(iv)
				nterms = len(terms)
				c.buf = c.fIdx.matched(terms, c.buf)
				return c.buf, err
			})
			if key == skipKey {
				pend.blow(res, "numeric-range:enumeration-blowup", "NumericRangeQuery %s probes more than %d candidate terms in the field dictionary (it does not return in reasonable time, or ever): %s", iv, probeCap, blowupWhy)
				res.Outcome += " skip"
				continue
			}
			note(nm, len(vs.F))
			res.Counts["numeric_queries"]++
			res.Outcome += fmt.Sprintf(" %d/%d", nm, nterms)
			if failure != "" {
				res.Key, res.Failure = key, failure
				return res
			}
		}
		if idx%4099 == 0 {
			res.Sample = map[string]interface{}{"numeric_range_query": fInterval{a, b, flagCombos[idx%4][0], flagCombos[idx%4][1]}.String(), "probes": len(vs.F), "matched/terms": res.Outcome}
		}
	case idx < 4*nf*nf+4*(ni+1)*(ni+1):
		k := idx - 4*nf*nf
		fi := k % 4
		k /= 4
		ai, bi := k/(ni+1)-1, k%(ni+1)-1
		res.Outcome = "d"
		for _, fl := range flagCombos[fi : fi+1] {
			iv := iInterval{imin: fl[0], imax: fl[1]}
			if ai >= 0 {
				iv.hasMin, iv.min = true, c.iEnds[ai]
			}
			if bi >= 0 {
				iv.hasMax, iv.max = true, c.iEnds[bi]
			}
			nterms := 0
			key, failure, nm := judgeInt("date-range", iv, vs.I, func(iv iInterval) ([]bool, error) {
				terms, err := c.dateTerms(iv)
				nterms = len(terms)
				c.buf = c.iIdx.matched(terms, c.buf)
				return c.buf, err
			})
			if key == skipKey {
				pend.blow(res, "date-range:enumeration-blowup", "DateRangeQuery %s (UnixNano) probes more than %d candidate terms in the field dictionary (it does not return in reasonable time, or ever): %s", iv, probeCap, blowupWhy)
				res.Outcome += " skip"
				continue
			}
			note(nm, len(vs.I))
			res.Counts["date_queries"]++
			res.Outcome += fmt.Sprintf(" %d/%d", nm, nterms)
			if failure != "" {
				res.Key, res.Failure = key, failure
				return res
			}
		}
		if k%4099 == 0 {
			res.Sample = map[string]interface{}{"date_range_query": fmt.Sprintf("start index %d, end index %d of V' (-1 = unbounded)", ai, bi), "probes": len(vs.I), "matched/terms": res.Outcome}
		}
	default:
		k := idx - 4*nf*nf - 4*(ni+1)*(ni+1)
		lo, hi := c.iEnds[k/ni], c.iEnds[k%ni]
		// the decomposition itself for the closed interval [lo, hi], dictionary = all probes' tokens
		if cost := splitCost(lo, hi); cost > probeCap {
			pend.blow(res, "split:enumeration-blowup", "splitInt64Range(%d, %d, 4).Enumerate walks through %.4g candidate terms (more than %d): %s", lo, hi, cost, probeCap, blowupWhy)
			res.Outcome = "s skip"
			return res
		}
		terms := searcher.VerifSplitInt64Range(lo, hi, 4, c.iIdx.contains)
		c.buf = c.iIdx.matched(terms, c.buf)
		f, d, nm := firstWrong(len(vs.I), c.buf, func(i int) bool { return vs.I[i] >= lo && vs.I[i] <= hi })
		note(nm, len(vs.I))
		res.Counts["split_intervals"]++
		res.Outcome = fmt.Sprintf("s %d/%d", nm, len(terms))
		if f >= 0 {
			res.Key = fmt.Sprintf("split:[%d,%d]:probe=%d:%s", lo, hi, vs.I[f], wrongText(d))
			res.Failure = fmt.Sprintf("splitInt64Range(%d, %d, 4) with the probes' dictionary: the indexed value %d is %s", lo, hi, vs.I[f], wrongText(d))
			return res
		}
		// dictionary = one probe's own shift tokens, for the probes around both ends
		near := map[int]bool{}
		for _, q := range []int{sort.Search(len(vs.I), func(i int) bool { return vs.I[i] >= lo }), sort.Search(len(vs.I), func(i int) bool { return vs.I[i] > hi })} {
			if q >= 0 && q < len(vs.I) {
				near[q] = true
			}
		}
		qs := make([]int, 0, len(near))
		for q := range near {
			qs = append(qs, q)
		}
		sort.Ints(qs)
		for _, q := range qs {
			own := map[string]bool{}
			for _, t := range c.iIdx.tokens[q] {
				own[t] = true
			}
			got := len(searcher.VerifSplitInt64Range(lo, hi, 4, func(t []byte) bool { return own[string(t)] })) > 0
			want := vs.I[q] >= lo && vs.I[q] <= hi
			res.Evals++
			res.Counts["own_dictionary_probes"]++
			if got != want {
				res.Key = fmt.Sprintf("split-own:[%d,%d]:probe=%d:%s", lo, hi, vs.I[q], wrongText(got))
				res.Failure = fmt.Sprintf("splitInt64Range(%d, %d, 4) enumerated over the shift tokens of the single value %d: %s", lo, hi, vs.I[q], wrongText(got))
				return res
			}
		}
	}
	return res
}

// stubs with an empty dictionary (the number of candidate terms probed does not
// depend on what is indexed): pre-flight of the queries sent to the real index
var costStubN = &stubReader{field: "n", idx: newProbeIndex(0, nil)}
var costStubD = &stubReader{field: "d", idx: newProbeIndex(0, nil)}

const blowupWhy = "the prefix terms of each sub-range are enumerated by incrementing the term bytes as 8-bit digits although they carry 7 bits each, so a sub-range that straddles a value whose low 7-bit groups are all ones walks through 128*256^(k-1) candidates for k such groups (k=3: 8.4 million, k=4: 2.1 billion, ...)"

// pending records an enumeration blow-up of one interval of a case; it becomes
// the case's failure only if no exactness failure is found in the same case, so
// that the (class-keyed) blow-up never hides a differently keyed violation.
type pending struct{ key, failure string }

func (p *pending) blow(res *explore.Result, key, f string, a ...interface{}) {
	res.Counts["skipped_enumeration_blowup"]++
	if p.key == "" {
		p.key, p.failure = key, fmt.Sprintf(f, a...)
	}
}

func (p *pending) settle(res *explore.Result) *explore.Result {
	if res.Failure == "" && p.key != "" {
		res.Key, res.Failure = p.key, p.failure
	}
	return res
}

// ---------------------------------------------------------------- 4: exhaustive windows

type window struct {
	centre int64
	stride uint // lattice spacing 2^stride
}

func (w window) String() string { return fmt.Sprintf("centre=%d,stride=2^%d", w.centre, w.stride) }

func windows(param string) []window {
	ws := []window{
		{0, 0}, {math.MinInt64 + 128, 0}, {math.MaxInt64 - 127, 0}, {128, 0}, {1 << 14, 0}, {1 << 28, 0}, {-(1 << 28), 0}, {1 << 60, 0},
		{0, 4}, {0, 56}, {1 << 35, 28}, {-(1 << 49), 42},
		{0x1230, 0}, {0x0123456789ABCD00, 0}, {-(1 << 7), 0}, {-(1 << 14), 0}, {0x7F00, 0}, {0, 52}, {0, 7}, {1 << 56, 49}, {-(1 << 62), 55}, {0x0123456789ABCD00, 8},
	}
	if param == "thorough" {
		ws = append(ws, window{1 << 32, 0}, window{-(1 << 60), 0}, window{1 << 62, 0}, window{posInfImage, 0}, window{negInfImage, 0}, window{1 << 21, 0},
			window{1 << 56, 0}, window{0, 8}, window{1 << 28, 21}, window{0, 12}, window{0, 28}, window{1 << 60, 53}, window{0x0FEDCBA987654300, 0},
			window{0x5555555555555500, 0}, window{-0x0123456789ABCD00, 0}, window{0x0123456789AB0000, 16}, window{0, 44}, window{0, 48}, window{0, 16}, window{0, 20})
	}
	return ws
}

type winCtx struct {
	lattice []int64 // 256 ascending points
	probes  []int64
	idx     *probeIndex
	buf     []bool
}

var winCache = map[window]*winCtx{}

func winSetup(w window) *winCtx {
	if c, ok := winCache[w]; ok {
		return c
	}
	c := &winCtx{}
	step := int64(1) << w.stride
	ps := intSet{}
	for i := int64(-128); i < 128; i++ {
		v := w.centre + i*step // by construction never overflows for the windows listed
		c.lattice = append(c.lattice, v)
		ps.add(v)
		if w.stride > 0 {
			if v > math.MinInt64 {
				ps.add(v - 1)
			}
			ps.add(v + step - 1)
			if v < math.MaxInt64 {
				ps.add(v + 1)
			}
		}
	}
	c.probes = ps.sorted()
	c.idx = newProbeIndex(len(c.probes), func(i int) []string { return intTokens(c.probes[i]) })
	winCache[w] = c
	return c
}

func winTotal(param string) int64 { return int64(len(windows(param))) * 256 }

func winEval(idx int64, param string) *explore.Result {
	ws := windows(param)
	w := ws[idx/256]
	c := winSetup(w)
	li := int(idx % 256)
	lo := c.lattice[li]
	res := &explore.Result{Counts: map[string]int64{}}
	var pend pending
	defer pend.settle(res)
	step := int64(1) << w.stride
	var nterms int64
	for hj := li; hj < 256; hj++ {
		his := []int64{c.lattice[hj]}
		if w.stride > 0 {
			his = append(his, c.lattice[hj]+step-1)
		}
		for _, hi := range his {
			if cost := splitCost(lo, hi); cost > probeCap {
				pend.blow(res, "split:enumeration-blowup", "splitInt64Range(%d, %d, 4).Enumerate walks through %.4g candidate terms (more than %d): %s", lo, hi, cost, probeCap, blowupWhy)
				continue
			}
			terms := searcher.VerifSplitInt64Range(lo, hi, 4, c.idx.contains)
			nterms += int64(len(terms))
			c.buf = c.idx.matched(terms, c.buf)
			f, d, nm := firstWrong(len(c.probes), c.buf, func(i int) bool { return c.probes[i] >= lo && c.probes[i] <= hi })
			res.Evals += int64(len(c.probes))
			res.Counts["window_intervals"]++
			if nm > 0 && nm < len(c.probes) {
				res.Nontrivial++
			}
			if f >= 0 {
				res.Key = fmt.Sprintf("split:[%d,%d]:probe=%d:%s", lo, hi, c.probes[f], wrongText(d))
				res.Failure = fmt.Sprintf("window %s: splitInt64Range(%d, %d, 4): the indexed value %d is %s", w, lo, hi, c.probes[f], wrongText(d))
				return res
			}
		}
	}
	res.Outcome = fmt.Sprintf("%s lo=%d terms=%d", w, lo, nterms)
	if idx%977 == 0 {
		res.Sample = map[string]interface{}{"window": w.String(), "lo": lo, "intervals_from_lo": res.Counts["window_intervals"], "probes": len(c.probes), "terms_enumerated": nterms}
	}
	return res
}

// ---------------------------------------------------------------- 5: end to end on a real index

type e2eCtx struct {
	r      *bluge.Reader
	docOf  map[uint64]int // document number -> document index
	ndocs  int
	fVal   []float64 // value of field n in document i (len = documents that have it)
	iVal   []int64
	fEnds  []float64
	iEnds  []int64 // date interval ends: the members of V'' that are also in V'
	failed string
}

var e2eCache = map[string]*e2eCtx{}

func dateEnds2(vs *valueSets) []int64 {
	inEnds := map[int64]bool{}
	for _, v := range vs.IE {
		inEnds[v] = true
	}
	var out []int64
	for _, v := range vs.I2 {
		if inEnds[v] {
			out = append(out, v)
		}
	}
	return out
}

func e2eSetup(param string) *e2eCtx {
	if c, ok := e2eCache[param]; ok {
		return c
	}
	vs := sets(param)
	c := &e2eCtx{fVal: vs.F2, iVal: vs.I2, docOf: map[uint64]int{}}
	c.iEnds = dateEnds2(vs)
	e2eCache[param] = c
	c.fEnds = append([]float64{math.Inf(-1)}, vs.F2...)
	c.fEnds = append(c.fEnds, math.Inf(1))
	c.ndocs = len(c.fVal)
	if len(c.iVal) > c.ndocs {
		c.ndocs = len(c.iVal)
	}
	dir := crashfs.New()
	dir.Points = false
	var werr error
	s := verifmc.Run(verifmc.Options{}, func() {
		cfg := harness.Config(dir, harness.Opts{NoMemMerge: true})
		w, err := bluge.OpenWriter(cfg)
		if err != nil {
			werr = err
			return
		}
		// three segments; the values are dealt round-robin so that every segment holds the whole range
		for seg := 0; seg < 3; seg++ {
			b := bluge.NewBatch()
			for i := seg; i < c.ndocs; i += 3 {
				d := bluge.NewDocument(fmt.Sprintf("d%d", i))
				if i < len(c.fVal) {
					d.AddField(bluge.NewNumericField("n", c.fVal[i]))
				}
				if i < len(c.iVal) {
					d.AddField(bluge.NewDateTimeField("d", time.Unix(0, c.iVal[i])))
				}
				b.Insert(d)
			}
			if err := w.Batch(b); err != nil {
				werr = err
				return
			}
		}
		werr = w.Close()
	})
	if s.Failure != "" {
		c.failed = "building the index: " + s.Failure
		return c
	}
	if werr != nil {
		c.failed = "building the index: " + werr.Error()
		return c
	}
	r, err := bluge.OpenReader(harness.Config(dir, harness.Opts{}))
	if err != nil {
		c.failed = "opening the index: " + err.Error()
		return c
	}
	c.r = r
	it, err := r.Search(context.Background(), bluge.NewAllMatches(bluge.NewMatchAllQuery()))
	if err != nil {
		c.failed = "match all: " + err.Error()
		return c
	}
	for {
		m, err := it.Next()
		if err != nil {
			c.failed = "match all: " + err.Error()
			return c
		}
		if m == nil {
			break
		}
		id := ""
		_ = m.VisitStoredFields(func(field string, value []byte) bool {
			if field == "_id" {
				id = string(value)
			}
			return true
		})
		var i int
		if _, err := fmt.Sscanf(id, "d%d", &i); err != nil {
			c.failed = "unexpected document id " + id
			return c
		}
		c.docOf[m.Number] = i
	}
	if len(c.docOf) != c.ndocs {
		c.failed = fmt.Sprintf("the index holds %d documents, expected %d", len(c.docOf), c.ndocs)
	}
	return c
}

// run a query, return membership per document index
func (c *e2eCtx) run(q bluge.Query, n int) ([]bool, error) {
	it, err := c.r.Search(context.Background(), bluge.NewAllMatches(q))
	if err != nil {
		return nil, err
	}
	got := make([]bool, n)
	for {
		m, err := it.Next()
		if err != nil {
			return nil, err
		}
		if m == nil {
			return got, nil
		}
		i, ok := c.docOf[m.Number]
		if !ok {
			return nil, fmt.Errorf("unknown document number %d", m.Number)
		}
		if i >= n {
			return nil, fmt.Errorf("document d%d does not have the field but matched", i)
		}
		if got[i] {
			return nil, fmt.Errorf("document d%d returned twice", i)
		}
		got[i] = true
	}
}

func (c *e2eCtx) sorted(field string, desc bool) ([]int, error) {
	order := field
	if desc {
		order = "-" + field
	}
	it, err := c.r.Search(context.Background(), bluge.NewTopNSearch(c.ndocs+5, bluge.NewMatchAllQuery()).SortBy([]string{order}))
	if err != nil {
		return nil, err
	}
	var out []int
	for {
		m, err := it.Next()
		if err != nil {
			return nil, err
		}
		if m == nil {
			return out, nil
		}
		out = append(out, c.docOf[m.Number])
	}
}

func e2eTotal(param string) int64 {
	vs := sets(param)
	nf, ni := int64(len(vs.F2)+2), int64(len(dateEnds2(vs))+1)
	return 4*nf*nf + 4*ni*ni + 4
}

func e2eEval(idx int64, param string) *explore.Result {
	c := e2eSetup(param)
	res := &explore.Result{Counts: map[string]int64{}}
	var pend pending
	defer pend.settle(res)
	if c.failed != "" {
		res.Key, res.Failure = "e2e:index-build", c.failed
		return res
	}
	nf, ni := int64(len(c.fEnds)), int64(len(c.iEnds)+1)
	note := func(nm, n int) {
		res.Evals += int64(n)
		if nm > 0 && nm < n {
			res.Nontrivial++
		}
	}
	switch {
	case idx < 4*nf*nf:
		a := c.fEnds[idx/4/nf]
		for _, b := range c.fEnds[idx/4%nf : idx/4%nf+1] {
			for _, fl := range flagCombos[idx%4 : idx%4+1] {
				iv := fInterval{a, b, fl[0], fl[1]}
				key, failure, nm := judgeFloat(iv, c.fVal, func(iv fInterval) ([]bool, error) {
					if _, err := numericTermsOn(costStubN, iv); err != nil {
						return nil, err
					}
					return c.run(bluge.NewNumericRangeInclusiveQuery(iv.min, iv.max, iv.imin, iv.imax).SetField("n"), len(c.fVal))
				})
				if key == skipKey {
					pend.blow(res, "numeric-range:enumeration-blowup", "NumericRangeQuery %s probes more than %d candidate terms in the field dictionary (it does not return in reasonable time, or ever): %s", iv, probeCap, blowupWhy)
					continue
				}
				note(nm, len(c.fVal))
				res.Outcome = fmt.Sprint("n", nm)
				res.Counts["e2e_numeric_queries"]++
				if failure != "" {
					res.Key, res.Failure = key, "on a three-segment index: "+failure
					return res
				}
			}
		}
		if idx%997 == 3 {
			res.Sample = map[string]interface{}{"e2e_numeric_query": fInterval{a, c.fEnds[idx/4%nf], flagCombos[idx%4][0], flagCombos[idx%4][1]}.String(), "documents": c.ndocs, "segments": 3}
		}
	case idx < 4*nf*nf+4*ni*ni:
		k := idx - 4*nf*nf
		ai := int(k/4/ni) - 1
		for bi := int(k/4%ni) - 1; bi < int(k/4%ni); bi++ {
			for _, fl := range flagCombos[k%4 : k%4+1] {
				iv := iInterval{imin: fl[0], imax: fl[1]}
				if ai >= 0 {
					iv.hasMin, iv.min = true, c.iEnds[ai]
				}
				if bi >= 0 {
					iv.hasMax, iv.max = true, c.iEnds[bi]
				}
				key, failure, nm := judgeInt("date-range", iv, c.iVal, func(iv iInterval) ([]bool, error) {
					if _, err := dateTermsOn(costStubD, iv); err != nil {
						return nil, err
					}
					var start, end time.Time
					if iv.hasMin {
						start = time.Unix(0, iv.min)
					}
					if iv.hasMax {
						end = time.Unix(0, iv.max)
					}
					return c.run(bluge.NewDateRangeInclusiveQuery(start, end, iv.imin, iv.imax).SetField("d"), len(c.iVal))
				})
				if key == skipKey {
					pend.blow(res, "date-range:enumeration-blowup", "DateRangeQuery %s (UnixNano) probes more than %d candidate terms in the field dictionary (it does not return in reasonable time, or ever): %s", iv, probeCap, blowupWhy)
					continue
				}
				note(nm, len(c.iVal))
				res.Outcome = fmt.Sprint("d", nm)
				res.Counts["e2e_date_queries"]++
				if failure != "" {
					res.Key, res.Failure = key, "on a three-segment index: "+failure
					return res
				}
			}
		}
	default:
		k := int(idx - 4*nf*nf - 4*ni*ni)
		field, desc := []string{"n", "d"}[k/2], k%2 == 1
		n := len(c.fVal)
		if field == "d" {
			n = len(c.iVal)
		}
		got, err := c.sorted(field, desc)
		res.Evals = int64(n)
		res.Nontrivial = 1
		res.Outcome = fmt.Sprintf("sort %s desc=%v", field, desc)
		res.Counts["e2e_sorts"]++
		if err != nil {
			res.Key, res.Failure = "sort:"+res.Outcome+":error", err.Error()
			return res
		}
		// documents are numbered in value order: the expected order of those having the field is 0..n-1
		var have []int
		for _, d := range got {
			if d < n {
				have = append(have, d)
			}
		}
		if len(have) != n {
			res.Key, res.Failure = "sort:"+res.Outcome+":count", fmt.Sprintf("sorting by %s returned %d of the %d documents having the field", field, len(have), n)
			return res
		}
		for p, d := range have {
			want := p
			if desc {
				want = n - 1 - p
			}
			if d != want {
				res.Key = fmt.Sprintf("sort:%s:position=%d", res.Outcome, p)
				res.Failure = fmt.Sprintf("sorting by %s (desc=%v): position %d holds document d%d, expected d%d (documents are numbered in value order)", field, desc, p, d, want)
				return res
			}
		}
		res.Sample = map[string]interface{}{"e2e_sort": res.Outcome, "documents_in_order": n}
	}
	return res
}

// ---------------------------------------------------------------- main

func main() {
	log.SetOutput(io.Discard)
	explore.RegisterEnum("c10-roundtrip", rtTotal, rtEval)
	explore.RegisterEnum("c10-order", ordTotal, ordEval)
	explore.RegisterEnum("c10-range", rangeTotal, rangeEval)
	explore.RegisterEnum("c10-window", winTotal, winEval)
	explore.RegisterEnum("c10-e2e", e2eTotal, e2eEval)
	explore.WorkerMain()
	c := checkmain.New("C10")
	if v := c.IsReplay(); v != nil {
		c.RunReplay(v)
	}
	param := "quick"
	if c.Thorough() {
		param = "thorough"
	}
	vs := sets(param)
	c.Rule = fmt.Sprintf("boundary sets: V = %d int64 values (0, +-1..3, +-2^k and 2^k+-1 for all k, m*16^j+{-1,0,1} for every 4-bit step, 127*2^7i / 129*2^7i 7-bit byte boundaries, int64 extremes and neighbours, bit patterns, the images of +-Inf, geo hashes) and %d finite float64 values (the floats with those bit patterns and their negatives, +-0, smallest/largest subnormals and normals, powers of two, decimal values and the Nextafter neighbours of each); V' = %d int64 / %d float64 interval ends plus unbounded / +-Inf; V'' = %d / %d values for the real index. "+
		"(1) every value x every shift 0..63; (2) all pairs of V x every shift (non-trivial: the truncated values differ); (3) all (min,max) of V' x 4 open/closed combinations x every probe of V through NumericRangeQuery.Searcher / DateRangeQuery.Searcher over a stub reader whose dictionary is exactly the tokens the fields index, and all closed [lo,hi] of V' through splitInt64Range+Enumerate (dictionary of all probes, and the own dictionary of the probe at lo and of the first probe above hi); (4) every closed interval between the 256 points of each window (stride 1, and stride 2^s lattices with block-end variants) x every probe of the window; (5) all (min,max) of V'' x 4 combinations as real queries on a three-segment index, and sorting by the field both ways. A range case is non-trivial when it matches a non-empty proper subset of the probes; every case is a distinct input",
		len(vs.I), len(vs.F), len(vs.IE), len(vs.FE), len(vs.I2), len(vs.F2))
	c.Explanation = "bounded-exhaustive enumeration; the oracle is Go's own comparison of the int64 / float64 values (total order with -0 immediately below +0) and `lo <= v <= hi`; a probe counts as matched when one of the terms the searcher asks postings for (or Enumerate returns) is one of the probe's indexed tokens (tokens taken from NewNumericField/NewDateTimeField analysis)"
	c.Assumptions = []string{
		"NaN is outside the quantifier (finite values, +-Inf only as interval ends)",
		"the stub reader returns empty postings: which documents a term selects is decided from the tokens each probe's field produces, the disjunction machinery itself is exercised in enumeration 5 and in C07",
		"precision step 4 (the only one the range searcher uses); geo hashes are covered as int64 values through the same encoder (shifts that are multiples of 9 are part of 0..63)",
		"a failing range input is shrunk (unbounded / closed ends as long as the same first wrong probe persists) before its key is formed, so that one defect yields few keys",
		fmt.Sprintf("a range query may probe at most %d candidate terms in the field dictionary (an exact decomposition has at most 480 terms; the byte-wise enumeration legitimately needs up to about 34 000 probes): a query beyond that is reported as a violation with the class key '<kind>:enumeration-blowup' and cannot be evaluated for exactness (counted as skipped_enumeration_blowup); the cap is enforced deterministically by counting dictionary look-ups in the stub reader, and computed from the start/end terms for direct splitInt64Range calls; queries sent to the real index are pre-flighted on the stub", probeCap),
	}
	budget := c.PickD(40*time.Second, 8*time.Minute)
	for _, name := range []string{"c10-roundtrip", "c10-order", "c10-range", "c10-window", "c10-e2e"} {
		if only := os.Getenv("C10_ONLY"); only != "" && only != name { // development aid
			c.NotExhaustive()
			continue
		}
		st := explore.Enumerate(explore.EnumConfig{Name: name, Param: param, Budget: budget, MaxViol: 20})
		if n := map[string]int{"c10-range": 1}[name] + 1; len(st.Samples) > n { // one written-out case per enumeration (two range queries)
			st.Samples = st.Samples[:n]
		}
		c.AddEnum(st)
		if os.Getenv("C10_KEYS") != "" { // development aid: all distinct violation keys
			seen := map[string]bool{}
			for _, v := range st.Violations {
				if !seen[v.Key] {
					seen[v.Key] = true
					fmt.Printf("KEY %s idx=%v\n", v.Key, v.Choices)
				}
			}
		}
	}
	c.Finish()
}

// C17: scores obey the BM25 laws and explanations derive the score.
//
// Four bounded-exhaustive enumerations:
//
//	c17-direct   direct calls of BM25Similarity.Scorer(...).Score / Explain over the
//	             full statistics grid (laws + explanation interpreter on every node)
//	c17-corpora  every corpus of 4 documents over a small document alphabet x every
//	             boolean query shape of depth <= 2 with boosts, through Reader.Search
//	             (laws on leaf scores, composite = boost x sum of parts recomputed from
//	             separate leaf searches, explain == no-explain bit for bit, interpreter)
//	c17-kinds    every scoring query kind x boosts on a fixed corpus (boost linearity,
//	             explain == no-explain, interpreter)
//	c17-sequences every sequence of <= 3 searches (scored, score=none, explain, locations,
//	             conjunction/disjunction/phrase) on ONE reader taken from a live writer,
//	             compared with the same searches on fresh readers of the same content
//
// The oracle never calls a searcher or scorer to obtain an expected value other than
// the *leaf* scores the property itself takes as given ("recomputed from leaf scores").
package main

import (
	"context"
	"fmt"
	"io"
	"log"
	"math"
	"sort"
	"strconv"
	"strings"
	"time"

	"github.com/blugelabs/bluge"
	"github.com/blugelabs/bluge/numeric/geo"
	"github.com/blugelabs/bluge/search"
	"github.com/blugelabs/bluge/search/similarity"
	"github.com/blugelabs/bluge/verifmc"
	segment "github.com/blugelabs/bluge_segment_api"

	"verif/checkmain"
	"verif/crashfs"
	"verif/explore"
	"verif/harness"
)

// ---------------------------------------------------------------- failures

// A case can fail in several ways at once.  All are collected; the one reported
// is the first of the lowest rank, so that a class that is already known on the
// unchanged tree (it is still reported by every case that has nothing else to
// say) cannot hide a different failure of the same case.
type failure struct {
	rank int
	key  string
	msg  string
}

type failures struct {
	list   []failure
	hasIdf bool
}

func (f *failures) add(rank int, key, format string, a ...interface{}) {
	if len(f.list) < 64 {
		f.list = append(f.list, failure{rank, key, fmt.Sprintf(format, a...)})
	}
}

// addw: key = class:where, message = where: text; where is only rendered on failure
func (f *failures) addw(rank int, class string, where func() string, format string, a ...interface{}) {
	if len(f.list) < 64 {
		w := where()
		f.list = append(f.list, failure{rank, class + ":" + w, w + ": " + fmt.Sprintf(format, a...)})
	}
}

func (f *failures) into(res *explore.Result) {
	if len(f.list) == 0 {
		return
	}
	best := 0
	for i, x := range f.list {
		if x.rank < f.list[best].rank {
			best = i
		}
	}
	res.Key = f.list[best].key
	res.Failure = f.list[best].msg
	if len(f.list) > 1 {
		seen := map[string]bool{}
		for _, x := range f.list {
			if !seen[x.key] && len(res.Notes) < 6 {
				seen[x.key] = true
				res.Notes = append(res.Notes, x.key+": "+x.msg)
			}
		}
	}
}

const (
	rankOther = 1
	rankBoost = 5 // a query kind whose score is not linear in its boost (class-level keys)
	rankIdf   = 9 // the idf message/value mismatch: reported when nothing else fails
)

// ---------------------------------------------------------------- numerics

func ulp(x float64) float64 {
	x = math.Abs(x)
	if x == 0 || math.IsInf(x, 0) || math.IsNaN(x) {
		return math.SmallestNonzeroFloat64
	}
	return math.Nextafter(x, math.Inf(1)) - x
}

// within reports |a-b| <= n ulps measured at magnitude mag.
func within(a, b float64, n float64, mag float64) bool {
	if a == b {
		return true
	}
	if math.IsNaN(a) || math.IsNaN(b) || math.IsInf(a, 0) || math.IsInf(b, 0) {
		return false
	}
	return math.Abs(a-b) <= n*ulp(mag)
}

func finitePos(x float64) bool { return !math.IsNaN(x) && !math.IsInf(x, 0) && x > 0 }

func normOf(docLen int) float64 { return float64(math.Float32frombits(uint32(docLen))) }

// ---------------------------------------------------------------- the interpreter

const (
	msgSum      = "sum of:"
	msgBoostSum = "computed as boost * sum"
	msgBoost    = "boost"
	msgConstant = "constant"
	msgIdf      = "idf, computed as log(1 + (N - n + 0.5) / (n + 0.5)) from:"
	msgTf       = "tf, computed as freq / (freq + k1 * (1 - b + b * dl / avgdl)) from:"
	msgN        = "N, total number of documents with field"
	msgn        = "n, number of documents containing term"
	msgFreq     = "freq, occurrences of term within document"
	msgK1       = "k1, term saturation parameter"
	msgB        = "b, length normalization parameter"
	msgDl       = "dl, length of field"
	msgAvgdl    = "avgdl, average length of field"
)

// leafStats is what a "score(freq=..)" node says about its term and document.
type leafStats struct {
	freq, n, N, dl, avgdl, k1, b, boost float64
	score                               float64
}

func childByMsg(e *search.Explanation, msg string) *search.Explanation {
	var found *search.Explanation
	for _, c := range e.Children {
		if c != nil && c.Message == msg {
			if found != nil {
				return nil
			}
			found = c
		}
	}
	return found
}

func render(e *search.Explanation) string {
	if e == nil {
		return "<nil>"
	}
	s := fmt.Sprintf("%v %q", e.Value, e.Message)
	if len(e.Children) > 0 {
		var parts []string
		for _, c := range e.Children {
			parts = append(parts, render(c))
		}
		s += " [" + strings.Join(parts, "; ") + "]"
	}
	return s
}

// interpret re-evaluates every node of the explanation from its children by the
// formula its message states.  where is a description of the input.  It returns
// the number of nodes visited and appends the leaf statistics it met.
func interpret(e *search.Explanation, wheref func() string, fs *failures, leaves *[]leafStats, cnt map[string]int64) int {
	if e == nil {
		fs.addw(rankOther, "explain:nil-node", wheref, "explanation tree has a nil node")
		return 0
	}
	nodes := 1
	for _, c := range e.Children {
		nodes += interpret(c, wheref, fs, leaves, cnt)
	}
	for _, c := range e.Children {
		if c == nil {
			return nodes
		}
	}
	noChildren := func() {
		if len(e.Children) != 0 {
			fs.addw(rankOther, "explain:shape", wheref, "node %q is a leaf by its message but has %d children", e.Message, len(e.Children))
		}
	}
	if math.IsNaN(e.Value) || math.IsInf(e.Value, 0) {
		fs.addw(rankOther, "explain:not-finite", wheref, "node %q has value %v", e.Message, e.Value)
		return nodes
	}
	switch {
	case e.Message == msgSum:
		cnt["node_sum"]++
		var sum, mag float64
		for _, c := range e.Children {
			sum += c.Value
			mag += math.Abs(c.Value)
		}
		if !within(e.Value, sum, float64(len(e.Children)+1), mag) {
			fs.addw(rankOther, "explain:sum", wheref, "node \"sum of:\" has value %v but its %d children sum to %v: %s", e.Value, len(e.Children), sum, render(e))
		}
	case e.Message == msgBoostSum:
		cnt["node_boost_sum"]++
		if len(e.Children) != 2 || e.Children[0].Message != msgBoost || e.Children[1].Message != msgSum {
			fs.addw(rankOther, "explain:shape", wheref, "node %q must have the children (boost, sum of:): %s", e.Message, render(e))
			break
		}
		want := e.Children[0].Value * e.Children[1].Value
		if !within(e.Value, want, 2, want) {
			fs.addw(rankOther, "explain:boost-sum", wheref, "node %q has value %v but boost %v * sum %v = %v", e.Message, e.Value, e.Children[0].Value, e.Children[1].Value, want)
		}
	case e.Message == msgBoost:
		cnt["node_boost"]++
		noChildren()
		if !(e.Value > 0) {
			fs.addw(rankOther, "explain:boost-value", wheref, "boost node with value %v", e.Value)
		}
	case e.Message == msgConstant:
		cnt["node_constant"]++
		noChildren()
	case e.Message == msgN, e.Message == msgn, e.Message == msgFreq, e.Message == msgK1, e.Message == msgB, e.Message == msgDl, e.Message == msgAvgdl:
		cnt["node_statistic"]++
		noChildren()
	case e.Message == msgIdf:
		cnt["node_idf"]++
		n, N := childByMsg(e, msgn), childByMsg(e, msgN)
		if n == nil || N == nil || len(e.Children) != 2 {
			fs.addw(rankOther, "explain:shape", wheref, "idf node must have exactly the children n and N: %s", render(e))
			break
		}
		want := math.Log(1 + (N.Value-n.Value+0.5)/(n.Value+0.5))
		if !within(e.Value, want, 4, want) {
			cnt["idf_value_differs_from_message"]++
			if fs.hasIdf {
				break
			}
			fs.hasIdf = true
			fs.add(rankIdf, "explain:idf-formula", "%s: the idf node has value %v, but the formula in its message, log(1 + (N - n + 0.5) / (n + 0.5)) with its children N=%v n=%v, is %v (the value equals log(1 + (N - n) + 0.5/(n + 0.5)) = %v)",
				wheref(), e.Value, N.Value, n.Value, want, math.Log(1+(N.Value-n.Value)+0.5/(n.Value+0.5)))
		} else {
			cnt["idf_value_equals_message"]++
		}
	case e.Message == msgTf:
		cnt["node_tf"]++
		f, k1, b, dl, avg := childByMsg(e, msgFreq), childByMsg(e, msgK1), childByMsg(e, msgB), childByMsg(e, msgDl), childByMsg(e, msgAvgdl)
		if f == nil || k1 == nil || b == nil || dl == nil || avg == nil || len(e.Children) != 5 {
			fs.addw(rankOther, "explain:shape", wheref, "tf node must have exactly the children freq, k1, b, dl, avgdl: %s", render(e))
			break
		}
		want := f.Value / (f.Value + k1.Value*(1-b.Value+b.Value*dl.Value/avg.Value))
		// tf lies in (0,1) and is computed as 1 - 1/(1+x): ulps are measured at 1
		if !within(e.Value, want, 4, 1) {
			fs.addw(rankOther, "explain:tf", wheref, "the tf node has value %v, the formula in its message gives %v: %s", e.Value, want, render(e))
		}
		if math.Abs(e.Value-want) > ulp(1) {
			cnt["tf_off_by_more_than_1ulp_of_1"]++
		}
	case strings.HasPrefix(e.Message, "score(freq=") && strings.HasSuffix(e.Message, "), computed as boost * idf * tf from:"):
		cnt["node_score"]++
		fstr := strings.TrimSuffix(strings.TrimPrefix(e.Message, "score(freq="), "), computed as boost * idf * tf from:")
		freq, err := strconv.Atoi(fstr)
		idf, tf, boost := childByMsg(e, msgIdf), childByMsg(e, msgTf), childByMsg(e, msgBoost)
		nkids := 2
		if boost != nil {
			nkids = 3
		}
		if err != nil || idf == nil || tf == nil || len(e.Children) != nkids {
			fs.addw(rankOther, "explain:shape", wheref, "score node must have the children idf, [boost,] tf: %s", render(e))
			break
		}
		bv := 1.0
		if boost != nil {
			bv = boost.Value
		}
		want := bv * idf.Value * tf.Value
		// computed as w - w/(1+x) with w = boost*idf: ulps are measured at w
		if !within(e.Value, want, 4, bv*idf.Value) {
			fs.addw(rankOther, "explain:score", wheref, "the score node has value %v but boost %v * idf %v * tf %v = %v", e.Value, bv, idf.Value, tf.Value, want)
		}
		ls := leafStats{boost: bv, score: e.Value, freq: math.NaN()}
		if c := childByMsg(tf, msgFreq); c != nil {
			ls.freq = c.Value
			if c.Value != float64(freq) {
				fs.addw(rankOther, "explain:freq", wheref, "message says freq=%d, the freq child says %v", freq, c.Value)
			}
		}
		get := func(p *search.Explanation, m string) float64 {
			if c := childByMsg(p, m); c != nil {
				return c.Value
			}
			return math.NaN()
		}
		ls.n, ls.N = get(idf, msgn), get(idf, msgN)
		ls.k1, ls.b, ls.dl, ls.avgdl = get(tf, msgK1), get(tf, msgB), get(tf, msgDl), get(tf, msgAvgdl)
		if leaves != nil {
			*leaves = append(*leaves, ls)
		}
	default:
		fs.add(rankOther, "explain:unknown-message:"+e.Message, "%s: the interpreter has no rule for the message %q: %s", wheref(), e.Message, render(e))
	}
	return nodes
}

// ---------------------------------------------------------------- (1) direct grid

type collStats struct{ total, docs, sumTTF uint64 }

func (c *collStats) TotalDocumentCount() uint64    { return c.total }
func (c *collStats) DocumentCount() uint64         { return c.docs }
func (c *collStats) SumTotalTermFrequency() uint64 { return c.sumTTF }
func (c *collStats) Merge(o segment.CollectionStats) {
	c.total += o.TotalDocumentCount()
	c.docs += o.DocumentCount()
	c.sumTTF += o.SumTotalTermFrequency()
}

type termStats uint64

func (t termStats) DocumentFrequency() uint64 { return uint64(t) }

var (
	gridFreq     = []int{1, 2, 3, 4, 5, 6, 7, 8}
	gridDocLen   = []int{1, 2, 3, 4, 5, 6, 7, 8, 100, 10000}
	gridBoost    = []float64{1, 0.5, 2, 7}
	gridDocCount = []uint64{1, 2, 3, 4, 5, 6, 7, 8, 9, 10, 11, 12, 13, 14, 15, 16, 1000000, 1 << 40}
	gridBK1      = [][2]float64{{0.75, 1.2}, {0.5, 2.0}}
)

// average field length grid, as the total token count for a given docCount
func gridSumTTF(docCount uint64) []uint64 {
	n := docCount
	return []uint64{n, n + 1, 2*n + 1, 4 * n, 8 * n, 100 * n, 10000 * n, 10000*n + 7}
}

func directTotal(string) int64 { return int64(len(gridBK1) * len(gridDocCount) * 8) }

func directEval(idx int64, param string) *explore.Result {
	bk := gridBK1[idx%int64(len(gridBK1))]
	idx /= int64(len(gridBK1))
	docCount := gridDocCount[idx%int64(len(gridDocCount))]
	idx /= int64(len(gridDocCount))
	sumTTF := gridSumTTF(docCount)[idx]
	sim := similarity.NewBM25SimilarityBK1(bk[0], bk[1])
	cs := &collStats{total: docCount, docs: docCount, sumTTF: sumTTF}
	avg := float64(sumTTF) / float64(docCount)
	where0 := fmt.Sprintf("b=%v k1=%v N=%d sumTTF=%d", bk[0], bk[1], docCount, sumTTF)
	res := &explore.Result{Counts: map[string]int64{}}
	var fs failures

	var docFreqs []uint64
	for n := uint64(1); n <= 8 && n <= docCount; n++ {
		docFreqs = append(docFreqs, n)
	}
	if docCount > 8 {
		docFreqs = append(docFreqs, docCount)
	}
	// scores[nIdx][boostIdx][freqIdx][dlIdx]
	scores := make([][][][]float64, len(docFreqs))
	for ni, n := range docFreqs {
		scores[ni] = make([][][]float64, len(gridBoost))
		for bi, boost := range gridBoost {
			sc := sim.Scorer(boost, cs, termStats(n))
			scores[ni][bi] = make([][]float64, len(gridFreq))
			for fi, freq := range gridFreq {
				scores[ni][bi][fi] = make([]float64, len(gridDocLen))
				for di, dl := range gridDocLen {
					n, boost, freq, dl := n, boost, freq, dl
					wheref := func() string {
						return fmt.Sprintf("%s n=%d boost=%v freq=%d dl=%d", where0, n, boost, freq, dl)
					}
					s := sc.Score(freq, normOf(dl))
					scores[ni][bi][fi][di] = s
					res.Evals++
					if dl >= freq && sumTTF >= n+uint64(freq)-1 {
						res.Nontrivial++ // statistics some corpus can have
					}
					if !finitePos(s) {
						fs.addw(rankOther, "direct:finite-positive", wheref, "score %v is not finite and positive", s)
					}
					ex := sc.Explain(freq, normOf(dl))
					if ex == nil {
						fs.addw(rankOther, "direct:explain-nil", wheref, "Explain returned nil")
						continue
					}
					if math.Float64bits(ex.Value) != math.Float64bits(s) {
						fs.addw(rankOther, "direct:explain-value", wheref, "Explain value %v differs from Score %v", ex.Value, s)
					}
					var leaves []leafStats
					res.Counts["explanation_nodes"] += int64(interpret(ex, wheref, &fs, &leaves, res.Counts))
					if len(leaves) != 1 {
						fs.addw(rankOther, "direct:explain-shape", wheref, "expected one score node: %s", render(ex))
					} else {
						l := leaves[0]
						if l.freq != float64(freq) || l.n != float64(n) || l.N != float64(docCount) || l.dl != float64(dl) || l.avgdl != avg || l.k1 != bk[1] || l.b != bk[0] || l.boost != boost {
							fs.addw(rankOther, "direct:explain-statistics", wheref, "the explanation states other statistics than were given (avgdl=%v): %s", avg, render(ex))
						}
					}
				}
			}
		}
	}
	for ni, n := range docFreqs {
		for bi, boost := range gridBoost {
			for fi, freq := range gridFreq {
				for di, dl := range gridDocLen {
					s := scores[ni][bi][fi][di]
					n, boost, freq, dl := n, boost, freq, dl
					wheref := func() string {
						return fmt.Sprintf("%s n=%d boost=%v freq=%d dl=%d", where0, n, boost, freq, dl)
					}
					if fi > 0 && !(s > scores[ni][bi][fi-1][di]) {
						fs.addw(rankOther, "direct:freq-monotone", wheref, "score %v is not greater than the score %v for freq=%d", s, scores[ni][bi][fi-1][di], gridFreq[fi-1])
					}
					if di > 0 && !(s < scores[ni][bi][fi][di-1]) {
						fs.addw(rankOther, "direct:length-monotone", wheref, "score %v is not smaller than the score %v for dl=%d", s, scores[ni][bi][fi][di-1], gridDocLen[di-1])
					}
					if ni > 0 {
						prev := scores[ni-1][bi][fi][di]
						if !(s <= prev) {
							fs.addw(rankOther, "direct:rarity-monotone", wheref, "score %v is greater than the score %v of the rarer term n=%d", s, prev, docFreqs[ni-1])
						}
						if s < prev {
							res.Counts["rarer_term_scores_strictly_higher"]++
						} else {
							res.Counts["rarer_term_scores_equal"]++
						}
					}
					if bi > 0 {
						base := scores[ni][0][fi][di] // boost 1
						// saturation value of the score is boost*idf <= boost*ln(2+N): ulps at that magnitude
						mag := boost * math.Log(2+float64(docCount))
						if !within(s, boost*base, 8, mag) {
							fs.addw(rankOther, "direct:boost-linear", wheref, "score %v is not boost x the score at boost 1 (%v x %v = %v)", s, boost, base, boost*base)
						}
					}
				}
			}
		}
	}
	// the idf weight alone: Idf(n, N) non-increasing in n over the whole range 1..min(N,64)
	lim := docCount
	if lim > 64 {
		lim = 64
	}
	prev := math.Inf(1)
	for n := uint64(1); n <= lim; n++ {
		v := sim.Idf(n, docCount)
		res.Evals++
		if !finitePos(v) {
			fs.add(rankOther, fmt.Sprintf("direct:idf-positive:N=%d n=%d", docCount, n), "Idf(n=%d, N=%d) = %v is not finite and positive", n, docCount, v)
		}
		if !(v <= prev) {
			fs.add(rankOther, fmt.Sprintf("direct:idf-monotone:N=%d n=%d", docCount, n), "Idf(n=%d, N=%d) = %v is greater than Idf(n=%d) = %v", n, docCount, v, n-1, prev)
		}
		if v < prev {
			res.Counts["idf_strictly_decreasing_steps"]++
		} else if n > 1 {
			res.Counts["idf_equal_steps"]++
		}
		prev = v
	}
	res.Outcome = fmt.Sprintf("%x", math.Float64bits(scores[0][0][0][0]))
	if idx == 0 && docCount == 4 {
		res.Sample = map[string]interface{}{"direct": where0 + " n=1 boost=1 freq=1 dl=1", "score": scores[0][0][0][0]}
	}
	fs.into(res)
	return res
}

// ---------------------------------------------------------------- (2) corpora

// a document is the text of its field t; "" is a field without tokens, "-" a
// document that has no field t at all (it has another field instead)
const noField = "-"

var docAlphabetQuick = []string{"x x y z", "x y y z", "y z", "", noField}
var docAlphabetThorough = []string{"x x y z", "x y y z", "y z", "", noField, "x", "x y", "y y"}

func docAlphabet(param string) []string {
	if param == "thorough" {
		return docAlphabetThorough
	}
	return docAlphabetQuick
}

const nDocs = 4

func corporaTotal(param string) int64 {
	n := int64(len(docAlphabet(param)))
	return n * n * n * n
}

type corpus struct {
	texts  []string
	tokens [][]string
	tf     []map[string]int
	df     map[string]int
	nField int // documents that have the field
	sumTTF int
}

func corpusOf(idx int64, param string) *corpus {
	al := docAlphabet(param)
	c := &corpus{df: map[string]int{}}
	for i := 0; i < nDocs; i++ {
		t := al[idx%int64(len(al))]
		idx /= int64(len(al))
		c.texts = append(c.texts, t)
		var toks []string
		if t != noField {
			toks = strings.Fields(t)
			c.nField++
		}
		c.tokens = append(c.tokens, toks)
		m := map[string]int{}
		for _, k := range toks {
			m[k]++
		}
		c.tf = append(c.tf, m)
		for k := range m {
			c.df[k]++
		}
		c.sumTTF += len(toks)
	}
	return c
}

// the query language of the enumeration
type qnode struct {
	term    string
	boost   float64
	isBool  bool
	must    []*qnode
	should  []*qnode
	mustNot []*qnode
	min     int
}

func leaf(term string, boost float64) *qnode { return &qnode{term: term, boost: boost} }
func boolean(m, s, n []*qnode, min int, boost float64) *qnode {
	return &qnode{isBool: true, must: m, should: s, mustNot: n, min: min, boost: boost}
}

func (q *qnode) String() string {
	b := ""
	if q.boost != 1 {
		b = fmt.Sprintf("^%v", q.boost)
	}
	if !q.isBool {
		return q.term + b
	}
	var parts []string
	list := func(tag string, l []*qnode) {
		if len(l) == 0 {
			return
		}
		var s []string
		for _, c := range l {
			s = append(s, c.String())
		}
		parts = append(parts, tag+"["+strings.Join(s, " ")+"]")
	}
	list("must", q.must)
	list("should", q.should)
	list("not", q.mustNot)
	if q.min != 0 {
		parts = append(parts, fmt.Sprintf("min=%d", q.min))
	}
	return "(" + strings.Join(parts, " ") + ")" + b
}

func (q *qnode) build() bluge.Query {
	if !q.isBool {
		tq := bluge.NewTermQuery(q.term).SetField("t")
		if q.boost != 1 {
			tq.SetBoost(q.boost)
		}
		return tq
	}
	bq := bluge.NewBooleanQuery()
	for _, c := range q.must {
		bq.AddMust(c.build())
	}
	for _, c := range q.should {
		bq.AddShould(c.build())
	}
	for _, c := range q.mustNot {
		bq.AddMustNot(c.build())
	}
	bq.SetMinShould(q.min)
	if q.boost != 1 {
		bq.SetBoost(q.boost)
	}
	return bq
}

func (q *qnode) nodes() int {
	n := 1
	for _, l := range [][]*qnode{q.must, q.should, q.mustNot} {
		for _, c := range l {
			n += c.nodes()
		}
	}
	return n
}

var (
	leafQueries  []*qnode
	queriesQuick []*qnode
	queriesFull  []*qnode
)

func queriesOf(param string) []*qnode {
	if param == "thorough" {
		return queriesFull
	}
	return queriesQuick
}

func buildQueries() {
	queriesQuick = genQueries(false)
	queriesFull = genQueries(true)
}

func genQueries(full bool) (allQueries []*qnode) {
	x, y, z := leaf("x", 1), leaf("y", 1), leaf("z", 1)
	x2, yh := leaf("x", 2), leaf("y", 0.5)
	leafQueries = []*qnode{x, y, z, x2, yh}
	allQueries = append(allQueries, leafQueries...)
	type L = []*qnode
	// depth 1
	M1 := []L{nil, {x}, {x, y}, {x2}, {y, z}}
	S1 := []L{nil, {y}, {y, z}, {yh, z}, {x, x}}
	N1 := []L{nil, {z}, {x}}
	for _, boost := range []float64{1, 3} {
		for _, m := range M1 {
			for _, s := range S1 {
				for _, n := range N1 {
					if len(m)+len(s)+len(n) == 0 {
						continue
					}
					for min := 0; min <= len(s); min++ {
						allQueries = append(allQueries, boolean(m, s, n, min, boost))
					}
				}
			}
		}
	}
	// depth 2: clauses from a pool of two leaves and eight inner booleans
	i1 := boolean(L{x, y}, nil, nil, 0, 1)
	i2 := boolean(nil, L{y, z}, nil, 0, 1)
	i3 := boolean(nil, L{y, z}, nil, 2, 3)
	i4 := boolean(L{x}, L{y}, nil, 0, 1)
	i5 := boolean(L{x}, nil, L{z}, 0, 1)
	i6 := boolean(nil, nil, L{z}, 0, 3)
	i7 := boolean(nil, L{yh, z}, nil, 0, 3)
	i8 := boolean(L{x2}, L{y, z}, nil, 1, 3)
	pool := L{x, yh, i1, i2, i3, i4, i5, i6, i7, i8}
	M2 := []L{nil}
	for _, p := range pool {
		M2 = append(M2, L{p})
	}
	M2 = append(M2, L{i1, i2}, L{x, i4})
	type sm struct {
		s   L
		min int
	}
	S2 := []sm{{nil, 0}}
	for _, p := range pool {
		S2 = append(S2, sm{L{p}, 0}, sm{L{p}, 1})
	}
	for _, pr := range []L{{i2, i4}, {x, i6}, {i3, i7}, {i5, i8}} {
		S2 = append(S2, sm{pr, 0}, sm{pr, 1}, sm{pr, 2})
	}
	N2 := []L{nil, {i1}}
	if full {
		N2 = []L{nil, {z}, {i1}}
	}
	for _, boost := range []float64{1, 0.5} {
		for _, m := range M2 {
			for _, s := range S2 {
				for _, n := range N2 {
					if len(m)+len(s.s)+len(n) == 0 {
						continue
					}
					depth2 := false
					for _, l := range []L{m, s.s, n} {
						for _, c := range l {
							if c.isBool {
								depth2 = true
							}
						}
					}
					if !depth2 {
						continue // already among the depth-1 shapes
					}
					allQueries = append(allQueries, boolean(m, s.s, n, s.min, boost))
				}
			}
		}
	}
	return allQueries
}

// reference evaluation: does document d match, and which score follows from the
// leaf scores.  leafScore(term, boost, d) comes from a separate leaf search.
type leafKey struct {
	term  string
	boost float64
}

func (c *corpus) ref(q *qnode, d int, ls map[leafKey][]float64) (bool, float64) {
	if !q.isBool {
		if c.tf[d][q.term] == 0 {
			return false, 0
		}
		return true, ls[leafKey{q.term, q.boost}][d]
	}
	sum := 0.0
	for _, m := range q.must {
		ok, s := c.ref(m, d, ls)
		if !ok {
			return false, 0
		}
		sum += s
	}
	for _, m := range q.mustNot {
		if ok, _ := c.ref(m, d, ls); ok {
			return false, 0
		}
	}
	matched := 0
	ssum := 0.0
	for _, m := range q.should {
		if ok, s := c.ref(m, d, ls); ok {
			matched++
			ssum += s
		}
	}
	if matched < q.min {
		return false, 0
	}
	if len(q.must) == 0 {
		if len(q.should) > 0 {
			if matched == 0 {
				return false, 0
			}
		} else {
			// must-not only: the complement, scored by the implicit match-all part (constant 1)
			return true, q.boost * 1
		}
	}
	return true, q.boost * (sum + ssum)
}

func sameInts(a, b []int) bool {
	if len(a) != len(b) {
		return false
	}
	for i := range a {
		if a[i] != b[i] {
			return false
		}
	}
	return true
}

type hit struct {
	doc   int
	score float64
	expl  *search.Explanation
}

func runSearch(r *bluge.Reader, q bluge.Query, explain bool, num2doc map[uint64]int) (hits []hit, err error) {
	defer func() {
		if p := recover(); p != nil {
			err = fmt.Errorf("PANIC: %v", p)
		}
	}()
	req := bluge.NewTopNSearch(10, q)
	if explain {
		req.ExplainScores()
	}
	it, err := r.Search(context.Background(), req)
	if err != nil {
		return nil, err
	}
	for {
		m, err := it.Next()
		if err != nil {
			return nil, err
		}
		if m == nil {
			break
		}
		d, ok := num2doc[m.Number]
		if !ok {
			return nil, fmt.Errorf("hit with unknown document number %d", m.Number)
		}
		hits = append(hits, hit{d, m.Score, m.Explanation})
	}
	sort.Slice(hits, func(i, j int) bool { return hits[i].doc < hits[j].doc })
	return hits, nil
}

func buildIndex(docs []*bluge.Document) (*bluge.Reader, map[uint64]int, error) {
	dir := crashfs.New()
	dir.Points = false
	var werr error
	s := verifmc.Run(verifmc.Options{}, func() {
		cfg := harness.Config(dir, harness.Opts{NoMemMerge: true})
		w, err := bluge.OpenWriter(cfg)
		if err != nil {
			werr = err
			return
		}
		b := bluge.NewBatch()
		for _, d := range docs {
			b.Insert(d)
		}
		if err := w.Batch(b); err != nil {
			werr = err
		}
		if err := w.Close(); err != nil && werr == nil {
			werr = err
		}
	})
	if s.Failure != "" {
		return nil, nil, fmt.Errorf("index build failed: %s", s.Failure)
	}
	if werr != nil {
		return nil, nil, werr
	}
	r, err := bluge.OpenReader(harness.Config(dir, harness.Opts{}))
	if err != nil {
		return nil, nil, err
	}
	num2doc := map[uint64]int{}
	it, err := r.Search(context.Background(), bluge.NewAllMatches(bluge.NewMatchAllQuery()))
	if err != nil {
		return nil, nil, err
	}
	for {
		m, err := it.Next()
		if err != nil {
			return nil, nil, err
		}
		if m == nil {
			break
		}
		id := ""
		_ = m.VisitStoredFields(func(field string, value []byte) bool {
			if field == "_id" {
				id = string(value)
			}
			return true
		})
		n, err := strconv.Atoi(strings.TrimPrefix(id, "d"))
		if err != nil {
			return nil, nil, fmt.Errorf("unexpected id %q", id)
		}
		num2doc[m.Number] = n
	}
	if len(num2doc) != len(docs) {
		return nil, nil, fmt.Errorf("match-all returned %d of %d documents", len(num2doc), len(docs))
	}
	return r, num2doc, nil
}

func corporaEval(idx int64, param string) *explore.Result {
	c := corpusOf(idx, param)
	cdesc := fmt.Sprintf("docs=%q", c.texts)
	res := &explore.Result{Counts: map[string]int64{}, Outcome: cdesc}
	var fs failures
	defer func() { fs.into(res) }()

	var docs []*bluge.Document
	for i, t := range c.texts {
		d := bluge.NewDocument(fmt.Sprintf("d%d", i))
		if t == noField {
			d.AddField(bluge.NewTextField("u", "x y"))
		} else {
			d.AddField(bluge.NewTextField("t", t))
		}
		docs = append(docs, d)
	}
	r, num2doc, err := buildIndex(docs)
	if err != nil {
		res.Failure = "harness: " + cdesc + ": " + err.Error()
		res.Key = "harness"
		return res
	}
	defer r.Close()
	avgdl := math.NaN()
	if c.nField > 0 {
		avgdl = float64(c.sumTTF) / float64(c.nField)
	}

	// ---- leaves: separate leaf searches, statistics in the explanation, laws
	ls := map[leafKey][]float64{}
	for _, q := range leafQueries {
		q := q
		wheref := func() string { return fmt.Sprintf("%s query=%s", cdesc, q) }
		hits, err := runSearch(r, q.build(), false, num2doc)
		if err != nil {
			fs.addw(rankOther, "search-error", wheref, "%v", err)
			continue
		}
		hitsE, err := runSearch(r, q.build(), true, num2doc)
		if err != nil {
			fs.addw(rankOther, "search-error", wheref, "(explain) %v", err)
			continue
		}
		sc := make([]float64, nDocs)
		for i := range sc {
			sc[i] = math.NaN()
		}
		var got []int
		for _, h := range hits {
			sc[h.doc] = h.score
			got = append(got, h.doc)
		}
		var want []int
		for d := 0; d < nDocs; d++ {
			if c.tf[d][q.term] > 0 {
				want = append(want, d)
			}
		}
		if !sameInts(got, want) {
			fs.addw(rankOther, "selection", wheref, "hits %v, the term occurs in %v", got, want)
			continue
		}
		ls[leafKey{q.term, q.boost}] = sc
		if len(hitsE) != len(hits) {
			fs.addw(rankOther, "explain-hits", wheref, "%d hits with ExplainScores, %d without", len(hitsE), len(hits))
			continue
		}
		for i, h := range hitsE {
			hd := h.doc
			wf := func() string { return fmt.Sprintf("%s doc=%d", wheref(), hd) }
			res.Evals++
			if !finitePos(hits[i].score) {
				fs.addw(rankOther, "finite-positive", wf, "score %v is not finite and positive", hits[i].score)
			}
			if h.doc != hits[i].doc || math.Float64bits(h.score) != math.Float64bits(hits[i].score) {
				fs.addw(rankOther, "explain-score", wf, "score with ExplainScores %v, without %v", h.score, hits[i].score)
			}
			if h.expl == nil {
				fs.addw(rankOther, "explain-nil", wf, "no explanation")
				continue
			}
			if math.Float64bits(h.expl.Value) != math.Float64bits(hits[i].score) {
				fs.addw(rankOther, "explain-value", wf, "explanation value %v, score without explanation %v", h.expl.Value, hits[i].score)
			}
			var leaves []leafStats
			res.Counts["explanation_nodes"] += int64(interpret(h.expl, wf, &fs, &leaves, res.Counts))
			if len(leaves) != 1 || !strings.HasPrefix(h.expl.Message, "score(freq=") {
				fs.addw(rankOther, "explain-shape", wf, "a term query must be explained by one score node: %s", render(h.expl))
				continue
			}
			l := leaves[0]
			if l.freq != float64(c.tf[h.doc][q.term]) || l.n != float64(c.df[q.term]) || l.N != float64(c.nField) ||
				l.dl != float64(len(c.tokens[h.doc])) || l.avgdl != avgdl || l.boost != q.boost || l.k1 != 1.2 || l.b != 0.75 {
				fs.addw(rankOther, "explain-statistics", wf, "the explanation states freq=%v n=%v N=%v dl=%v avgdl=%v boost=%v k1=%v b=%v; the corpus has freq=%d n=%d N=%d dl=%d avgdl=%v boost=%v",
					l.freq, l.n, l.N, l.dl, l.avgdl, l.boost, l.k1, l.b, c.tf[h.doc][q.term], c.df[q.term], c.nField, len(c.tokens[h.doc]), avgdl, q.boost)
			}
		}
	}
	for _, f := range fs.list {
		if f.rank == rankOther {
			return res // without trustworthy leaf scores nothing else can be judged
		}
	}
	// laws between leaf scores of this corpus (boost 1)
	terms := []string{"x", "y", "z"}
	for _, t1 := range terms {
		s1 := ls[leafKey{t1, 1}]
		for d1 := 0; d1 < nDocs; d1++ {
			f1, l1 := c.tf[d1][t1], len(c.tokens[d1])
			if f1 == 0 {
				continue
			}
			for _, t2 := range terms {
				s2 := ls[leafKey{t2, 1}]
				for d2 := 0; d2 < nDocs; d2++ {
					f2, l2 := c.tf[d2][t2], len(c.tokens[d2])
					if f2 == 0 {
						continue
					}
					t1, t2, d1, d2 := t1, t2, d1, d2
					wf := func() string {
						return fmt.Sprintf("%s (term %s, doc %d: freq %d, dl %d, n %d, score %v) vs (term %s, doc %d: freq %d, dl %d, n %d, score %v)",
							cdesc, t1, d1, f1, l1, c.df[t1], s1[d1], t2, d2, f2, l2, c.df[t2], s2[d2])
					}
					switch {
					case t1 == t2 && l1 == l2 && f1 < f2:
						res.Counts["law_freq_pairs"]++
						if !(s1[d1] < s2[d2]) {
							fs.addw(rankOther, "law:freq", wf, "more occurrences do not score higher")
						}
					case t1 == t2 && f1 == f2 && l1 < l2:
						res.Counts["law_length_pairs"]++
						if !(s1[d1] > s2[d2]) {
							fs.addw(rankOther, "law:length", wf, "the longer field does not score lower")
						}
					case t1 != t2 && f1 == f2 && l1 == l2 && c.df[t1] < c.df[t2]:
						res.Counts["law_rarity_pairs"]++
						if !(s1[d1] >= s2[d2]) {
							fs.addw(rankOther, "law:rarity", wf, "the rarer term does not weigh at least as much")
						}
						if s1[d1] > s2[d2] {
							res.Counts["law_rarity_strict"]++
						}
					case t1 == t2 && d1 == d2:
						for _, b := range []float64{2, 0.5} {
							sb, ok := ls[leafKey{t1, b}]
							if !ok {
								continue
							}
							res.Counts["law_boost_pairs"]++
							if !within(sb[d1], b*s1[d1], 8, b*math.Log(2+float64(c.nField))) {
								fs.addw(rankOther, "law:boost", wf, "boost %v does not scale the score linearly: %v vs %v x %v", b, sb[d1], b, s1[d1])
							}
						}
					}
				}
			}
		}
	}

	// ---- every query
	allQueries := queriesOf(param)
	for qi, q := range allQueries {
		q := q
		wheref := func() string { return fmt.Sprintf("%s query=%s", cdesc, q) }
		bq := q.build()
		hits, err := runSearch(r, bq, false, num2doc)
		if err != nil {
			fs.addw(rankOther, "search-error", wheref, "%v", err)
			continue
		}
		hitsE, err := runSearch(r, q.build(), true, num2doc)
		if err != nil {
			fs.addw(rankOther, "search-error", wheref, "(explain) %v", err)
			continue
		}
		res.Evals++
		var got, want []int
		wantScore := map[int]float64{}
		for _, h := range hits {
			got = append(got, h.doc)
		}
		for d := 0; d < nDocs; d++ {
			if ok, s := c.ref(q, d, ls); ok {
				want = append(want, d)
				wantScore[d] = s
			}
		}
		if !sameInts(got, want) {
			fs.addw(rankOther, "selection", wheref, "hits %v, the query selects %v", got, want)
			continue
		}
		if len(hits) > 0 {
			res.Nontrivial++
		}
		if len(hitsE) != len(hits) {
			fs.addw(rankOther, "explain-hits", wheref, "%d hits with ExplainScores, %d without", len(hitsE), len(hits))
			continue
		}
		nq := float64(q.nodes())
		for i, h := range hits {
			hd := h.doc
			wf := func() string { return fmt.Sprintf("%s doc=%d", wheref(), hd) }
			if !finitePos(h.score) {
				fs.addw(rankOther, "finite-positive", wf, "score %v is not finite and positive", h.score)
			}
			if ws := wantScore[h.doc]; !within(h.score, ws, 2*nq, ws) {
				fs.addw(rankOther, "composite", wf, "score %v, but boost x sum of the matching parts (from the leaf scores) is %v", h.score, ws)
			}
			he := hitsE[i]
			if he.doc != h.doc || math.Float64bits(he.score) != math.Float64bits(h.score) {
				fs.addw(rankOther, "explain-score", wf, "score with ExplainScores %v, without %v", he.score, h.score)
			}
			if he.expl == nil {
				fs.addw(rankOther, "explain-nil", wf, "no explanation")
				continue
			}
			if math.Float64bits(he.expl.Value) != math.Float64bits(h.score) {
				fs.addw(rankOther, "explain-value", wf, "explanation value %v, score without explanation %v", he.expl.Value, h.score)
			}
			res.Counts["explanation_nodes"] += int64(interpret(he.expl, wf, &fs, nil, res.Counts))
			res.Counts["hits"]++
			if qi == len(allQueries)-1 && idx%97 == 0 && res.Sample == nil {
				res.Sample = map[string]interface{}{"corpus": c.texts, "query": q.String(), "doc": h.doc, "score": h.score, "explanation": render(he.expl)}
			}
		}
	}
	return res
}

// ---------------------------------------------------------------- (3) every scoring query kind x boosts

type kindCase struct {
	kind string
	desc string
	mk   func(boost float64) bluge.Query
}

var kindBoosts = []float64{1, 2, 0.5, 7}

func day(y, m, d int) time.Time { return time.Date(y, time.Month(m), d, 0, 0, 0, 0, time.UTC) }

type kdoc struct {
	t, k     string
	n        float64
	d        time.Time
	lon, lat float64
}

var kindDocs = []kdoc{
	{"quick brown fox", "alpha", 1, day(2020, 1, 1), 0, 0},
	{"quick quick fox jumps", "alpine", 5, day(2020, 6, 1), 10, 10},
	{"lazy dog", "beta", 10, day(2021, 1, 1), -120, 45},
	{"brown dog fox", "alps", 50, day(2021, 6, 1), 179.5, -10},
	{"the quick brown fox jumps over the lazy dog", "gamma", 100, day(2022, 1, 1), -179.5, -10},
	{"fax", "beta", 10, day(2021, 1, 1), 10.5, 10.5},
}

func kindCases() []kindCase {
	var cs []kindCase
	add := func(kind, desc string, mk func(b float64) bluge.Query) {
		cs = append(cs, kindCase{kind, desc, mk})
	}
	for _, tf := range [][2]string{{"fox", "t"}, {"quick", "t"}, {"beta", "k"}} {
		tf := tf
		add("term", tf[1]+":"+tf[0], func(b float64) bluge.Query { return bluge.NewTermQuery(tf[0]).SetField(tf[1]).SetBoost(b) })
	}
	for _, m := range []string{"fox", "quick dog", "lazy brown fox"} {
		m := m
		add("match", "t:"+m+" (or)", func(b float64) bluge.Query { return bluge.NewMatchQuery(m).SetField("t").SetBoost(b) })
		add("match", "t:"+m+" (and)", func(b float64) bluge.Query {
			return bluge.NewMatchQuery(m).SetField("t").SetOperator(bluge.MatchQueryOperatorAnd).SetBoost(b)
		})
	}
	add("match", "t:fax (or, fuzziness 1)", func(b float64) bluge.Query {
		return bluge.NewMatchQuery("fax").SetField("t").SetFuzziness(1).SetBoost(b)
	})
	for _, m := range []string{"quick brown", "lazy dog", "fox"} {
		m := m
		add("match_phrase", "t:\""+m+"\"", func(b float64) bluge.Query { return bluge.NewMatchPhraseQuery(m).SetField("t").SetBoost(b) })
	}
	add("match_phrase", "t:\"quick fox\"~1", func(b float64) bluge.Query {
		return bluge.NewMatchPhraseQuery("quick fox").SetField("t").SetSlop(1).SetBoost(b)
	})
	add("multi_phrase", "t:[quick][brown|fox]", func(b float64) bluge.Query {
		return bluge.NewMultiPhraseQuery([][]string{{"quick"}, {"brown", "fox"}}).SetField("t").SetBoost(b)
	})
	add("multi_phrase", "t:[lazy][dog]", func(b float64) bluge.Query {
		return bluge.NewMultiPhraseQuery([][]string{{"lazy"}, {"dog"}}).SetField("t").SetBoost(b)
	})
	for _, pf := range [][2]string{{"al", "k"}, {"qu", "t"}, {"f", "t"}} {
		pf := pf
		add("prefix", pf[1]+":"+pf[0]+"*", func(b float64) bluge.Query { return bluge.NewPrefixQuery(pf[0]).SetField(pf[1]).SetBoost(b) })
	}
	for _, pf := range [][2]string{{"al*", "k"}, {"?o?", "t"}, {"*a*", "k"}} {
		pf := pf
		add("wildcard", pf[1]+":"+pf[0], func(b float64) bluge.Query { return bluge.NewWildcardQuery(pf[0]).SetField(pf[1]).SetBoost(b) })
	}
	for _, pf := range [][2]string{{"al.*", "k"}, {"(fox|dog)", "t"}, {"f.x", "t"}} {
		pf := pf
		add("regexp", pf[1]+":/"+pf[0]+"/", func(b float64) bluge.Query { return bluge.NewRegexpQuery(pf[0]).SetField(pf[1]).SetBoost(b) })
	}
	for _, fz := range []struct {
		t string
		f int
	}{{"fax", 1}, {"fox", 2}, {"quik", 1}} {
		fz := fz
		add("fuzzy", fmt.Sprintf("t:%s~%d", fz.t, fz.f), func(b float64) bluge.Query {
			return bluge.NewFuzzyQuery(fz.t).SetFuzziness(fz.f).SetField("t").SetBoost(b)
		})
	}
	add("term_range", "k:[alpha,beta)", func(b float64) bluge.Query { return bluge.NewTermRangeQuery("alpha", "beta").SetField("k").SetBoost(b) })
	add("term_range", "k:[alps,gamma]", func(b float64) bluge.Query {
		return bluge.NewTermRangeInclusiveQuery("alps", "gamma", true, true).SetField("k").SetBoost(b)
	})
	add("numeric_range", "n:[1,10)", func(b float64) bluge.Query { return bluge.NewNumericRangeQuery(1, 10).SetField("n").SetBoost(b) })
	add("numeric_range", "n:[5,100]", func(b float64) bluge.Query {
		return bluge.NewNumericRangeInclusiveQuery(5, 100, true, true).SetField("n").SetBoost(b)
	})
	add("date_range", "d:[2020-01-01,2021-01-01)", func(b float64) bluge.Query {
		return bluge.NewDateRangeQuery(day(2020, 1, 1), day(2021, 1, 1)).SetField("d").SetBoost(b)
	})
	add("date_range", "d:[2020-06-01,2022-01-01]", func(b float64) bluge.Query {
		return bluge.NewDateRangeInclusiveQuery(day(2020, 6, 1), day(2022, 1, 1), true, true).SetField("d").SetBoost(b)
	})
	add("geo_bounding_box", "g:box(-1,12 .. 12,-1)", func(b float64) bluge.Query {
		return bluge.NewGeoBoundingBoxQuery(-1, 12, 12, -1).SetField("g").SetBoost(b)
	})
	add("geo_bounding_box", "g:box(179,0 .. -179,-20) across the date line", func(b float64) bluge.Query {
		return bluge.NewGeoBoundingBoxQuery(179, 0, -179, -20).SetField("g").SetBoost(b)
	})
	add("geo_distance", "g:within 300km of (10,10)", func(b float64) bluge.Query {
		return bluge.NewGeoDistanceQuery(10, 10, "300km").SetField("g").SetBoost(b)
	})
	add("geo_polygon", "g:triangle (8,8) (12,8) (10,13)", func(b float64) bluge.Query {
		return bluge.NewGeoBoundingPolygonQuery([]geo.Point{{Lon: 8, Lat: 8}, {Lon: 12, Lat: 8}, {Lon: 10, Lat: 13}}).SetField("g").SetBoost(b)
	})
	add("match_all", "*", func(b float64) bluge.Query { return bluge.NewMatchAllQuery().SetBoost(b) })
	add("boolean", "must[n:[1,10]] should[*]", func(b float64) bluge.Query {
		return bluge.NewBooleanQuery().AddMust(bluge.NewNumericRangeInclusiveQuery(1, 10, true, true).SetField("n")).AddShould(bluge.NewMatchAllQuery()).SetBoost(b)
	})
	add("boolean", "should[t:fox k:al* d:[2020,2021)] not[t:lazy]", func(b float64) bluge.Query {
		return bluge.NewBooleanQuery().AddShould(bluge.NewTermQuery("fox").SetField("t"), bluge.NewPrefixQuery("al").SetField("k"),
			bluge.NewDateRangeQuery(day(2020, 1, 1), day(2021, 1, 1)).SetField("d")).AddMustNot(bluge.NewTermQuery("lazy").SetField("t")).SetBoost(b)
	})
	add("boolean", "not[t:lazy]", func(b float64) bluge.Query {
		return bluge.NewBooleanQuery().AddMustNot(bluge.NewTermQuery("lazy").SetField("t")).SetBoost(b)
	})
	return cs
}

var (
	kindList    = kindCases()
	kindReader  *bluge.Reader
	kindNum2doc map[uint64]int
	kindErr     error
)

func kindsTotal(string) int64 { return int64(len(kindList)) }

func kindsEval(idx int64, param string) *explore.Result {
	kc := kindList[idx]
	res := &explore.Result{Counts: map[string]int64{}, Outcome: kc.kind + " " + kc.desc}
	var fs failures
	defer func() { fs.into(res) }()
	if kindReader == nil && kindErr == nil {
		var docs []*bluge.Document
		for i, d := range kindDocs {
			docs = append(docs, bluge.NewDocument(fmt.Sprintf("d%d", i)).
				AddField(bluge.NewTextField("t", d.t).SearchTermPositions()).
				AddField(bluge.NewKeywordField("k", d.k)).
				AddField(bluge.NewNumericField("n", d.n)).
				AddField(bluge.NewDateTimeField("d", d.d)).
				AddField(bluge.NewGeoPointField("g", d.lon, d.lat)))
		}
		kindReader, kindNum2doc, kindErr = buildIndex(docs)
	}
	if kindErr != nil {
		res.Failure, res.Key = "harness: "+kindErr.Error(), "harness"
		return res
	}
	where := func() string { return kc.kind + " query " + kc.desc }
	var base []hit
	ignored, compared := 0, 0
	var firstBad string
	for _, b := range kindBoosts {
		b := b
		wb := func() string { return fmt.Sprintf("%s boost=%v", where(), b) }
		hits, err := runSearch(kindReader, kc.mk(b), false, kindNum2doc)
		if err != nil {
			fs.addw(rankOther, "search-error", wb, "%v", err)
			return res
		}
		hitsE, err := runSearch(kindReader, kc.mk(b), true, kindNum2doc)
		if err != nil {
			fs.addw(rankOther, "search-error", wb, "(explain) %v", err)
			return res
		}
		if len(hits) == 0 {
			fs.addw(rankOther, "harness-no-hits", wb, "the query of the fixed corpus matched nothing")
			return res
		}
		if len(hitsE) != len(hits) {
			fs.addw(rankOther, "explain-hits", wb, "%d hits with ExplainScores, %d without", len(hitsE), len(hits))
			return res
		}
		if b == 1 {
			base = hits
		} else if len(base) != len(hits) {
			fs.addw(rankOther, "boost-selection", wb, "%d hits, %d at boost 1", len(hits), len(base))
			return res
		}
		for i, h := range hits {
			hd := h.doc
			wf := func() string { return fmt.Sprintf("%s doc=%d", wb(), hd) }
			res.Evals++
			res.Nontrivial++
			if !finitePos(h.score) {
				fs.addw(rankOther, "finite-positive", wf, "score %v is not finite and positive", h.score)
			}
			he := hitsE[i]
			if he.doc != h.doc || math.Float64bits(he.score) != math.Float64bits(h.score) {
				fs.addw(rankOther, "explain-score", wf, "score with ExplainScores %v, without %v", he.score, h.score)
			}
			if he.expl == nil {
				fs.addw(rankOther, "explain-nil", wf, "no explanation")
			} else {
				if math.Float64bits(he.expl.Value) != math.Float64bits(h.score) {
					fs.addw(rankOther, "explain-value", wf, "explanation value %v, score without explanation %v", he.expl.Value, h.score)
				}
				res.Counts["explanation_nodes"] += int64(interpret(he.expl, wf, &fs, nil, res.Counts))
			}
			if b != 1 {
				if base[i].doc != h.doc {
					fs.addw(rankOther, "boost-selection", wf, "hits differ from those at boost 1")
					continue
				}
				compared++
				want := b * base[i].score
				if !within(h.score, want, 64, want) {
					if h.score == base[i].score {
						ignored++
					}
					if firstBad == "" {
						firstBad = fmt.Sprintf("%s: score %v at boost %v, score %v at boost 1 (expected %v x %v = %v, observed ratio %v)", wf(), h.score, b, base[i].score, b, base[i].score, want, h.score/base[i].score)
					}
					res.Counts["boost_not_linear"]++
				} else {
					res.Counts["boost_linear"]++
				}
			}
		}
	}
	if firstBad != "" {
		if ignored == compared {
			fs.add(rankBoost, "boost-ignored:"+kc.kind, "SetBoost has no effect on the score of a %s query: %s", kc.kind, firstBad)
		} else {
			fs.add(rankBoost, "boost-nonlinear:"+kc.kind, "the score of a %s query is not linear in its boost: %s", kc.kind, firstBad)
		}
	}
	if idx%7 == 0 {
		res.Sample = map[string]interface{}{"kind": kc.kind, "query": kc.desc, "hits_at_boost_1": len(base)}
	}
	return res
}

// ---------------------------------------------------------------- (4) sequences of searches on one live reader

// One reader obtained from a live writer (its snapshot is the writer's current
// epoch, so closed postings iterators are recycled per field) serves a sequence
// of searches with different score modes and options.  Every search must return
// exactly what the same search returns on a fresh reader of the same content.

type sstep struct {
	name   string
	scored bool
	mk     func() bluge.SearchRequest
}

func seqTerm(t string) bluge.Query { return bluge.NewTermQuery(t).SetField("t") }

var seqSteps = []sstep{
	{"term x", true, func() bluge.SearchRequest { return bluge.NewTopNSearch(10, seqTerm("x")) }},
	{"term x score=none", false, func() bluge.SearchRequest { return bluge.NewTopNSearch(10, seqTerm("x")).SetScore("none") }},
	{"and[x y]", true, func() bluge.SearchRequest {
		return bluge.NewTopNSearch(10, bluge.NewBooleanQuery().AddMust(seqTerm("x"), seqTerm("y")))
	}},
	{"and[x y] score=none", false, func() bluge.SearchRequest {
		return bluge.NewTopNSearch(10, bluge.NewBooleanQuery().AddMust(seqTerm("x"), seqTerm("y"))).SetScore("none")
	}},
	{"or[x y] score=none", false, func() bluge.SearchRequest {
		return bluge.NewTopNSearch(10, bluge.NewBooleanQuery().AddShould(seqTerm("x"), seqTerm("y"))).SetScore("none")
	}},
	{"or[x y]", true, func() bluge.SearchRequest {
		return bluge.NewTopNSearch(10, bluge.NewBooleanQuery().AddShould(seqTerm("x"), seqTerm("y")))
	}},
	{"term x explain", true, func() bluge.SearchRequest { return bluge.NewTopNSearch(10, seqTerm("x")).ExplainScores() }},
	{"term y locations", true, func() bluge.SearchRequest { return bluge.NewTopNSearch(10, seqTerm("y")).IncludeLocations() }},
	{"phrase \"x y\"", true, func() bluge.SearchRequest {
		return bluge.NewTopNSearch(10, bluge.NewMatchPhraseQuery("x y").SetField("t"))
	}},
	{"term y score=none locations", false, func() bluge.SearchRequest {
		return bluge.NewTopNSearch(10, seqTerm("y")).SetScore("none").IncludeLocations()
	}},
	{"all-matches term y", true, func() bluge.SearchRequest { return bluge.NewAllMatches(seqTerm("y")) }},
}

var seqCorpora = [][]string{
	{"x x y z", "x y y z", "y z", "x"},
	{"x y", "x x x y", "y", "x y z z", noField, ""},
}

func seqCount() int64 {
	n := int64(len(seqSteps))
	return n + n*n + n*n*n
}

func seqTotal(string) int64 { return int64(len(seqCorpora)) * seqCount() }

func seqOf(k int64) []int {
	n := int64(len(seqSteps))
	for l := 1; l <= 3; l++ {
		c := int64(1)
		for i := 0; i < l; i++ {
			c *= n
		}
		if k < c {
			out := make([]int, l)
			for i := l - 1; i >= 0; i-- {
				out[i] = int(k % n)
				k /= n
			}
			return out
		}
		k -= c
	}
	return nil
}

type shit struct {
	num   uint64
	doc   int
	score float64
	expl  *search.Explanation
	locs  string
}

type sresult struct {
	hits []shit
	err  string
}

func seqSearch(r *bluge.Reader, req bluge.SearchRequest) (res sresult) {
	defer func() {
		if p := recover(); p != nil {
			res.err = fmt.Sprintf("PANIC: %v", p)
		}
	}()
	it, err := r.Search(context.Background(), req)
	if err != nil {
		return sresult{err: err.Error()}
	}
	for {
		m, err := it.Next()
		if err != nil {
			return sresult{err: err.Error()}
		}
		if m == nil {
			break
		}
		var ls []string
		for f, tlm := range m.Locations {
			for t, l := range tlm {
				for _, x := range l {
					ls = append(ls, fmt.Sprintf("%s:%s@%d[%d,%d)", f, t, x.Pos, x.Start, x.End))
				}
			}
		}
		sort.Strings(ls)
		res.hits = append(res.hits, shit{num: m.Number, doc: -1, score: m.Score, expl: m.Explanation, locs: strings.Join(ls, " ")})
	}
	return res
}

func seqDocs(texts []string) []*bluge.Document {
	var docs []*bluge.Document
	for i, t := range texts {
		d := bluge.NewDocument(fmt.Sprintf("d%d", i))
		if t == noField {
			d.AddField(bluge.NewTextField("u", "x y"))
		} else {
			d.AddField(bluge.NewTextField("t", t).HighlightMatches())
		}
		docs = append(docs, d)
	}
	return docs
}

func numToDoc(r *bluge.Reader) (map[uint64]int, error) {
	num2doc := map[uint64]int{}
	it, err := r.Search(context.Background(), bluge.NewAllMatches(bluge.NewMatchAllQuery()))
	if err != nil {
		return nil, err
	}
	for {
		m, err := it.Next()
		if err != nil {
			return nil, err
		}
		if m == nil {
			return num2doc, nil
		}
		id := ""
		_ = m.VisitStoredFields(func(field string, value []byte) bool {
			if field == "_id" {
				id = string(value)
			}
			return true
		})
		n, err := strconv.Atoi(strings.TrimPrefix(id, "d"))
		if err != nil {
			return nil, fmt.Errorf("unexpected id %q", id)
		}
		num2doc[m.Number] = n
	}
}

func (r *sresult) resolve(num2doc map[uint64]int) {
	for i := range r.hits {
		if d, ok := num2doc[r.hits[i].num]; ok {
			r.hits[i].doc = d
		}
	}
	sort.Slice(r.hits, func(i, j int) bool { return r.hits[i].doc < r.hits[j].doc })
}

func (r *sresult) String() string {
	if r.err != "" {
		return "error " + r.err
	}
	var p []string
	for _, h := range r.hits {
		s := fmt.Sprintf("d%d=%v", h.doc, h.score)
		if h.locs != "" {
			s += "{" + h.locs + "}"
		}
		p = append(p, s)
	}
	return "[" + strings.Join(p, " ") + "]"
}

// expected results: every step on its own fresh reader (opened after the writer was closed)
var seqFresh = map[int][]sresult{}

func seqExpected(ci int) ([]sresult, error) {
	if e, ok := seqFresh[ci]; ok {
		return e, nil
	}
	dir := crashfs.New()
	dir.Points = false
	var werr error
	s := verifmc.Run(verifmc.Options{}, func() {
		w, err := bluge.OpenWriter(harness.Config(dir, harness.Opts{NoMemMerge: true}))
		if err != nil {
			werr = err
			return
		}
		b := bluge.NewBatch()
		for _, d := range seqDocs(seqCorpora[ci]) {
			b.Insert(d)
		}
		if err := w.Batch(b); err != nil {
			werr = err
		}
		if err := w.Close(); err != nil && werr == nil {
			werr = err
		}
	})
	if s.Failure != "" {
		return nil, fmt.Errorf("index build failed: %s", s.Failure)
	}
	if werr != nil {
		return nil, werr
	}
	var out []sresult
	for _, st := range seqSteps {
		r, err := bluge.OpenReader(harness.Config(dir, harness.Opts{}))
		if err != nil {
			return nil, err
		}
		res := seqSearch(r, st.mk())
		n2d, err := numToDoc(r)
		if err != nil {
			return nil, err
		}
		res.resolve(n2d)
		_ = r.Close()
		out = append(out, res)
	}
	seqFresh[ci] = out
	return out, nil
}

func seqEval(idx int64, param string) *explore.Result {
	ci := int(idx / seqCount())
	seq := seqOf(idx % seqCount())
	var names []string
	for _, s := range seq {
		names = append(names, seqSteps[s].name)
	}
	desc := fmt.Sprintf("docs=%q live reader, searches in order: %s", seqCorpora[ci], strings.Join(names, " ; "))
	res := &explore.Result{Counts: map[string]int64{}, Flags: map[string]bool{}, Outcome: fmt.Sprint(idx)}
	var fs failures
	defer func() { fs.into(res) }()
	want, err := seqExpected(ci)
	if err != nil {
		res.Failure, res.Key = "harness: "+err.Error(), "harness"
		return res
	}
	got := make([]sresult, len(seq))
	var herr error
	current := true
	dir := crashfs.New()
	dir.Points = false
	s := verifmc.Run(verifmc.Options{}, func() {
		w, err := bluge.OpenWriter(harness.Config(dir, harness.Opts{NoMemMerge: true}))
		if err != nil {
			herr = err
			return
		}
		defer w.Close()
		b := bluge.NewBatch()
		for _, d := range seqDocs(seqCorpora[ci]) {
			b.Insert(d)
		}
		if err := w.Batch(b); err != nil {
			herr = err
			return
		}
		r, err := w.Reader()
		if err != nil {
			herr = err
			return
		}
		defer r.Close()
		isCurrent := func() bool {
			e, _ := w.VerifIndexWriter().VerifRootSegmentIDs()
			return e == r.VerifSnapshot().VerifEpoch()
		}
		for i, st := range seq {
			if !isCurrent() {
				current = false
			}
			got[i] = seqSearch(r, seqSteps[st].mk())
		}
		if !isCurrent() {
			current = false
		}
		n2d, err := numToDoc(r)
		if err != nil {
			herr = err
			return
		}
		for i := range got {
			got[i].resolve(n2d)
		}
	})
	if s.Failure != "" {
		fs.add(rankOther, "sequence-crash:"+desc, "%s: %s", desc, s.Failure)
		return res
	}
	if herr != nil {
		res.Failure, res.Key = "harness: "+desc+": "+herr.Error(), "harness"
		return res
	}
	if current {
		res.Counts["sequences_on_the_current_epoch"]++
		res.Nontrivial = 1
	} else {
		res.Counts["sequences_on_a_superseded_epoch"]++
	}
	for i, st := range seq {
		step := seqSteps[st]
		g, w := &got[i], &want[st]
		i := i
		wheref := func() string { return fmt.Sprintf("%s: search %d (%s)", desc, i+1, step.name) }
		res.Evals++
		if g.err != "" || w.err != "" {
			if g.err != w.err {
				fs.addw(rankOther, "sequence-error", wheref, "%s, on a fresh reader %s", g, w)
			}
			continue
		}
		same := len(g.hits) == len(w.hits)
		for j := 0; same && j < len(g.hits); j++ {
			a, b := g.hits[j], w.hits[j]
			if a.doc != b.doc || a.locs != b.locs {
				same = false
			}
			if step.scored && math.Float64bits(a.score) != math.Float64bits(b.score) {
				same = false
			}
			if (a.expl == nil) != (b.expl == nil) || (a.expl != nil && math.Float64bits(a.expl.Value) != math.Float64bits(b.expl.Value)) {
				same = false
			}
		}
		if !same {
			fs.addw(rankOther, "sequence", wheref, "returned %s, the same search on a fresh reader of the same content returns %s", g, w)
		}
		if !step.scored {
			continue
		}
		for _, h := range g.hits {
			h := h
			wf := func() string { return fmt.Sprintf("%s doc=%d", wheref(), h.doc) }
			if !finitePos(h.score) {
				fs.addw(rankOther, "sequence-finite-positive", wf, "score %v is not finite and positive", h.score)
			}
			if h.expl != nil {
				if math.Float64bits(h.expl.Value) != math.Float64bits(h.score) {
					fs.addw(rankOther, "sequence-explain-value", wf, "explanation value %v, score %v", h.expl.Value, h.score)
				}
				res.Counts["explanation_nodes"] += int64(interpret(h.expl, wf, &fs, nil, res.Counts))
			}
		}
	}
	if idx%499 == 0 {
		res.Sample = map[string]interface{}{"sequence": desc, "last_result": got[len(got)-1].String(), "reader_epoch_is_current": current}
	}
	return res
}

func main() {
	log.SetOutput(io.Discard)
	buildQueries()
	explore.RegisterEnum("c17-direct", directTotal, directEval)
	explore.RegisterEnum("c17-corpora", corporaTotal, corporaEval)
	explore.RegisterEnum("c17-kinds", kindsTotal, kindsEval)
	explore.RegisterEnum("c17-sequences", seqTotal, seqEval)
	explore.WorkerMain()
	c := checkmain.New("C17")
	if v := c.IsReplay(); v != nil {
		c.RunReplay(v)
	}
	c.Rule = "direct: every (b,k1) in {(0.75,1.2),(0.5,2)} x docCount in {1..16, 10^6, 2^40} x 8 average field lengths (total tokens N, N+1, 2N+1, 4N, 8N, 100N, 10^4 N, 10^4 N+7) x docFreq in {1..min(8,N), N} x boost {1,0.5,2,7} x freq 1..8 x docLen {1..8,100,10^4}; non-trivial = statistics some corpus can have (docLen >= freq, total tokens >= docFreq+freq-1). corpora: every assignment of 4 documents over the document alphabet (quick 5, thorough 8 texts over x,y,z including an empty field and a document without the field) x every query of the family (5 term leaves with boosts 1,2,0.5; all depth-1 booleans with must in {-,[x],[x y],[x^2],[y z]} x should in {-,[y],[y z],[y^0.5 z],[x x]} x minShould 0..|should| x mustNot in {-,[z],[x]} x boost {1,3}; depth-2 booleans whose clauses come from a pool of 2 leaves and 8 inner booleans, <=2 must, <=2 should with every minShould, <=1 mustNot, boost {1,0.5}); non-trivial = the query has at least one hit. kinds: 42 queries covering every scoring query kind (term, match or/and/fuzzy, match phrase, multi phrase, prefix, wildcard, regexp, fuzzy, term range, numeric range, date range, geo box/distance/polygon, match all, mixed booleans) x boosts {1,2,0.5,7} on a fixed 6-document corpus. sequences: 2 corpora x every sequence of 1..3 searches over 11 searches of one field (term scored / score=none / with ExplainScores / with IncludeLocations / score=none with locations / through AllMatches, conjunction and disjunction scored and score=none, phrase) on one Reader from Writer.Reader() while the writer lives; non-trivial = the reader's snapshot was the writer's current epoch throughout (closed postings iterators are recycled)"
	c.Explanation = "bounded-exhaustive enumeration. Oracle (1) BM25 laws on the direct grid and between the leaf scores of every corpus: finite and > 0, strictly increasing in freq, strictly decreasing in field length, non-increasing in docFreq at fixed docCount, linear in boost (8 ulps at the saturation value boost*ln(2+N)). (2) a reference evaluator of the boolean set semantics over the tokenised corpus selects the hits and computes boost x sum of the matching parts from leaf scores obtained by separate leaf searches; compared with the returned score within 2 ulps per query node; score and explanation value with ExplainScores are compared bit for bit with the score without it. (3) an interpreter keyed on the message text re-evaluates every explanation node from its children (sum of:, computed as boost * sum, boost, constant, the idf and tf formulas as printed, score = [boost *] idf * tf, statistic leaves; an unknown message is a failure); for term queries the statistics printed (freq, n, N, dl, avgdl, boost, k1, b) are compared with the corpus. (4) differential: every search of a sequence on one live reader must return the hits, scores, explanation values and locations (bit for bit) that the same search returns on a fresh reader of the same content, and scored hits must be finite and positive."
	c.Assumptions = []string{
		"ulps are measured at the magnitude of the largest intermediate: 1 for tf (a value in (0,1) computed as 1 - 1/(1+x)), boost*idf for a term score (computed as w - w/(1+x)), the sum of the children for sums; tolerance 4 ulps (sum: children+1)",
		"a must-not-only boolean query scores boost x 1: its only matching part is the implicit match-all (constant 1), as the comment in BooleanQuery.Searcher says",
		"N in the idf explanation is read as its message says: the number of documents that have the field, including a field without tokens",
		"a case that fails in several ways reports the failure of the most specific class first; the idf message/value mismatch (key explain:idf-formula) is reported by every case that has nothing else to report",
		"composite fields: the field length and term frequencies of a composite field are those of the concatenation of its source fields (judged differentially against the unsplit field)",
		"all corpora are single-segment indexes without deletions (layout independence of scores is C08's subject)",
	}
	c.AddEnum(explore.Enumerate(explore.EnumConfig{Name: "c17-direct", Param: c.Tier, Budget: c.PickD(8*time.Second, 2*time.Minute)}))
	c.AddEnum(explore.Enumerate(explore.EnumConfig{Name: "c17-corpora", Param: c.Tier, Budget: c.PickD(28*time.Second, 8*time.Minute)}))
	c.AddEnum(explore.Enumerate(explore.EnumConfig{Name: "c17-composite", Param: c.Tier, Budget: c.PickD(10*time.Second, 3*time.Minute)}))
	c.AddEnum(explore.Enumerate(explore.EnumConfig{Name: "c17-kinds", Param: c.Tier, Budget: c.PickD(5*time.Second, time.Minute), Chunk: 1}))
	c.AddEnum(explore.Enumerate(explore.EnumConfig{Name: "c17-sequences", Param: c.Tier, Budget: c.PickD(8*time.Second, 2*time.Minute)}))
	c.Extra["queries_per_corpus"] = len(queriesOf(c.Tier))
	c.Finish()
}

package main

import (
	"fmt"
	"os"
	"strings"

	"github.com/blugelabs/bluge"
	"github.com/blugelabs/bluge/verifmc"

	"verif/checkmain"
	"verif/crashcheck"
	"verif/explore"
	"verif/harness"
)

var lockOps = []string{"openW1", "openW2", "batchW1", "closeW1", "closeW2", "openR"}

// lockProtocol enumerates every operation sequence of length <= 5 on the real
// FileSystemDirectory; reference: the lock is held by at most one writer.
func lockProtocol(c *checkmain.Check) {
	total, nontrivial := 0, 0
	var sample []string
	var seq []int
	var rec func(depth int)
	failed := false
	rec = func(depth int) {
		if failed {
			return
		}
		if len(seq) > 0 {
			total++
			f, interesting := runLockSeq(seq)
			if interesting {
				nontrivial++
			}
			if f != "" {
				failed = true
				var names []string
				for _, o := range seq {
					names = append(names, lockOps[o])
				}
				c.AddViolation(explore.Violation{Scenario: "c11-lock", Failure: strings.Join(names, ",") + ": " + f, Key: "lock:" + strings.Join(names, ",")})
				return
			}
			if total%500 == 1 {
				var names []string
				for _, o := range seq {
					names = append(names, lockOps[o])
				}
				sample = append(sample, strings.Join(names, ","))
			}
		}
		if depth == 5 {
			return
		}
		for o := range lockOps {
			seq = append(seq, o)
			rec(depth + 1)
			seq = seq[:len(seq)-1]
		}
	}
	rec(0)
	c.AddCounts(int64(total), int64(total), int64(total), int64(total), int64(nontrivial))
	c.AddSample(map[string]interface{}{"lock_protocol_sequences": total, "examples": sample})
	fmt.Printf("[C11] lock protocol: %d sequences on the real directory, %d with a refused or re-acquired lock\n", total, nontrivial)
}

func runLockSeq(seq []int) (failure string, interesting bool) {
	root, err := os.MkdirTemp("/dev/shm", "verif-c11-")
	if err != nil {
		return "harness: " + err.Error(), false
	}
	defer os.RemoveAll(root)
	s := verifmc.Run(verifmc.Options{MaxSteps: 1 << 20}, func() {
		var w [2]*bluge.Writer
		holder := -1 // model: which writer holds the lock
		batches := 0
		for _, o := range seq {
			switch lockOps[o] {
			case "openW1", "openW2":
				i := 0
				if lockOps[o] == "openW2" {
					i = 1
				}
				if w[i] != nil {
					continue // already open in this sequence: skip
				}
				nw, err := bluge.OpenWriter(crashcheck.DirOf(root))
				if holder == -1 {
					if err != nil {
						failure = fmt.Sprintf("%s refused although no writer holds the directory: %v", lockOps[o], err)
						verifmc.Exit()
					}
					w[i] = nw
					holder = i
				} else {
					interesting = true
					if err == nil {
						failure = fmt.Sprintf("%s succeeded although writer %d holds the directory", lockOps[o], holder+1)
						_ = nw.Close()
						verifmc.Exit()
					}
				}
			case "batchW1":
				if w[0] == nil {
					continue
				}
				batches++
				b := harness.MakeBatch(harness.BatchSpec{{Kind: 'U', ID: "a", Ver: fmt.Sprint(batches)}})
				if err := w[0].Batch(b); err != nil {
					failure = fmt.Sprintf("the first writer was harmed: batch failed: %v", err)
					verifmc.Exit()
				}
			case "closeW1", "closeW2":
				i := 0
				if lockOps[o] == "closeW2" {
					i = 1
				}
				if w[i] == nil {
					continue
				}
				if err := w[i].Close(); err != nil {
					failure = fmt.Sprintf("%s: %v", lockOps[o], err)
					verifmc.Exit()
				}
				w[i] = nil
				if holder == i {
					holder = -1
					interesting = true
				}
			case "openR":
				r, err := bluge.OpenReader(crashcheck.DirOf(root))
				if err != nil {
					if batches > 0 {
						failure = "OpenReader failed although batches were acknowledged: " + err.Error()
						verifmc.Exit()
					}
					continue
				}
				c, err := harness.Observe(r)
				_ = r.Close()
				if err != nil {
					failure = "reader: " + err.Error()
					verifmc.Exit()
				}
				want := ""
				if batches > 0 {
					want = fmt.Sprintf("a=%d", batches)
				}
				if c != want {
					failure = fmt.Sprintf("reader shows {%s}, expected {%s}", c, want)
					verifmc.Exit()
				}
			}
		}
		for i := range w {
			if w[i] != nil {
				if err := w[i].Close(); err != nil {
					failure = "final close: " + err.Error()
					verifmc.Exit()
				}
			}
		}
		// after everything was closed the directory can be reopened at once
		nw, err := bluge.OpenWriter(crashcheck.DirOf(root))
		if err != nil {
			failure = "reopen after close refused: " + err.Error()
			verifmc.Exit()
		}
		_ = nw.Close()
		// a refused OpenWriter leaves its analysis workers waiting for ever (they
		// are started before the lock is tried and nothing stops them); that leak
		// is not what this property is about, so the execution is ended here
		verifmc.Exit()
	})
	if failure != "" {
		return failure, interesting
	}
	return s.Failure, interesting
}

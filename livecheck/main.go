package livecheck

import (
	"io"
	"log"
	"os"
	"strings"
	"time"

	"github.com/blugelabs/bluge/verifmc"

	"verif/checkmain"
	"verif/crashcheck"
	"verif/explore"
)

// Plan of one check built on this package.
type Plan struct {
	ID          string
	Oracle      Oracle
	Quick       []string // scenario names of the quick tier (bound QuickBound)
	QuickDeep   []string // scenarios explored one deviation deeper in the quick tier, with what is left of the budget
	Thorough    []string
	QuickBound  int
	ThorBound   int
	QuickBudget time.Duration
	ThorBudget  time.Duration
	Rule        string
	Explanation string
	Assumptions []string
	Post        func(c *checkmain.Check)
}

// Main runs a check.
func Main(p Plan) {
	log.SetOutput(io.Discard)
	key := strings.ToLower(p.ID)
	explore.Register(key, func(opts verifmc.Options, param string) (*verifmc.Sched, *explore.Result) {
		if strings.HasPrefix(param, "faulty/") {
			// the file invariants under I/O faults: every directory operation may fail
			parts := strings.Split(param, "/")
			plan := crashcheck.FaultPlan{}
			for _, f := range parts[2:] {
				switch f {
				case "sticky":
					plan.Sticky = true
				case "settle":
					plan.Settle = true
				case "closefault":
					plan.CloseFaults = true
				case "nohold":
					plan.NoHold = true
				}
			}
			return crashcheck.RunFaulty(key+"/"+param, crashcheck.Scenarios[parts[1]], crashcheck.Mode{FilesOnly: true}, plan, opts)
		}
		return Run(key+"/"+param, Scenarios[param], p.Oracle, opts)
	})
	explore.WorkerMain()
	c := checkmain.New(p.ID)
	if v := c.IsReplay(); v != nil {
		c.RunReplay(v)
	}
	c.Rule, c.Explanation, c.Assumptions = p.Rule, p.Explanation, p.Assumptions
	names, bound, budget := p.Quick, p.QuickBound, p.QuickBudget
	if c.Thorough() {
		names, bound, budget = p.Thorough, p.ThorBound, p.ThorBudget
	}
	if os.Getenv("VERIF_ONLY") != "" {
		names = strings.Split(os.Getenv("VERIF_ONLY"), ",")
	}
	deadline := time.Now().Add(budget)
	for i, n := range names {
		// what is left of the budget is shared by the scenarios still to run
		per := time.Until(deadline) / time.Duration(len(names)-i)
		if per < 2*time.Second {
			per = 2 * time.Second
		}
		st := explore.Explore(explore.Config{Scenario: key, Param: n, Bound: bound, Budget: per})
		c.AddExplore(st)
		if c.Failed() {
			break
		}
	}
	if !c.Thorough() && !c.Failed() && os.Getenv("VERIF_ONLY") == "" {
		for i, n := range p.QuickDeep {
			per := time.Until(deadline) / time.Duration(len(p.QuickDeep)-i)
			if per < 3*time.Second {
				break // nothing left of the budget: the deeper pass is skipped, not failed
			}
			st := explore.Explore(explore.Config{Scenario: key, Param: n, Bound: bound + 1, Budget: per})
			c.AddExplore(st)
			if c.Failed() {
				break
			}
		}
	}
	if p.Post != nil && !c.Failed() {
		p.Post(c)
	}
	c.Finish()
}

//go:build go1.21

package searcher

// Accessors used by check C10 (overlay only; this file is never part of the
// repository): the range decomposition behind numeric and date range queries.

// VerifSplitInt64Range runs splitInt64Range for the closed interval
// [minBound, maxBound] and enumerates the terms of all resulting ranges that
// the filter accepts (filter == nil accepts every term), exactly as
// NewNumericRangeSearcher does with the field dictionary.
func VerifSplitInt64Range(minBound, maxBound int64, precisionStep uint, filter func(term []byte) bool) [][]byte {
	tr := splitInt64Range(minBound, maxBound, precisionStep)
	if filter == nil {
		return tr.Enumerate(nil)
	}
	return tr.Enumerate(filterFunc(filter))
}

// VerifSplitInt64RangeBounds returns the start and end term of every range
// produced by splitInt64Range.
func VerifSplitInt64RangeBounds(minBound, maxBound int64, precisionStep uint) (starts, ends [][]byte) {
	for _, r := range splitInt64Range(minBound, maxBound, precisionStep) {
		starts = append(starts, r.startTerm)
		ends = append(ends, r.endTerm)
	}
	return starts, ends
}

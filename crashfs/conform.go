package crashfs

import (
	"bytes"
	"crypto/sha256"
	"errors"
	"fmt"
	"io"
	"os"
	"path/filepath"
	"sort"
	"strconv"
	"strings"

	"github.com/blugelabs/bluge/index"
)

// TraceHash identifies a storage trace by its directory operations.
func TraceHash(trace []Event) [32]byte {
	h := sha256.New()
	for _, e := range trace {
		switch e.Kind {
		case "persist", "remove", "load", "closeh", "lock", "unlock":
			fmt.Fprintf(h, "%s|%s|%s|%d|%d|", e.Kind, e.Name, e.Err, e.Wrote, e.Handle)
			h.Write(e.Data)
		default:
			fmt.Fprintf(h, "%s|%d|%s|", e.Kind, e.Batch, e.Err)
		}
	}
	var out [32]byte
	copy(out[:], h.Sum(nil))
	return out
}

type replayWriter struct {
	data  []byte
	wrote int
	fail  bool
}

func (w *replayWriter) WriteTo(out io.Writer, _ chan struct{}) (int64, error) {
	if w.wrote > len(w.data) {
		w.wrote = len(w.data)
	}
	n, err := out.Write(w.data[:w.wrote])
	if err != nil {
		return int64(n), err
	}
	if w.fail {
		return int64(n), errors.New("injected")
	}
	return int64(n), nil
}

func splitName(name string) (kind string, id uint64, err error) {
	i := strings.LastIndexByte(name, '.')
	if i < 0 {
		return "", 0, fmt.Errorf("bad name %q", name)
	}
	id, err = strconv.ParseUint(name[:i], 16, 64)
	return name[i:], id, err
}

// ReplayOnFS replays the directory operations of a trace against a real
// index.FileSystemDirectory rooted at root (which must hold the initial
// files) and compares, after every operation, the outcome (success/failure)
// and the directory content with what the model recorded.  A non-nil error
// means the crashfs model misrepresents the real directory.
func ReplayOnFS(root string, initial map[string][]byte, trace []Event) error {
	if err := os.MkdirAll(root, 0o700); err != nil {
		return err
	}
	for n, b := range initial {
		if err := os.WriteFile(filepath.Join(root, n), b, 0o600); err != nil {
			return err
		}
	}
	dir := index.NewFileSystemDirectory(root)
	model := map[string][]byte{}
	for k, v := range initial {
		model[k] = v
	}
	handles := map[int]io.Closer{}
	defer func() {
		for _, c := range handles {
			_ = c.Close()
		}
	}()
	compare := func(step int, e Event) error {
		ents, err := os.ReadDir(root)
		if err != nil {
			return err
		}
		var have []string
		for _, de := range ents {
			if de.Name() == "bluge.pid" {
				continue
			}
			have = append(have, de.Name())
		}
		var want []string
		for n := range model {
			want = append(want, n)
		}
		sort.Strings(have)
		sort.Strings(want)
		if strings.Join(have, ",") != strings.Join(want, ",") {
			return fmt.Errorf("after event %d (%s %s): real directory holds [%s], model holds [%s]", step, e.Kind, e.Name, strings.Join(have, ","), strings.Join(want, ","))
		}
		for _, n := range have {
			b, err := os.ReadFile(filepath.Join(root, n))
			if err != nil {
				return err
			}
			if !bytes.Equal(b, model[n]) {
				return fmt.Errorf("after event %d (%s %s): content of %s differs between real directory (%d bytes) and model (%d bytes)", step, e.Kind, e.Name, n, len(b), len(model[n]))
			}
		}
		return nil
	}
	for i, e := range trace {
		switch e.Kind {
		case "persist":
			kind, id, err := splitName(e.Name)
			if err != nil {
				return err
			}
			rw := &replayWriter{data: e.Data, wrote: len(e.Data)}
			if e.Err != "" && e.Err != "locked" {
				rw.wrote, rw.fail = e.Wrote, true
			}
			rerr := dir.Persist(kind, id, rw, make(chan struct{}))
			if (rerr != nil) != (e.Err != "") {
				return fmt.Errorf("event %d persist %s: real directory returned %v, model recorded %q", i, e.Name, rerr, e.Err)
			}
			if e.Err == "" {
				model[e.Name] = e.Data
			} else if e.Err != "locked" {
				delete(model, e.Name)
			}
		case "remove":
			if e.Err == ErrInjected.Error() {
				continue
			}
			kind, id, err := splitName(e.Name)
			if err != nil {
				return err
			}
			rerr := dir.Remove(kind, id)
			if (rerr != nil) != (e.Err != "") {
				return fmt.Errorf("event %d remove %s: real directory returned %v, model recorded %q", i, e.Name, rerr, e.Err)
			}
			if e.Err == "" {
				delete(model, e.Name)
			}
		case "load":
			if e.Err == ErrInjected.Error() {
				continue
			}
			kind, id, err := splitName(e.Name)
			if err != nil {
				return err
			}
			data, closer, rerr := dir.Load(kind, id)
			if (rerr != nil) != (e.Err != "") {
				return fmt.Errorf("event %d load %s: real directory returned %v, model recorded %q", i, e.Name, rerr, e.Err)
			}
			if rerr == nil {
				b, _ := data.Read(0, data.Len())
				if !bytes.Equal(b, model[e.Name]) {
					return fmt.Errorf("event %d load %s: real directory returned %d bytes, model %d", i, e.Name, len(b), len(model[e.Name]))
				}
				handles[e.Handle] = closer
			}
		case "closeh":
			if c := handles[e.Handle]; c != nil {
				if err := c.Close(); err != nil {
					return fmt.Errorf("event %d close handle %d: %v", i, e.Handle, err)
				}
				delete(handles, e.Handle)
			}
		case "lock":
			ld := dir
			if e.Err != "" {
				ld = index.NewFileSystemDirectory(root) // a second writer has its own directory object
			}
			rerr := ld.Lock()
			if (rerr != nil) != (e.Err != "") {
				return fmt.Errorf("event %d lock: real directory returned %v, model recorded %q", i, rerr, e.Err)
			}
		case "unlock":
			if err := dir.Unlock(); err != nil {
				return fmt.Errorf("event %d unlock: %v", i, err)
			}
		default:
			continue
		}
		if err := compare(i, e); err != nil {
			return err
		}
	}
	return nil
}

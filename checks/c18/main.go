// C18: analysis is total, deterministic and offset-correct on any bytes.
//
// Bounded-exhaustive enumeration: for every configuration (bundled analyzer,
// tokenizer alone, char filter + simple tokenizer, token filter over its
// parameter grid behind simple tokenizers) every string of <= L symbols over a
// per-configuration alphabet, plus the stemmers' own rule strings as words.
package main

import (
	"context"
	"fmt"
	"io"
	"log"
	"os"
	"runtime/debug"
	"sort"
	"strconv"
	"strings"
	"sync/atomic"
	"time"
	"unicode/utf8"

	"github.com/blugelabs/bluge"
	"github.com/blugelabs/bluge/analysis"
	"github.com/blugelabs/bluge/verifmc"

	"verif/checkmain"
	"verif/crashfs"
	"verif/explore"
	"verif/harness"
)

var configs = buildConfigs()

// failure kinds of the analysis enumeration, one enumeration case per
// (configuration, kind) so that every kind gets its own Key
var kinds = []string{"panic", "nonterm", "nondet", "posincr", "offsets", "slice", "reference"}

const (
	kPanic = iota
	kNonterm
	kNondet
	kPosIncr
	kOffsets
	kSlice
	kReference
)

// lengths per configuration class: quick, thorough
func classL(class, tier string) int {
	thorough := tier == "thorough"
	switch class {
	case "tokenizer":
		if thorough {
			return 7
		}
		return 5
	case "analyzer", "charfilter", "langfilter":
		if thorough {
			return 6
		}
		return 5
	}
	// the parameter grids of the configurable filters
	if thorough {
		return 5
	}
	return 4
}

func inputsOf(c *config, tier string) *inputSet {
	s := &inputSet{alphas: c.alphas, L: classL(c.class, tier)}
	if len(c.tables) > 0 {
		s.words = ruleWords(c.tables, c.fill[0], c.fill[1], tier == "thorough")
	}
	s.words = append(s.words, c.extra...)
	return s
}

// ---------------------------------------------------------------- oracle

type tok struct {
	term             string
	start, end, incr int
	typ              analysis.TokenType
	kw               bool
}

func snapshot(ts analysis.TokenStream) []tok {
	out := make([]tok, len(ts))
	for i, t := range ts {
		if t == nil {
			out[i] = tok{term: "<nil token>", start: -1 << 30}
			continue
		}
		out[i] = tok{string(t.Term), t.Start, t.End, t.PositionIncr, t.Type, t.KeyWord}
	}
	return out
}

func showToks(ts []tok) string {
	var parts []string
	for _, t := range ts {
		parts = append(parts, fmt.Sprintf("{%q [%d,%d) +%d type=%d}", t.term, t.start, t.end, t.incr, t.typ))
	}
	return "[" + strings.Join(parts, " ") + "]"
}

func equalToks(a, b []tok) bool {
	if len(a) != len(b) {
		return false
	}
	for i := range a {
		if a[i] != b[i] {
			return false
		}
	}
	return true
}

type finding struct {
	input string
	what  string
}

// analyse runs the analyzer on a private copy of the input and reports the
// tokens and the length of the text the tokenizer saw.
func analyse(a *analysis.Analyzer, in string) (toks []tok, seen int, pan string) {
	defer func() {
		if r := recover(); r != nil {
			st := string(debug.Stack())
			pan = fmt.Sprintf("%v", r) + " @ " + panicSite(st)
		}
	}()
	seen = len(in)
	if len(a.CharFilters) > 0 {
		f := []byte(in)
		for _, cf := range a.CharFilters {
			f = cf.Filter(f)
		}
		seen = len(f)
	}
	toks = snapshot(a.Analyze([]byte(in)))
	return
}

// panicSite extracts the first bluge / dependency frame below the panic.
func panicSite(stack string) string {
	lines := strings.Split(stack, "\n")
	for i, l := range lines {
		if strings.HasPrefix(l, "panic(") {
			for j := i + 2; j+1 < len(lines); j += 2 {
				fn := lines[j]
				if strings.Contains(fn, "runtime.") {
					continue
				}
				if k := strings.LastIndex(fn, "("); k > 0 {
					fn = fn[:k]
				}
				if k := strings.LastIndex(fn, "/"); k >= 0 {
					fn = fn[k+1:]
				}
				return fn
			}
		}
	}
	return "?"
}

type evalState struct {
	cfg       *config
	a         *analysis.Analyzer
	first     [7]*finding
	inputs    int64
	withTok   int64
	tokens    int64
	zeroIncr  int64 // tokens with position increment 0
	first0    int64 // inputs whose first token has increment 0
	rewritten int64 // tokens whose term is not the input slice at their offsets
	digest    uint64
	sample    string
}

func (st *evalState) record(kind int, in, what string) {
	if st.first[kind] == nil {
		st.first[kind] = &finding{in, what}
	}
}

// checkOne judges one input.
func (st *evalState) checkOne(in string) {
	st.inputs++
	t1, seen, p1 := analyse(st.a, in)
	if p1 != "" {
		st.record(kPanic, in, "panic: "+p1)
		return
	}
	t2, _, p2 := analyse(st.a, in)
	if p2 != "" {
		st.record(kPanic, in, "panic on the second call only: "+p2)
		return
	}
	if !equalToks(t1, t2) {
		st.record(kNondet, in, fmt.Sprintf("two calls differ: %s then %s", showToks(t1), showToks(t2)))
	}
	if len(t1) > 0 {
		st.withTok++
		if t1[0].incr == 0 {
			st.first0++
		}
	}
	h := uint64(14695981039346656037)
	mix := func(v uint64) { h = (h ^ v) * 1099511628211 }
	for i, t := range t1 {
		st.tokens++
		if t.incr == 0 {
			st.zeroIncr++
		}
		for k := 0; k < len(t.term); k++ {
			mix(uint64(t.term[k]))
		}
		mix(uint64(t.start)<<40 ^ uint64(t.end)<<20 ^ uint64(t.incr)<<8 ^ uint64(t.typ) ^ 1<<63)
		if t.incr < 0 {
			st.record(kPosIncr, in, fmt.Sprintf("token %d has position increment %d < 0: %s", i, t.incr, showToks(t1)))
		}
		if !(0 <= t.start && t.start <= t.end && t.end <= seen) {
			st.record(kOffsets, in, fmt.Sprintf("token %d has offsets [%d,%d) outside 0 <= start <= end <= %d (length of the text the tokenizer saw): %s", i, t.start, t.end, seen, showToks(t1)))
		} else if t.end <= len(in) && t.term != in[t.start:t.end] {
			// the term is not the input slice at its offsets: legitimate for
			// filters (counted: shows that rules fire), a violation for a
			// tokenizer alone
			st.rewritten++
			if st.cfg.pure {
				st.record(kSlice, in, fmt.Sprintf("token %d of a pure tokenizer has term %q but input[%d:%d] = %q: %s", i, t.term, t.start, t.end, in[t.start:t.end], showToks(t1)))
			}
		}
	}
	st.digest = st.digest*1099511628211 ^ h
	if st.cfg.ref != nil {
		if want, ok := st.cfg.ref(in); ok {
			same := len(want) == len(t1)
			for i := 0; same && i < len(want); i++ {
				same = want[i].term == t1[i].term && want[i].start == t1[i].start && want[i].end == t1[i].end && t1[i].incr == 1
			}
			if !same {
				st.record(kReference, in, fmt.Sprintf("tokens %s differ from the documented tokenization %s (terms, byte offsets, increment 1)", showToks(t1), showToks(want)))
			}
		}
	}
	if st.sample == "" && len(t1) >= 2 && len(in) >= 4 {
		st.sample = fmt.Sprintf("%s: %q -> %s", st.cfg.name, in, showToks(t1))
	}
}

const hangAfter = 10 * time.Second

// evalConfig walks the whole input space of a configuration in a worker
// goroutine; the calling goroutine is the watchdog.
func evalConfig(c *config, tier string) *evalState {
	st := &evalState{cfg: c}
	func() {
		defer func() {
			if r := recover(); r != nil {
				st.record(kPanic, "", fmt.Sprintf("constructing the configuration panicked: %v", r))
			}
		}()
		st.a = c.build()
	}()
	if st.a == nil {
		return st
	}
	set := inputsOf(c, tier)
	from := 0
	for {
		var cur atomic.Int64
		cur.Store(-1)
		done := make(chan *evalState, 1)
		seg := &evalState{cfg: c, a: st.a}
		start := from
		go func() {
			set.each(start, func(i, syms int, in string) bool {
				cur.Store(int64(i))
				seg.checkOne(in)
				return true
			})
			done <- seg
		}()
		hung := int64(-1)
		last, lastChange := int64(-2), time.Now()
		tick := time.NewTicker(250 * time.Millisecond)
	wait:
		for {
			select {
			case <-done:
				break wait
			case <-tick.C:
				if v := cur.Load(); v != last {
					last, lastChange = v, time.Now()
				} else if v >= 0 && time.Since(lastChange) > hangAfter {
					hung = v
					break wait
				}
			}
		}
		tick.Stop()
		if hung < 0 {
			st.merge(seg)
			return st
		}
		// the worker goroutine is stuck in input number `hung`: it is abandoned
		// (its statistics are lost), the input is tried once more, and the
		// enumeration continues behind it
		st.merge(seg) // what it found before it got stuck
		var in string
		set.each(int(hung), func(i, syms int, s string) bool { in = s; return false })
		if reproducesHang(st.a, in) {
			st.record(kNonterm, in, fmt.Sprintf("analysis did not return within %v (twice)", hangAfter))
		}
		from = int(hung) + 1
	}
}

func reproducesHang(a *analysis.Analyzer, in string) bool {
	done := make(chan bool, 1)
	go func() {
		analyse(a, in)
		done <- true
	}()
	select {
	case <-done:
		return false
	case <-time.After(hangAfter):
		return true
	}
}

func (st *evalState) merge(o *evalState) {
	for k := range st.first {
		if st.first[k] == nil {
			st.first[k] = o.first[k]
		}
	}
	st.inputs += o.inputs
	st.withTok += o.withTok
	st.tokens += o.tokens
	st.zeroIncr += o.zeroIncr
	st.first0 += o.first0
	st.rewritten += o.rewritten
	st.digest ^= o.digest
	if st.sample == "" {
		st.sample = o.sample
	}
}

// ---------------------------------------------------------------- enumeration 1: analysis laws

var (
	cacheCfg    = -1
	cacheTier   string
	cacheState  *evalState
	cacheServed map[int]bool
)

func anTotal(string) int64 { return int64(len(configs) * len(kinds)) }

func anEval(idx int64, tier string) *explore.Result {
	ci, kind := int(idx)/len(kinds), int(idx)%len(kinds)
	c := &configs[ci]
	fresh := false
	if cacheCfg != ci || cacheTier != tier || cacheServed[kind] {
		cacheState = evalConfig(c, tier)
		cacheCfg, cacheTier, cacheServed = ci, tier, map[int]bool{}
		fresh = true
	}
	cacheServed[kind] = true
	st := cacheState
	res := &explore.Result{Counts: map[string]int64{}}
	if fresh {
		// the statistics of a configuration are accounted once, to the case that computed them
		res.Evals = st.inputs
		res.Nontrivial = st.withTok
		res.Outcome = fmt.Sprintf("%s:%x", c.name, st.digest)
		res.Counts["inputs"] = st.inputs
		res.Counts["inputs_with_tokens"] = st.withTok
		res.Counts["tokens"] = st.tokens
		res.Counts["tokens_with_increment_0"] = st.zeroIncr
		res.Counts["inputs_first_token_increment_0"] = st.first0
		res.Counts["tokens_term_differs_from_input_slice_"+c.class] = st.rewritten
		res.Counts["configs_"+c.class]++
		if ci%40 == 0 && st.sample != "" {
			res.Sample = st.sample
		}
	}
	if f := st.first[kind]; f != nil {
		res.Key = fmt.Sprintf("%s %s input=%x", c.name, kinds[kind], f.input)
		res.Failure = fmt.Sprintf("%s on input %q (hex %x): %s", c.name, f.input, f.input, f.what)
	}
	return res
}

// ---------------------------------------------------------------- enumeration 2: self-match

const selfMatchSyms = 3

func smTotal(string) int64 { return int64(len(configs)) }

func smInputs(c *config, tier string) []string {
	set := &inputSet{alphas: c.alphas, L: selfMatchSyms}
	// index-time/query-time agreement is about case folding too: the upper-cased
	// first alphabet is an additional alphabet of the self-match inputs
	var up []string
	differs := false
	for _, sym := range c.alphas[0] {
		u := sym
		if utf8.ValidString(sym) {
			u = strings.ToUpper(sym)
		}
		differs = differs || u != sym
		up = append(up, u)
	}
	if differs {
		set.alphas = append(append([][]string{}, c.alphas...), up)
	}
	if len(c.tables) > 0 {
		w := ruleWords(c.tables, c.fill[0], c.fill[1], false)
		max := 400
		if tier == "thorough" {
			max = 4000
		}
		if len(w) > max {
			// evenly spread over the table
			step := len(w) / max
			var p []string
			for i := 0; i < len(w) && len(p) < max; i += step {
				p = append(p, w[i])
			}
			w = p
		}
		set.words = w
	}
	seen := map[string]bool{}
	var out []string
	set.each(0, func(i, syms int, in string) bool {
		if !seen[in] {
			seen[in] = true
			out = append(out, in)
		}
		return true
	})
	return out
}

func smEval(idx int64, tier string) *explore.Result {
	c := &configs[idx]
	res := &explore.Result{Counts: map[string]int64{}}
	fail := func(kind, in, what string) *explore.Result {
		res.Key = fmt.Sprintf("%s %s input=%x", c.name, kind, in)
		res.Failure = fmt.Sprintf("%s on input %q (hex %x): %s", c.name, in, in, what)
		return res
	}
	var a *analysis.Analyzer
	func() {
		defer func() { _ = recover() }()
		a = c.build()
	}()
	if a == nil {
		return res // reported by the analysis enumeration
	}
	// inputs whose analysis panics are the subject of the other enumeration;
	// they cannot be indexed
	var texts []string
	var ntok []int
	for _, in := range smInputs(c, tier) {
		t, _, p := analyse(a, in)
		if p != "" {
			res.Counts["selfmatch_skipped_panicking_inputs"]++
			continue
		}
		texts = append(texts, in)
		ntok = append(ntok, len(t))
	}
	// one index per chunk of documents (the controlled scheduler that runs the
	// writer has a bounded trace; 1500 one-field documents fit comfortably)
	const chunk = 1500
	var firstFail *finding
	for lo := 0; lo < len(texts); lo += chunk {
		hi := lo + chunk
		if hi > len(texts) {
			hi = len(texts)
		}
		kind, in, what := smChunk(a, texts[lo:hi], ntok[lo:hi], res)
		if kind == "selfmatch-index" {
			return fail(kind, in, what)
		}
		if kind != "" && firstFail == nil {
			firstFail = &finding{in, what}
		}
	}
	res.Counts["selfmatch_queries"] = res.Evals
	res.Outcome = fmt.Sprintf("%s:%d:%d", c.name, res.Nontrivial, res.Counts["selfmatch_hits"])
	if idx%50 == 0 {
		res.Sample = fmt.Sprintf("self-match %s: %d documents, %d with tokens, all found by their own text", c.name, len(texts), res.Nontrivial)
	}
	if firstFail != nil {
		return fail("selfmatch", firstFail.input, firstFail.what)
	}
	return res
}

// smChunk indexes the texts as one batch (one segment) of a fresh index and
// queries every text; it returns the first failure (kind "" = none).
func smChunk(a *analysis.Analyzer, texts []string, ntok []int, res *explore.Result) (kind, input, what string) {
	dir := crashfs.New()
	dir.Points = false
	var herr string
	s := verifmc.Run(verifmc.Options{}, func() {
		w, err := bluge.OpenWriter(harness.Config(dir, harness.Opts{NoMemMerge: true}))
		if err != nil {
			herr = "open writer: " + err.Error()
			return
		}
		b := bluge.NewBatch()
		for i, t := range texts {
			b.Insert(bluge.NewDocument(strconv.Itoa(i)).AddField(bluge.NewTextField("f", t).WithAnalyzer(a)))
		}
		if err := w.Batch(b); err != nil {
			herr = "batch: " + err.Error()
		}
		if err := w.Close(); err != nil && herr == "" {
			herr = "close: " + err.Error()
		}
	})
	if s.Failure != "" {
		return "selfmatch-index", "", "indexing the documents failed: " + s.Failure
	}
	if herr != "" {
		return "selfmatch-index", "", "indexing the documents failed: " + herr
	}
	r, err := bluge.OpenReader(harness.Config(dir, harness.Opts{}))
	if err != nil {
		return "selfmatch-index", "", "opening the reader failed: " + err.Error()
	}
	defer r.Close()
	// document number -> input index
	num2idx := map[uint64]int{}
	it, err := r.Search(context.Background(), bluge.NewAllMatches(bluge.NewMatchAllQuery()))
	if err != nil {
		return "selfmatch-index", "", "match-all failed: " + err.Error()
	}
	for {
		m, err := it.Next()
		if err != nil {
			return "selfmatch-index", "", "match-all failed: " + err.Error()
		}
		if m == nil {
			break
		}
		_ = m.VisitStoredFields(func(field string, value []byte) bool {
			if field == "_id" {
				if n, err := strconv.Atoi(string(value)); err == nil {
					num2idx[m.Number] = n
				}
			}
			return true
		})
	}
	if len(num2idx) != len(texts) {
		return "selfmatch-index", "", fmt.Sprintf("%d documents inserted, match-all returns %d", len(texts), len(num2idx))
	}
	for i, t := range texts {
		res.Evals++
		found, hits, qerr := selfQuery(r, a, t, i, num2idx)
		res.Counts["selfmatch_hits"] += int64(hits)
		if qerr != "" {
			if kind == "" {
				kind, input, what = "selfmatch", t, "the match query failed: "+qerr
			}
			continue
		}
		if ntok[i] > 0 {
			res.Nontrivial++
			if !found && kind == "" {
				tk, _, _ := analyse(a, t)
				kind, input, what = "selfmatch", t, fmt.Sprintf("the document whose field text is the query text is not among the %d hits of the AND match query in the same analyzer; analysis gives %s", hits, showToks(tk))
			}
		}
	}
	return kind, input, what
}

func selfQuery(r *bluge.Reader, a *analysis.Analyzer, text string, want int, num2idx map[uint64]int) (found bool, hits int, err string) {
	defer func() {
		if p := recover(); p != nil {
			err = fmt.Sprintf("panic: %v", p)
		}
	}()
	q := bluge.NewMatchQuery(text).SetField("f").SetAnalyzer(a).SetOperator(bluge.MatchQueryOperatorAnd)
	it, e := r.Search(context.Background(), bluge.NewAllMatches(q))
	if e != nil {
		return false, 0, e.Error()
	}
	for {
		m, e := it.Next()
		if e != nil {
			return false, hits, e.Error()
		}
		if m == nil {
			return found, hits, ""
		}
		hits++
		if i, ok := num2idx[m.Number]; ok && i == want {
			found = true
		}
	}
}

// ---------------------------------------------------------------- main

func describeAlphabets() string {
	seen := map[string]bool{}
	var parts []string
	for _, c := range configs {
		if c.class != "analyzer" {
			continue
		}
		var as []string
		for _, a := range c.alphas {
			as = append(as, fmt.Sprintf("%q", a))
		}
		k := strings.TrimPrefix(c.name, "analyzer=") + ":" + strings.Join(as, "+")
		if !seen[k] {
			seen[k] = true
			parts = append(parts, k)
		}
	}
	return strings.Join(parts, "; ")
}

func main() {
	log.SetOutput(io.Discard)
	explore.RegisterEnum("c18-analysis", anTotal, anEval)
	explore.RegisterEnum("c18-selfmatch", smTotal, smEval)
	explore.WorkerMain()
	if t := os.Getenv("C18_DUMP"); t != "" { // list the configurations and their input counts for tier t
		var total int
		for i := range configs {
			set := inputsOf(&configs[i], t)
			fmt.Printf("%-70s class=%-10s L=%d alphabets=%d words=%d inputs=%d selfmatch_docs=%d\n", configs[i].name, configs[i].class, set.L, len(set.alphas), len(set.words), set.count(), len(smInputs(&configs[i], t)))
			total += set.count()
		}
		fmt.Printf("%d configurations, %d inputs\n", len(configs), total)
		return
	}
	c := checkmain.New("C18")
	if v := c.IsReplay(); v != nil {
		c.RunReplay(v)
	}
	classes := map[string]int{}
	var names []string
	for _, cf := range configs {
		classes[cf.class]++
		names = append(names, cf.name)
	}
	c.Rule = fmt.Sprintf("%d configurations (%d bundled analyzers, %d tokenizers alone, %d char-filter+tokenizer, %d configurable-filter grid points behind the single/unicode/whitespace tokenizers, %d language filters alone); "+
		"per configuration EVERY string of <= L symbols over each of its 1-3 alphabets of 8 symbols (two+ letters of the script that fire its normaliser/stemmer rules, ASCII letter, digit, space, apostrophe or script joiner, truncated lead e4, stray continuation 80; a symbol may be a multi-byte rune), "+
		"L actually used: quick L = 5 for analyzers, tokenizers alone, char filters and language filters alone (37 449 strings per alphabet), L = 4 for the configurable-filter grids (4 681 per alphabet); thorough L = 7 for tokenizers alone (2 396 745 per alphabet), L = 6 for analyzers, char filters and language filters alone (299 593 per alphabet), L = 5 for the configurable-filter grids; for the multi-token tokenizers and the standard/web analyzers also 14 long inputs (2..1025 repetitions of 'a ' and 'é世 ', crossing the 256/1000 buffer sizes of the unicode tokenizer), for the HTML char filter and the web tokenizer/analyzer every prefix and every one-byte damage (byte -> 80) of a sample with attributes / e-mail, URL, handle, hashtag; plus every rule string of the stemmers' own tables (snowball Among tables, ar/ckb/hi/fr/pt literals) alone, behind 1..8 filler letters (two patterns) and as a prefix (thorough: also every pair of rule strings behind a 4-letter stem); "+
		"self-match: every string of <= 3 symbols over the alphabets and over the upper-cased first alphabet (and up to 400 / 4000 rule words) of every configuration as one document of one index per configuration, queried by its own text; an input is non-trivial when the analysis yields at least one token; distinct outcomes = distinct per-configuration digests of all token streams", len(configs), classes["analyzer"], classes["tokenizer"], classes["charfilter"], classes["filter"], classes["langfilter"])
	c.Explanation = "bounded-exhaustive enumeration of byte strings per configuration; oracle per input: no panic, returns (watchdog 10 s, confirmed by a second run), two calls on fresh copies give equal token streams (term, start, end, position increment, type, keyword flag), position increments >= 0, 0 <= start <= end <= length of the text the tokenizer saw (the char-filtered text when char filters are configured), term == input[start:end] for tokenizers alone, and for the single-token, letter, whitespace and character tokenizers equality with the documented tokenization (maximal runs of predicate runes, byte offsets) on valid UTF-8; self-match through a real one-segment index and bluge.NewMatchQuery(text).SetAnalyzer(a).SetOperator(AND): the document's own number must be among the hits whenever analysis yields >= 1 token. One finding per configuration and failure kind: the first (shortest, then alphabet order) failing input."
	c.Assumptions = []string{
		"the coverage-guided fuzzing clause of the property is replaced by exhaustive enumeration over the stated alphabets and lengths; longer inputs and other code points are outside the bound",
		"filters are exercised behind bluge's own tokenizers (single-token passes every byte including invalid UTF-8; unicode and whitespace give several tokens), not behind a synthetic tokenizer",
		"a first token with position increment 0 is counted, not judged (the code does not document increment >= 1 for the first token)",
		"the rule-string tables are copied from the stemmer sources at development time (gen_tables.py)",
		"alphabets: " + describeAlphabets(),
	}
	c.Extra["configurations"] = names
	tier := c.Tier
	if tier != "thorough" {
		tier = "quick"
	}
	budget := c.PickD(40*time.Second, 7*time.Minute)
	st := explore.Enumerate(explore.EnumConfig{Name: "c18-analysis", Param: tier, Budget: budget, Chunk: int64(len(kinds)), MaxViol: len(kinds), CrashIsViolation: true})
	dedupe(st)
	c.AddEnum(st)
	st2 := explore.Enumerate(explore.EnumConfig{Name: "c18-selfmatch", Param: tier, Budget: c.PickD(20*time.Second, 2*time.Minute), Chunk: 1, CrashIsViolation: true})
	dedupe(st2)
	c.AddEnum(st2)
	var keys []string
	for _, v := range append(append([]explore.Violation{}, st.Violations...), st2.Violations...) {
		keys = append(keys, v.Key)
	}
	sort.Strings(keys)
	for _, k := range keys {
		fmt.Printf("[C18] finding key: %s\n", k)
	}
	c.Extra["finding_keys"] = keys
	c.Finish()
}

func dedupe(st *explore.EnumStats) {
	seen := map[string]bool{}
	var out []explore.Violation
	sort.SliceStable(st.Violations, func(i, j int) bool { return st.Violations[i].Choices[0] < st.Violations[j].Choices[0] })
	for _, v := range st.Violations {
		if v.Key != "" && seen[v.Key] {
			continue
		}
		seen[v.Key] = true
		out = append(out, v)
	}
	st.Violations = out
}

package crashcheck

import (
	"fmt"
	"strings"

	"github.com/blugelabs/bluge"
	"github.com/blugelabs/bluge/verifmc"

	"verif/crashfs"
	"verif/explore"
	"verif/harness"
)

// FaultPlan describes which environment answers are offered at every
// directory operation once the writer is open.
type FaultPlan struct {
	Sticky      bool // offer "fails until cleared" in addition to the transient faults
	NoHold      bool // readers are closed right after their observation (so that superseded files really are removed)
	CloseFaults bool // the Close of a loaded item may report an error too (the handle is released all the same)
	Settle      bool // the background work comes to rest (under faults) after every batch, so that file merges run while faults are offered
}

// RunFaulty runs a single sequential client (safe mode) while every
// directory operation is an environment choice point that may fail (C14).
//
// Oracle: nothing panics, deadlocks or spins past the horizon; a fault on a
// persist or load raises the asynchronous error callback; after every batch,
// failed or not, a held reader still answers as at acquisition and a fresh
// reader shows every batch applied so far; a nil return of a later batch
// (after the fault is gone) makes every batch applied before it durable on
// every crash image of the trace; opening any crash image never faults and
// shows a prefix of the batches.
func RunFaulty(name string, sc Scenario, mode Mode, plan FaultPlan, opts verifmc.Options) (*verifmc.Sched, *explore.Result) {
	res := &explore.Result{Counts: map[string]int64{}, Flags: map[string]bool{}}
	dir := crashfs.New()
	batches := append([]harness.BatchSpec(nil), sc.Clients[0]...)
	// a final batch: "the next acknowledgement the writer gives"
	batches = append(batches, harness.BatchSpec{{Kind: 'U', ID: "z", Ver: "9"}})
	recs := make([]batchRec, len(batches))
	models := []string{""}
	m := harness.NewModel()
	for _, b := range batches {
		m.Apply(b)
		models = append(models, m.Content())
	}
	var clk harness.Clock
	asyncErrs := 0
	batchErrs := 0
	injected := 0
	injectedLoud := 0 // faults that must be reported asynchronously
	enabled := false
	onlyClose := false // from the quiescence on only handle closes may still fail (CloseFaults)
	sticky := ""       // op kind that currently fails on every call
	var injLog []string
	dir.Faults = func(op, kind string, id uint64) int {
		if !enabled {
			return 0
		}
		if op == "closeh" && !plan.CloseFaults {
			return 0
		}
		if onlyClose && op != "closeh" {
			return 0
		}
		if sticky == op {
			injected++
			injLog = append(injLog, "sticky:"+op+kind)
			if op == "persist" {
				return crashfs.FaultBeforeByte
			}
			return 1
		}
		n := 2
		if op == "persist" {
			n = 4
		}
		if plan.Sticky && (op == "persist" || op == "load") {
			n++
		}
		c := verifmc.Choose(n, "fault:"+op)
		if c == 0 {
			return 0
		}
		injected++
		if op == "persist" || op == "load" {
			injectedLoud++
		}
		injLog = append(injLog, fmt.Sprintf("%s%s#%d:%d", op, kind, id, c))
		res.Counts[fmt.Sprintf("fault_%s%s#%d", op, kind, id)]++
		if plan.Sticky && (op == "persist" || op == "load") && c == n-1 {
			sticky = op
			if op == "persist" {
				return crashfs.FaultBeforeByte
			}
			return 1
		}
		return c
	}
	var failure string
	s := verifmc.Run(opts, func() {
		o := sc.Opts
		o.AsyncError = func(err error) {
			asyncErrs++
			dir.Mark("asyncerr", -1, err)
			if sticky != "" && asyncErrs >= 2 {
				sticky = "" // the fault clears after it was reported twice
			}
		}
		w, err := bluge.OpenWriter(harness.Config(dir, o))
		if err != nil {
			verifmc.Fail("open: " + err.Error())
		}
		enabled = true
		type heldR struct {
			r     *bluge.Reader
			first string
			after int
		}
		var held []*heldR
		ids := []string{"a", "b", "c", "z"}
		recheck := func(when string) {
			for _, h := range held {
				now, oerr := harness.ObserveFull(h.r, ids)
				if oerr != nil || now != h.first {
					verifmc.Fail(fmt.Sprintf("the reader acquired after batch %d changed or failed %s (faults so far: %v): %v\n first: %s\n now:   %s", h.after, when, injLog, oerr, h.first, now))
				}
			}
		}
		for i, spec := range batches {
			recs[i].spec = spec
			recs[i].call = clk.Tick()
			dir.Mark("call", i, nil)
			err := w.Batch(harness.MakeBatch(spec))
			recs[i].ret = clk.Tick()
			recs[i].err = err
			dir.Mark("ret", i, err)
			if err != nil {
				// (the persister hands the error to the waiting batch before it calls the asynchronous
				// error callback: "and the callback fires" is checked once the writer came to rest)
				res.Flags["a_batch_returned_the_error"] = true
				batchErrs++
			}
			if plan.Settle {
				verifmc.Idle("settle")
			}
			// open and new readers keep answering according to the batches applied so far
			recheck(fmt.Sprintf("after batch %d", i))
			r, rerr := w.Reader()
			if rerr != nil {
				verifmc.Fail("reader: " + rerr.Error())
			}
			c, oerr := harness.Observe(r)
			if oerr != nil {
				verifmc.Fail(fmt.Sprintf("fresh reader after batch %d (faults so far: %v): %v", i, injLog, oerr))
			}
			if c != models[i+1] {
				verifmc.Fail(fmt.Sprintf("after batch %d (returned %v; faults so far: %v) a fresh reader shows {%s}, applied so far is {%s}", i, err, injLog, c, models[i+1]))
			}
			first, oerr := harness.ObserveFull(r, ids)
			if oerr != nil {
				verifmc.Fail("held reader: " + oerr.Error())
			}
			if plan.NoHold {
				_ = r.Close()
			} else {
				held = append(held, &heldR{r: r, first: first, after: i}) // every reader stays open
			}
		}
		// the background work comes to rest, the writer is closed: the readers still answer
		verifmc.Idle("quiesce")
		enabled = plan.CloseFaults // handle closes at Close may still report errors
		onlyClose = true
		sticky = ""
		recheck("after the background work came to rest")
		if plan.CloseFaults {
			// the readers go first, so that the writer's Close releases the handles of its root itself
			for k := len(held) - 1; k >= 0; k-- {
				_ = held[k].r.Close()
				held = held[:k]
				recheck("after a younger reader was closed")
			}
		}
		if st := w.VerifIndexWriter().Stats(); st.TotFileMergeLoopErr > 0 {
			res.Counts["executions_with_a_failed_file_merge"]++
		}
		if err := w.Close(); err != nil {
			verifmc.Fail("close: " + err.Error())
		}
		recheck("after the writer was closed")
		for k := len(held) - 1; k >= 0; k-- { // youngest first: the oldest readers are the last holders
			_ = held[k].r.Close()
			held = held[:k]
			recheck("after a younger reader was closed")
		}
	})
	res.Counts["faults_injected"] = int64(injected)
	if injected > 0 {
		res.Flags["fault_injected"] = true
	}
	if s.Failure != "" {
		if strings.HasPrefix(s.Failure, "horizon") {
			res.Failure = fmt.Sprintf("the writer did not come to rest within the step horizon after faults %v", injLog)
		}
		res.Notes = injLog
		return s, res
	}
	if failure != "" {
		res.Failure = failure
		return s, res
	}
	if len(dir.Problems) > 0 {
		res.Failure = "storage discipline: " + strings.Join(dir.Problems, "; ")
		return s, res
	}
	if batchErrs > 0 && asyncErrs == 0 {
		res.Failure = fmt.Sprintf("a batch returned an error (faults %v) but the asynchronous error callback never fired", injLog)
		return s, res
	}
	if injectedLoud > 0 && asyncErrs == 0 {
		res.Failure = fmt.Sprintf("faults %v were injected on persist/load but the asynchronous error callback never fired", injLog)
		return s, res
	}
	retain := sc.Opts.Retain
	if retain == 0 {
		retain = 1
	}
	if f := RetentionInvariant(dir.Trace, retain); f != "" {
		res.Failure = f + fmt.Sprintf(" (faults injected: %v)", injLog)
		res.Key = "retention-under-faults"
		return s, res
	}
	if oh := dir.OpenHandles(); len(oh) > 0 {
		res.Failure = fmt.Sprintf("file handles still open after the reader and the writer were closed: %v (faults injected: %v)", oh, injLog)
		return s, res
	}
	if dir.Locked() {
		res.Failure = "the directory lock is still held after the writer was closed"
		return s, res
	}
	if mode.FilesOnly {
		res.Outcome = strings.Join(injLog, ",")
		return s, res
	}
	mode.CumulativeAck = true
	fail, key := Judge(name, sc, mode, dir.Trace, recs, res)
	if fail != "" {
		fail += fmt.Sprintf(" (faults injected: %v)", injLog)
	}
	res.Failure, res.Key = fail, key
	var o []string
	for _, e := range dir.Trace {
		if e.Kind == "persist" || e.Kind == "remove" {
			o = append(o, e.Kind[:1]+e.Name[8:]+e.Err)
		}
		if e.Kind == "ret" {
			o = append(o, fmt.Sprintf("r%d%s", e.Batch, e.Err))
		}
		if e.Kind == "asyncerr" {
			o = append(o, "AE")
		}
	}
	res.Outcome = strings.Join(o, " ")
	res.Notes = injLog
	if opts.Prefix == nil {
		res.Sample = map[string]interface{}{"scenario": name, "storage_trace_default_schedule": res.Outcome}
	} else if injected > 0 && len(opts.Prefix) < 40 {
		res.Sample = map[string]interface{}{"scenario": name, "faults": injLog, "storage_trace": res.Outcome}
	}
	return s, res
}

// RunFaultyOpen: a first life applies the scenario's batches without faults
// and closes; a second life opens a writer while every directory operation
// (list, load, remove, persist of the clean-up on open) may fail; whatever
// happens — error, or success followed by a batch and a close — a third,
// fault-free life must find every batch of the first life (and the second
// life's batch if it was acknowledged).  Nothing may panic or hang.
func RunFaultyOpen(name string, sc Scenario, opts verifmc.Options) (*verifmc.Sched, *explore.Result) {
	res := &explore.Result{Counts: map[string]int64{}, Flags: map[string]bool{}}
	dir := crashfs.New()
	batches := sc.Clients[0]
	m := harness.NewModel()
	earlier := map[string]bool{} // contents after a strict prefix of the first life's batches
	for _, b := range batches {
		earlier[m.Content()] = true
		m.Apply(b)
	}
	first := m.Content()
	delete(earlier, first)
	failKey := ""
	extra := harness.BatchSpec{{Kind: 'U', ID: "z", Ver: "9"}}
	m.Apply(extra)
	second := m.Content()
	enabled := false
	injected := 0
	var injLog []string
	dir.Faults = func(op, kind string, id uint64) int {
		if !enabled || op == "closeh" {
			return 0
		}
		n := 2
		if op == "persist" {
			n = 4
		}
		c := verifmc.Choose(n, "fault:"+op)
		if c != 0 {
			injected++
			injLog = append(injLog, fmt.Sprintf("%s%s:%d", op, kind, c))
		}
		return c
	}
	var failure string
	s := verifmc.Run(opts, func() {
		o := sc.Opts
		o.AsyncError = func(error) {}
		w, err := bluge.OpenWriter(harness.Config(dir, o))
		if err != nil {
			verifmc.Fail("open: " + err.Error())
		}
		for _, spec := range batches {
			if err := w.Batch(harness.MakeBatch(spec)); err != nil {
				verifmc.Fail("batch: " + err.Error())
			}
		}
		if err := w.Close(); err != nil {
			verifmc.Fail("close: " + err.Error())
		}
		// second life, with faults
		enabled = true
		acked := false
		w2, err := bluge.OpenWriter(harness.Config(dir, o))
		if err == nil {
			res.Flags["second_open_succeeded"] = true
			r, rerr := w2.Reader()
			if rerr != nil {
				verifmc.Fail("reader: " + rerr.Error())
			}
			c, oerr := harness.Observe(r)
			_ = r.Close()
			if oerr != nil || c != first {
				if oerr == nil && earlier[c] && strings.Contains(strings.Join(injLog, ","), "load.") {
					// a load that failed once was taken for a damaged snapshot: the writer fell back
					failKey = "open:read-error-at-open-falls-back-to-an-older-snapshot"
				}
				verifmc.Fail(fmt.Sprintf("a writer opened under faults %v shows {%s} (%v), expected {%s}", injLog, c, oerr, first))
			}
			if berr := w2.Batch(harness.MakeBatch(extra)); berr == nil {
				acked = true
			}
			enabled = false
			if cerr := w2.Close(); cerr != nil {
				verifmc.Fail("close of the second life: " + cerr.Error())
			}
		} else {
			res.Flags["second_open_refused"] = true
			if dir.Locked() {
				verifmc.Fail(fmt.Sprintf("OpenWriter failed (%v) under faults %v and left the directory locked", err, injLog))
			}
		}
		enabled = false
		// third life, no faults
		r3, err := bluge.OpenReader(harness.Config(dir, harness.Opts{}))
		if err != nil {
			verifmc.Fail(fmt.Sprintf("after a writer was opened under faults %v the directory no longer opens: %v", injLog, err))
		}
		c3, oerr := harness.Observe(r3)
		_ = r3.Close()
		if oerr != nil {
			verifmc.Fail("third life: " + oerr.Error())
		}
		if acked && c3 != second {
			failure = fmt.Sprintf("the second life's batch was acknowledged but the directory shows {%s} (faults %v)", c3, injLog)
		}
		if !acked && c3 != first && c3 != second {
			failure = fmt.Sprintf("after a writer was opened under faults %v the directory shows {%s}, expected {%s}", injLog, c3, first)
		}
		// a refused OpenWriter leaves its analysis workers behind (they are started
		// before anything can fail and nothing stops them)
		verifmc.Exit()
	})
	res.Counts["faults_injected"] = int64(injected)
	res.Notes = injLog
	if s.Failure != "" {
		res.Key = failKey
		if strings.HasPrefix(s.Failure, "horizon") {
			res.Failure = fmt.Sprintf("did not come to rest within the step horizon after faults %v", injLog)
		}
		return s, res
	}
	if failure != "" {
		res.Failure = failure
		return s, res
	}
	if len(dir.Problems) > 0 {
		res.Failure = "storage discipline: " + strings.Join(dir.Problems, "; ")
		return s, res
	}
	res.Outcome = strings.Join(injLog, ",") + fmt.Sprint(res.Flags)
	return s, res
}

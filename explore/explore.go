// Package explore is the stateless explorer of DESIGN.md §3.2: a depth-first
// enumeration of choice sequences of a scenario that runs on the verifmc
// scheduler, bounded by the number of deviations from the default choice,
// sharded over worker subprocesses (one controlled execution at a time per
// process, GOMAXPROCS=1 each).
package explore

import (
	"bufio"
	"crypto/sha256"
	"encoding/hex"
	"encoding/json"
	"fmt"
	"os"
	"os/exec"
	"path/filepath"
	"runtime"
	"sort"
	"strconv"
	"strings"
	"sync"
	"time"

	"github.com/blugelabs/bluge/verifmc"
)

// Result is what a scenario reports about one execution.
type Result struct {
	Failure    string           // "" = the oracle held
	Key        string           // stable identifier of the failing case (known-findings matching)
	Outcome    string           // canonical observable outcome (distinct-outcome statistics)
	Counts     map[string]int64 // additive scenario statistics (crash images, traces, …)
	Flags      map[string]bool  // coverage flags, or-ed over executions
	Sample     interface{}      // optional: something worth showing in the evidence
	Evals      int64            // enumeration checks: inner cases evaluated by this call (default 1)
	Nontrivial int64            // enumeration checks: how many of them were non-trivial
	Notes      []string
	// FreshConfirm: the failure can only be observed once per process (race
	// detector reports are de-duplicated); it is confirmed by replaying the
	// choices in a fresh worker process instead of in place.
	FreshConfirm bool
}

// RunFunc performs one controlled execution and judges it.
type RunFunc func(opts verifmc.Options, param string) (*verifmc.Sched, *Result)

var scenarios = map[string]RunFunc{}

// Register makes a scenario available to driver and workers.  A parameter
// ending in "+rev" runs the scenario under the reverse-priority default
// scheduler (verifmc.Options.Reverse), "+rr" under the round-robin default
// scheduler (verifmc.Options.RoundRobin); the suffix is not passed on.
func Register(name string, f RunFunc) {
	scenarios[name] = func(opts verifmc.Options, param string) (*verifmc.Sched, *Result) {
		if strings.HasSuffix(param, "+rev") {
			opts.Reverse = true
			param = strings.TrimSuffix(param, "+rev")
		}
		if strings.HasSuffix(param, "+rr") {
			opts.RoundRobin = true
			param = strings.TrimSuffix(param, "+rr")
		}
		return f(opts, param)
	}
}

// Violation is a confirmed, replayable failure.
type Violation struct {
	Scenario string   `json:"scenario"`
	Param    string   `json:"param"`
	Choices  []int    `json:"choices"`
	Failure  string   `json:"failure"`
	Key      string   `json:"key"`
	Stack    string   `json:"stack,omitempty"`
	Steps    []string `json:"steps,omitempty"`
	Notes    []string `json:"notes,omitempty"`
}

// Stats aggregates an exploration.
type Stats struct {
	Scenario     string           `json:"scenario"`
	Param        string           `json:"param,omitempty"`
	Bound        int              `json:"bound"`
	Executions   int64            `json:"executions"`
	Nodes        int64            `json:"nodes"` // distinct choice-tree nodes (schedule prefixes)
	Steps        int64            `json:"steps"` // scheduler steps executed
	MaxPoints    int              `json:"max_choice_points"`
	DefaultSteps int              `json:"default_steps"`
	Outcomes     map[string]int64 `json:"-"`
	NOutcomes    int              `json:"distinct_outcomes"`
	HorizonHits  int64            `json:"horizon_hits"`
	Counts       map[string]int64 `json:"counts,omitempty"`
	Flags        map[string]bool  `json:"flags,omitempty"`
	Exhaustive   bool             `json:"exhaustive"` // the whole bound was completed
	Violations   []Violation      `json:"-"`
	Errors       []string         `json:"errors,omitempty"` // harness errors (nondeterminism …)
	Samples      []interface{}    `json:"-"`
	WallS        float64          `json:"wall_s"`
	byDev        map[int]int64
	ByDev        map[string]int64 `json:"executions_by_deviations,omitempty"`
}

func newStats() *Stats {
	return &Stats{Outcomes: map[string]int64{}, Counts: map[string]int64{}, Flags: map[string]bool{}, byDev: map[int]int64{}}
}

func (s *Stats) merge(o *Stats) {
	s.Executions += o.Executions
	s.Nodes += o.Nodes
	s.Steps += o.Steps
	if o.MaxPoints > s.MaxPoints {
		s.MaxPoints = o.MaxPoints
	}
	s.HorizonHits += o.HorizonHits
	for k, v := range o.Outcomes {
		s.Outcomes[k] += v
	}
	for k, v := range o.Counts {
		s.Counts[k] += v
	}
	for k, v := range o.Flags {
		if v {
			s.Flags[k] = true
		}
	}
	for k, v := range o.byDev {
		s.byDev[k] += v
	}
	s.Violations = append(s.Violations, o.Violations...)
	s.Errors = append(s.Errors, o.Errors...)
	if len(s.Samples) < 4 {
		s.Samples = append(s.Samples, o.Samples...)
	}
}

func hashStr(s string) string {
	h := sha256.Sum256([]byte(s))
	return hex.EncodeToString(h[:8])
}

type job struct {
	Scenario string   `json:"scenario"`
	Param    string   `json:"param"`
	Prefix   []int    `json:"prefix"`
	Sigs     []uint64 `json:"sigs"`
	Bound    int      `json:"bound"` // total deviation bound
	MaxSteps int      `json:"max_steps"`
	Deadline int64    `json:"deadline"` // unix seconds, 0 = none
	MaxViol  int      `json:"max_viol"`
	Known    []string `json:"known"` // keys of listed known findings: recorded once each, they do not end the exploration
}

// KnownKeys holds the keys of the known findings of the property being checked
// (set by checkmain.New in the driver process).  A failing execution whose key
// is listed is recorded once and the exploration goes on, so that a different
// violation in the same scenario is still found.
var KnownKeys = map[string]bool{}

func unlisted(vs []Violation) bool {
	for _, v := range vs {
		if v.Key == "" || !KnownKeys[v.Key] {
			return true
		}
	}
	return false
}

type jobResult struct {
	Executions  int64            `json:"e"`
	Nodes       int64            `json:"n"`
	Steps       int64            `json:"s"`
	MaxPoints   int              `json:"mp"`
	HorizonHits int64            `json:"hh"`
	Outcomes    map[string]int64 `json:"o"`
	Counts      map[string]int64 `json:"c"`
	Flags       map[string]bool  `json:"f"`
	ByDev       map[int]int64    `json:"d"`
	Violations  []Violation      `json:"v"`
	Errors      []string         `json:"err"`
	Samples     []interface{}    `json:"smp"`
	Cut         bool             `json:"cut"` // deadline hit inside the subtree
}

type walker struct {
	run       RunFunc
	j         job
	st        *Stats
	cut       bool
	seenViol  map[string]bool
	nUnlisted int
}

func (w *walker) known(key string) bool {
	for _, k := range w.j.Known {
		if k == key {
			return true
		}
	}
	return false
}

func devs(choices []int) int {
	n := 0
	for _, c := range choices {
		if c != 0 {
			n++
		}
	}
	return n
}

func stepsOf(s *verifmc.Sched) []string {
	var out []string
	for _, r := range s.Log {
		out = append(out, fmt.Sprintf("t%d %s #%d %s", r.Thread, verifmc.OpName(r.Op), r.Obj, r.Label))
	}
	return out
}

func choicesOf(s *verifmc.Sched) ([]int, []uint64) {
	c := make([]int, len(s.Trace))
	g := make([]uint64, len(s.Trace))
	for i, p := range s.Trace {
		c[i] = p.Chosen
		g[i] = p.Sig
	}
	// trailing zeros are implied
	n := len(c)
	for n > 0 && c[n-1] == 0 {
		n--
	}
	return c[:n], g
}

// confirm re-executes a failing choice list; a violation is only believed if
// it fails again in the same way.
func confirm(run RunFunc, name, param string, s *verifmc.Sched, r *Result, failure string, maxSteps int) (*Violation, string) {
	choices, _ := choicesOf(s)
	full := make([]int, len(s.Trace))
	sigs := make([]uint64, len(s.Trace))
	for i, p := range s.Trace {
		full[i], sigs[i] = p.Chosen, p.Sig
	}
	s2, r2 := run(verifmc.Options{Prefix: full, Sigs: sigs, MaxSteps: maxSteps, LogSteps: true}, param)
	f2 := failureOf(s2, r2)
	if s2.Diverged {
		return nil, fmt.Sprintf("NONDETERMINISM: scenario %s: replay of a failing execution diverged (%s); first failure was %q", name, s2.Failure, failure)
	}
	if f2 == "" {
		return nil, fmt.Sprintf("NONDETERMINISM: scenario %s: failure %q did not reproduce on replay of the same choices %v", name, failure, choices)
	}
	v := &Violation{Scenario: name, Param: param, Choices: choices, Failure: f2, Stack: s2.Stack, Steps: stepsOf(s2)}
	if r2 != nil {
		v.Key = r2.Key
		v.Notes = r2.Notes
	}
	if len(v.Steps) > 4000 {
		v.Steps = v.Steps[len(v.Steps)-4000:]
	}
	return v, ""
}

func failureOf(s *verifmc.Sched, r *Result) string {
	if s != nil && s.Failure != "" && !strings.HasPrefix(s.Failure, "horizon") {
		return s.Failure
	}
	if r != nil && r.Failure != "" {
		return r.Failure
	}
	return ""
}

func (w *walker) explore(prefix []int, sigs []uint64) {
	if w.cut {
		return
	}
	if w.j.Deadline != 0 && time.Now().Unix() > w.j.Deadline {
		w.cut = true
		return
	}
	s, r := w.run(verifmc.Options{Prefix: prefix, Sigs: sigs, MaxSteps: w.j.MaxSteps}, w.j.Param)
	if !w.account(s, r, prefix) {
		return
	}
	base := devs(prefix)
	if base+1 > w.j.Bound {
		return
	}
	n := len(s.Trace)
	choices := make([]int, n)
	gs := make([]uint64, n)
	alts := make([]int, n)
	for i, p := range s.Trace {
		choices[i], gs[i], alts[i] = p.Chosen, p.Sig, p.N
	}
	for i := len(prefix); i < n; i++ {
		for alt := 1; alt < alts[i]; alt++ {
			np := make([]int, i+1)
			copy(np, choices[:i])
			np[i] = alt
			w.explore(np, gs[:i+1])
			if w.cut {
				return
			}
		}
	}
}

// account books one execution; it returns false when nothing must be explored
// below it (failure, divergence, cut).
func (w *walker) account(s *verifmc.Sched, r *Result, prefix []int) bool {
	st := w.st
	st.Executions++
	st.byDev[devs(prefix)]++
	st.Steps += int64(s.Steps)
	st.Nodes += int64(len(s.Trace) - len(prefix) + 1)
	if len(s.Trace) > st.MaxPoints {
		st.MaxPoints = len(s.Trace)
	}
	if s.Diverged {
		st.Errors = append(st.Errors, fmt.Sprintf("NONDETERMINISM: scenario %s: prefix %v diverged: %s", w.j.Scenario, prefix, s.Failure))
		w.cut = true
		return false
	}
	if strings.HasPrefix(s.Failure, "horizon") {
		st.HorizonHits++
	}
	if r != nil {
		if r.Outcome != "" {
			st.Outcomes[hashStr(r.Outcome)]++
		}
		for k, v := range r.Counts {
			st.Counts[k] += v
		}
		for k, v := range r.Flags {
			if v {
				st.Flags[k] = true
			}
		}
		if r.Sample != nil && len(st.Samples) < 2 {
			st.Samples = append(st.Samples, r.Sample)
		}
	}
	if f := failureOf(s, r); f != "" {
		if r != nil && r.FreshConfirm {
			choices, _ := choicesOf(s)
			v := Violation{Scenario: w.j.Scenario, Param: w.j.Param, Choices: choices, Failure: f, Key: r.Key, Notes: append(r.Notes, "needs-fresh-confirm")}
			if r.Key != "" && w.known(r.Key) {
				// a listed known finding: one representative is confirmed, the exploration goes on
				if !w.seenViol["known|"+r.Key] {
					w.seenViol["known|"+r.Key] = true
					st.Violations = append(st.Violations, v)
				}
				return false
			}
			st.Violations = append(st.Violations, v)
			w.cut = true
			return false
		}
		v, herr := confirm(w.run, w.j.Scenario, w.j.Param, s, r, f, w.j.MaxSteps)
		if herr != "" {
			st.Errors = append(st.Errors, herr)
			w.cut = true
			return false
		}
		if v.Key != "" && w.known(v.Key) {
			if !w.seenViol["known|"+v.Key] {
				w.seenViol["known|"+v.Key] = true
				st.Violations = append(st.Violations, *v)
			}
			return false // listed known finding: recorded once, the exploration goes on
		}
		k := v.Key + "|" + firstLine(v.Failure)
		if !w.seenViol[k] {
			w.seenViol[k] = true
			st.Violations = append(st.Violations, *v)
			w.nUnlisted++
		}
		if w.nUnlisted >= w.j.MaxViol {
			w.cut = true
		}
		return false // do not branch below a failing execution
	}
	return true
}

func firstLine(s string) string {
	if i := strings.IndexByte(s, '\n'); i >= 0 {
		return s[:i]
	}
	return s
}

func runJob(j job) jobResult {
	run, ok := scenarios[j.Scenario]
	if !ok {
		return jobResult{Errors: []string{"unknown scenario " + j.Scenario}}
	}
	if j.MaxViol == 0 {
		j.MaxViol = 3
	}
	w := &walker{run: run, j: j, st: newStats(), seenViol: map[string]bool{}}
	w.explore(j.Prefix, j.Sigs)
	st := w.st
	return jobResult{Executions: st.Executions, Nodes: st.Nodes, Steps: st.Steps, MaxPoints: st.MaxPoints,
		HorizonHits: st.HorizonHits, Outcomes: st.Outcomes, Counts: st.Counts, Flags: st.Flags, ByDev: st.byDev,
		Violations: st.Violations, Errors: st.Errors, Samples: st.Samples, Cut: w.cut}
}

// WorkerMain must be called first thing in main(): when the process was
// started as a worker it serves jobs from stdin and never returns.
func WorkerMain() {
	if os.Getenv("VERIF_WORKER") == "" {
		return
	}
	runtime.GOMAXPROCS(1)
	in := bufio.NewReaderSize(os.Stdin, 1<<20)
	out := bufio.NewWriter(os.Stdout)
	for {
		line, err := in.ReadBytes('\n')
		if len(line) > 0 {
			var kind struct {
				Kind string `json:"kind"`
			}
			_ = json.Unmarshal(line, &kind)
			var resp []byte
			switch kind.Kind {
			case "replay":
				var v Violation
				if e := json.Unmarshal(line, &struct {
					V *Violation `json:"v"`
				}{&v}); e != nil {
					fmt.Fprintln(os.Stderr, "worker: bad job:", e)
					os.Exit(2)
				}
				f, _, _ := Replay(&v)
				resp, _ = json.Marshal(map[string]string{"failure": f})
			case "enum":
				var j enumJob
				if e := json.Unmarshal(line, &j); e != nil {
					fmt.Fprintln(os.Stderr, "worker: bad job:", e)
					os.Exit(2)
				}
				resp, _ = json.Marshal(runEnumJob(j))
			default:
				var j job
				if e := json.Unmarshal(line, &j); e != nil {
					fmt.Fprintln(os.Stderr, "worker: bad job:", e)
					os.Exit(2)
				}
				resp, _ = json.Marshal(runJob(j))
			}
			out.Write(resp)
			out.WriteByte('\n')
			out.Flush()
		}
		if err != nil {
			os.Exit(0)
		}
	}
}

// Pool is a set of worker subprocesses.
type Pool struct {
	n       int
	mu      sync.Mutex
	workers []*workerProc
}

type workerProc struct {
	cmd *exec.Cmd
	in  *bufio.Writer
	out *bufio.Reader
}

var workerMu sync.Mutex
var workerSeq int
var raceLogs []string

// CleanupRaceLogs removes the race-detector log files of this process's workers.
func CleanupRaceLogs() {
	for _, rl := range raceLogs {
		m, _ := filepath.Glob(rl + ".*")
		for _, f := range m {
			_ = os.Remove(f)
		}
	}
}

// Workers returns the number of workers to use.
func Workers() int {
	if v := os.Getenv("VERIF_WORKERS"); v != "" {
		if n, err := strconv.Atoi(v); err == nil && n > 0 {
			return n
		}
	}
	n := runtime.NumCPU()
	if n > 16 {
		n = 16
	}
	return n
}

func startWorker() (*workerProc, error) {
	exe, err := os.Executable()
	if err != nil {
		return nil, err
	}
	cmd := exec.Command(exe, os.Args[1:]...)
	cmd.Env = append(os.Environ(), "VERIF_WORKER=1", "GOMAXPROCS=1")
	if os.Getenv("VERIF_RACE_BUILD") != "" {
		// race builds: each worker logs detector reports to its own file so that a
		// report can be attributed to the execution that produced it
		workerMu.Lock()
		workerSeq++
		rl := fmt.Sprintf("/dev/shm/verif-race-%d-%d", os.Getpid(), workerSeq)
		raceLogs = append(raceLogs, rl)
		workerMu.Unlock()
		cmd.Env = append(cmd.Env, "VERIF_RACE_LOG="+rl, "GORACE=log_path="+rl+" halt_on_error=0 exitcode=0")
	}
	cmd.Stderr = os.Stderr
	stdin, err := cmd.StdinPipe()
	if err != nil {
		return nil, err
	}
	stdout, err := cmd.StdoutPipe()
	if err != nil {
		return nil, err
	}
	if err := cmd.Start(); err != nil {
		return nil, err
	}
	return &workerProc{cmd: cmd, in: bufio.NewWriter(stdin), out: bufio.NewReaderSize(stdout, 1<<20)}, nil
}

func (w *workerProc) call(req interface{}, resp interface{}) error {
	b, _ := json.Marshal(req)
	if _, err := w.in.Write(append(b, '\n')); err != nil {
		return err
	}
	if err := w.in.Flush(); err != nil {
		return err
	}
	line, err := w.out.ReadBytes('\n')
	if err != nil {
		return fmt.Errorf("worker died: %v", err)
	}
	return json.Unmarshal(line, resp)
}

func (w *workerProc) stop() {
	_ = w.cmd.Process.Kill()
	_, _ = w.cmd.Process.Wait()
}

// parallel runs fn(worker, i) for i in [0,n) over a fresh pool of workers.
func parallel(n int, fn func(w *workerProc, i int) error) error {
	nw := Workers()
	if nw > n {
		nw = n
	}
	if nw == 0 {
		return nil
	}
	var mu sync.Mutex
	next := 0
	var firstErr error
	var wg sync.WaitGroup
	for k := 0; k < nw; k++ {
		wg.Add(1)
		go func() {
			defer wg.Done()
			w, err := startWorker()
			if err != nil {
				mu.Lock()
				if firstErr == nil {
					firstErr = err
				}
				mu.Unlock()
				return
			}
			defer w.stop()
			for {
				mu.Lock()
				i := next
				next++
				stop := firstErr != nil
				mu.Unlock()
				if i >= n || stop {
					return
				}
				if err := fn(w, i); err != nil {
					mu.Lock()
					if firstErr == nil {
						firstErr = err
					}
					mu.Unlock()
					return
				}
			}
		}()
	}
	wg.Wait()
	return firstErr
}

// Config of one exploration.
type Config struct {
	Scenario string
	Param    string
	Bound    int           // deviation bound
	Budget   time.Duration // wall-clock cap for this exploration (0 = none); hitting it => Exhaustive=false
	MaxSteps int           // 0: 20x the default execution
	MaxViol  int
	InProc   bool // explore in this process (tests, replay)
}

// Explore enumerates all executions of the scenario within cfg.Bound deviations.
func Explore(cfg Config) *Stats {
	t0 := time.Now()
	run, ok := scenarios[cfg.Scenario]
	total := newStats()
	total.Scenario, total.Param, total.Bound = cfg.Scenario, cfg.Param, cfg.Bound
	if !ok {
		total.Errors = append(total.Errors, "unknown scenario "+cfg.Scenario)
		return total
	}
	// the default execution, twice: determinism of the harness itself
	s0, r0 := run(verifmc.Options{MaxSteps: 1 << 20, LogSteps: false}, cfg.Param)
	s1, _ := run(verifmc.Options{MaxSteps: 1 << 20}, cfg.Param)
	total.DefaultSteps = s0.Steps
	if s0.Hash != s1.Hash || s0.Steps != s1.Steps || len(s0.Trace) != len(s1.Trace) {
		total.Errors = append(total.Errors, fmt.Sprintf("NONDETERMINISM: scenario %s: two default executions differ (steps %d/%d, points %d/%d)",
			cfg.Scenario, s0.Steps, s1.Steps, len(s0.Trace), len(s1.Trace)))
		return total
	}
	maxSteps := cfg.MaxSteps
	if maxSteps == 0 {
		maxSteps = 20*s0.Steps + 2000
	}
	var deadline int64
	if cfg.Budget > 0 {
		deadline = t0.Add(cfg.Budget).Unix()
	}
	root := job{Scenario: cfg.Scenario, Param: cfg.Param, Bound: cfg.Bound, MaxSteps: maxSteps, Deadline: deadline, MaxViol: cfg.MaxViol}
	for k := range KnownKeys {
		root.Known = append(root.Known, k)
	}
	sort.Strings(root.Known)
	total.Exhaustive = true
	if cfg.InProc || cfg.Bound == 0 || os.Getenv("VERIF_INPROC") != "" {
		res := runJob(root)
		absorb(total, res)
		if res.Cut {
			total.Exhaustive = false
		}
	} else {
		// level 0 (the default execution, already run above as s0/r0) is accounted
		// here; every level-1 subtree is a job for the workers
		w := &walker{run: run, j: job{Scenario: cfg.Scenario, Param: cfg.Param, Bound: 0, MaxSteps: maxSteps, MaxViol: 3, Known: root.Known}, st: newStats(), seenViol: map[string]bool{}}
		w.account(s0, r0, nil)
		total.merge(w.st)
		if !unlisted(w.st.Violations) && len(w.st.Errors) == 0 {
			var jobs []job
			for i, p := range s0.Trace {
				for alt := 1; alt < p.N; alt++ {
					np := make([]int, i+1)
					sg := make([]uint64, i+1)
					for k := 0; k < i; k++ {
						np[k] = s0.Trace[k].Chosen
					}
					for k := 0; k <= i; k++ {
						sg[k] = s0.Trace[k].Sig
					}
					np[i] = alt
					j := root
					j.Prefix, j.Sigs = np, sg
					jobs = append(jobs, j)
				}
			}
			// later choice points have smaller subtrees: start the big ones first
			var mu sync.Mutex
			err := parallel(len(jobs), func(wp *workerProc, i int) error {
				mu.Lock()
				stop := unlisted(total.Violations) || len(total.Errors) > 0
				mu.Unlock()
				if stop {
					return nil
				}
				if deadline != 0 && time.Now().Unix() > deadline {
					mu.Lock()
					total.Exhaustive = false
					mu.Unlock()
					return nil
				}
				var res jobResult
				if err := wp.call(jobs[i], &res); err != nil {
					return fmt.Errorf("job %d (prefix %v): %v", i, jobs[i].Prefix, err)
				}
				mu.Lock()
				absorb(total, res)
				if res.Cut {
					total.Exhaustive = false
				}
				mu.Unlock()
				return nil
			})
			if err != nil {
				total.Errors = append(total.Errors, "worker failure: "+err.Error())
				total.Exhaustive = false
			}
		}
	}
	// failures that can be seen only once per process are confirmed in a fresh one
	var kept []Violation
	for _, v := range total.Violations {
		fresh := false
		for _, n := range v.Notes {
			if n == "needs-fresh-confirm" {
				fresh = true
			}
		}
		if !fresh {
			kept = append(kept, v)
			continue
		}
		wp, err := startWorker()
		if err != nil {
			total.Errors = append(total.Errors, "cannot start a worker to confirm a violation: "+err.Error())
			continue
		}
		var resp map[string]string
		err = wp.call(map[string]interface{}{"kind": "replay", "v": v}, &resp)
		wp.stop()
		if err != nil {
			total.Errors = append(total.Errors, "confirming a violation in a fresh process failed: "+err.Error())
			continue
		}
		if resp["failure"] == "" {
			total.Errors = append(total.Errors, fmt.Sprintf("NONDETERMINISM: scenario %s: failure %q did not reproduce in a fresh process with choices %v", v.Scenario, firstLine(v.Failure), v.Choices))
			continue
		}
		v.Failure = resp["failure"]
		kept = append(kept, v)
	}
	total.Violations = kept
	if unlisted(total.Violations) || len(total.Errors) > 0 {
		total.Exhaustive = false
	}
	total.NOutcomes = len(total.Outcomes)
	total.ByDev = map[string]int64{}
	for k, v := range total.byDev {
		total.ByDev[strconv.Itoa(k)] = v
	}
	total.WallS = time.Since(t0).Seconds()
	return total
}

func absorb(total *Stats, res jobResult) {
	o := newStats()
	o.Executions, o.Nodes, o.Steps, o.MaxPoints, o.HorizonHits = res.Executions, res.Nodes, res.Steps, res.MaxPoints, res.HorizonHits
	if res.Outcomes != nil {
		o.Outcomes = res.Outcomes
	}
	if res.Counts != nil {
		o.Counts = res.Counts
	}
	if res.Flags != nil {
		o.Flags = res.Flags
	}
	if res.ByDev != nil {
		o.byDev = res.ByDev
	}
	o.Violations, o.Errors, o.Samples = res.Violations, res.Errors, res.Samples
	total.merge(o)
}

// Replay runs one recorded violation again and returns the failure ("" if it
// no longer fails) together with the step log.
func Replay(v *Violation) (string, []string, string) {
	run, ok := scenarios[v.Scenario]
	if !ok {
		return "unknown scenario " + v.Scenario, nil, ""
	}
	s, r := run(verifmc.Options{Prefix: v.Choices, LogSteps: true, MaxSteps: 1 << 20}, v.Param)
	return failureOf(s, r), stepsOf(s), s.Stack
}

// WriteReplay stores a violation under /verif/replays/<prop>/ and returns the path.
func WriteReplay(root, prop string, v *Violation) string {
	dir := filepath.Join(root, "replays", prop)
	_ = os.MkdirAll(dir, 0o755)
	b, _ := json.MarshalIndent(v, "", " ")
	name := fmt.Sprintf("%s-%s.json", sanitize(v.Scenario), hashStr(string(b))[:10])
	p := filepath.Join(dir, name)
	_ = os.WriteFile(p, b, 0o644)
	return p
}

func sanitize(s string) string {
	var b strings.Builder
	for _, c := range s {
		if c >= 'a' && c <= 'z' || c >= 'A' && c <= 'Z' || c >= '0' && c <= '9' || c == '-' || c == '_' {
			b.WriteRune(c)
		} else {
			b.WriteByte('_')
		}
	}
	return b.String()
}

// SortedKeys is a small helper for deterministic output.
func SortedKeys(m map[string]int64) []string {
	var ks []string
	for k := range m {
		ks = append(ks, k)
	}
	sort.Strings(ks)
	return ks
}

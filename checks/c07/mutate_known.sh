#!/bin/bash
# mutate_known.sh <patch.diff> [tier]: like /verif/mutate.sh for C07, but the check binary built
# from the mutated scratch worktree is run with the C07 known findings of the unchanged tree
# (checks/c07/known_findings_c07.json) in force, so that DETECTED means "a violation that the
# unchanged tree does not have".  Needed only until those keys are listed in /verif/known_findings.json.
set -u
cd "$(dirname "$0")/../.."
P=$(realpath "$1"); TIER=${2:-quick}
W=/tmp/verif-mut-$$-$RANDOM
name=$(echo $W | tr -c 'A-Za-z0-9' '_')
R=/dev/shm/verif-c07-mut-$$
git -C /repo worktree add -q --detach $W HEAD || exit 2
trap 'git -C /repo worktree remove --force $W >/dev/null 2>&1; rm -rf /verif/build/alt/$name $R' EXIT
git -C $W apply "$P" || { echo "patch does not apply"; exit 2; }
VERIF_REPO=$W ./run.sh C07 noop || { echo "build failed"; exit 2; }
mkdir -p $R && cp checks/c07/known_findings_c07.json $R/known_findings.json
VERIF_ROOT=$R VERIF_OUT=$R build/alt/$name/c07 $TIER > $R/log 2>&1
rc=$?
grep -v "^\[.*counts:\|^KNOWN-FINDING" $R/log | tail -${MUTATE_TAIL:-4} | cut -c1-420 | sed 's/^/    /'
if [ $rc -eq 1 ] && grep -q "^VIOLATION property=C07" $R/log; then echo "DETECTED $(basename $P) by C07 ($TIER)"; else echo "MISSED $(basename $P) by C07 ($TIER) rc=$rc"; fi

// mcrewrite generates the build overlay under which the checks compile bluge:
//
//   - every non-test file of <repo>/index is rewritten (purely syntactically) so
//     that goroutine spawns, channel operations, select, close and the sync
//     primitives go through the verifmc shim;
//   - the shim itself is added as the virtual package
//     github.com/blugelabs/bluge/verifmc (+ /msync);
//   - the hook files under <hooks>/<pkgdir>/*.go are added to the matching
//     package directory of the repository.
//
// Nothing is written inside the repository.  A post-pass type-checks the
// ORIGINAL package and refuses (exit 2) constructs the rewrite cannot control:
// range over a channel, sync.Cond, reflect.Select, raw constructs left over.
//
// Usage: mcrewrite -repo /repo -out DIR -shim DIR -hooks DIR [-norewrite]
package main

import (
	"bytes"
	"encoding/json"
	"flag"
	"fmt"
	"go/ast"
	"go/build"
	"go/format"
	"go/importer"
	"go/parser"
	"go/token"
	"go/types"
	"os"
	"os/exec"
	"path/filepath"
	"runtime"
	"sort"
	"strconv"
	"strings"
)

const shimPath = "github.com/blugelabs/bluge/verifmc"

var tmpN int

// mapRanges holds "file:line:col" of every `for … range m` over a map with an
// ordered key type (found by the type-checking pass); those loops are rewritten
// to iterate in sorted key order, so that executions do not depend on Go's map
// iteration order.
var mapRanges = map[string]bool{}
var curFset *token.FileSet

func tmp(p string) string { tmpN++; return fmt.Sprintf("__mc_%s%d", p, tmpN) }

func sel(x, s string) *ast.SelectorExpr {
	return &ast.SelectorExpr{X: ast.NewIdent(x), Sel: ast.NewIdent(s)}
}
func call(fn ast.Expr, args ...ast.Expr) *ast.CallExpr { return &ast.CallExpr{Fun: fn, Args: args} }

func die(code int, f string, a ...interface{}) {
	fmt.Fprintf(os.Stderr, "mcrewrite: "+f+"\n", a...)
	os.Exit(code)
}

// rewriteExpr rewrites receive expressions, close() and time.After inside e.
func rewriteExpr(e ast.Expr) ast.Expr {
	if e == nil {
		return nil
	}
	var out ast.Expr = e
	switch x := e.(type) {
	case *ast.UnaryExpr:
		x.X = rewriteExpr(x.X)
		if x.Op == token.ARROW {
			out = call(sel("verifmc", "Recv"), x.X)
		}
	case *ast.CallExpr:
		x.Fun = rewriteExpr(x.Fun)
		for i := range x.Args {
			x.Args[i] = rewriteExpr(x.Args[i])
		}
		if id, ok := x.Fun.(*ast.Ident); ok && id.Name == "close" && len(x.Args) == 1 {
			out = call(sel("verifmc", "Close"), x.Args[0])
		}
		if s, ok := x.Fun.(*ast.SelectorExpr); ok {
			if id, ok := s.X.(*ast.Ident); ok && id.Name == "time" && s.Sel.Name == "After" {
				out = call(sel("verifmc", "After"), x.Args...)
			}
		}
	case *ast.BinaryExpr:
		x.X, x.Y = rewriteExpr(x.X), rewriteExpr(x.Y)
	case *ast.ParenExpr:
		x.X = rewriteExpr(x.X)
	case *ast.SelectorExpr:
		x.X = rewriteExpr(x.X)
	case *ast.IndexExpr:
		x.X, x.Index = rewriteExpr(x.X), rewriteExpr(x.Index)
	case *ast.SliceExpr:
		x.X, x.Low, x.High, x.Max = rewriteExpr(x.X), rewriteExpr(x.Low), rewriteExpr(x.High), rewriteExpr(x.Max)
	case *ast.StarExpr:
		x.X = rewriteExpr(x.X)
	case *ast.TypeAssertExpr:
		x.X = rewriteExpr(x.X)
	case *ast.KeyValueExpr:
		x.Key, x.Value = rewriteExpr(x.Key), rewriteExpr(x.Value)
	case *ast.CompositeLit:
		for i := range x.Elts {
			x.Elts[i] = rewriteExpr(x.Elts[i])
		}
	case *ast.FuncLit:
		rewriteBlock(x.Body)
	}
	return out
}

func rewriteExprs(es []ast.Expr) {
	for i := range es {
		es[i] = rewriteExpr(es[i])
	}
}

func rewriteBlock(b *ast.BlockStmt) {
	if b == nil {
		return
	}
	b.List = rewriteStmts(b.List)
}

func rewriteStmts(in []ast.Stmt) []ast.Stmt {
	var out []ast.Stmt
	for _, s := range in {
		out = append(out, rewriteStmt(s))
	}
	return out
}

func rewriteStmt(s ast.Stmt) ast.Stmt {
	switch x := s.(type) {
	case nil:
		return nil
	case *ast.SendStmt:
		return &ast.ExprStmt{X: call(sel("verifmc", "Send"), rewriteExpr(x.Chan), rewriteExpr(x.Value))}
	case *ast.GoStmt:
		return rewriteGo(x)
	case *ast.SelectStmt:
		return rewriteSelect(x)
	case *ast.ExprStmt:
		x.X = rewriteExpr(x.X)
	case *ast.AssignStmt:
		// v, ok := <-ch
		if len(x.Lhs) == 2 && len(x.Rhs) == 1 {
			if u, ok := x.Rhs[0].(*ast.UnaryExpr); ok && u.Op == token.ARROW {
				x.Rhs[0] = call(sel("verifmc", "Recv2"), rewriteExpr(u.X))
				rewriteExprs(x.Lhs)
				return x
			}
		}
		rewriteExprs(x.Lhs)
		rewriteExprs(x.Rhs)
	case *ast.DeclStmt:
		if gd, ok := x.Decl.(*ast.GenDecl); ok {
			for _, sp := range gd.Specs {
				if vs, ok := sp.(*ast.ValueSpec); ok {
					if len(vs.Names) == 2 && len(vs.Values) == 1 {
						if u, ok := vs.Values[0].(*ast.UnaryExpr); ok && u.Op == token.ARROW {
							vs.Values[0] = call(sel("verifmc", "Recv2"), rewriteExpr(u.X))
							continue
						}
					}
					rewriteExprs(vs.Values)
				}
			}
		}
	case *ast.ReturnStmt:
		rewriteExprs(x.Results)
	case *ast.IfStmt:
		x.Init = rewriteStmt(x.Init)
		x.Cond = rewriteExpr(x.Cond)
		rewriteBlock(x.Body)
		x.Else = rewriteStmt(x.Else)
	case *ast.ForStmt:
		x.Init = rewriteStmt(x.Init)
		x.Cond = rewriteExpr(x.Cond)
		x.Post = rewriteStmt(x.Post)
		rewriteBlock(x.Body)
	case *ast.RangeStmt:
		x.X = rewriteExpr(x.X)
		rewriteBlock(x.Body)
		if isMapRange(x) {
			pre, loop := sortedMapRange(x)
			return &ast.BlockStmt{List: []ast.Stmt{pre, loop}}
		}
	case *ast.BlockStmt:
		rewriteBlock(x)
	case *ast.SwitchStmt:
		x.Init = rewriteStmt(x.Init)
		x.Tag = rewriteExpr(x.Tag)
		rewriteBlock(x.Body)
	case *ast.TypeSwitchStmt:
		x.Init = rewriteStmt(x.Init)
		x.Assign = rewriteStmt(x.Assign)
		rewriteBlock(x.Body)
	case *ast.CaseClause:
		rewriteExprs(x.List)
		x.Body = rewriteStmts(x.Body)
	case *ast.LabeledStmt:
		if r, ok := x.Stmt.(*ast.RangeStmt); ok && isMapRange(r) {
			r.X = rewriteExpr(r.X)
			rewriteBlock(r.Body)
			pre, loop := sortedMapRange(r)
			x.Stmt = loop // the label stays on the loop: break / continue LABEL keep their meaning
			return &ast.BlockStmt{List: []ast.Stmt{pre, x}}
		}
		x.Stmt = rewriteStmt(x.Stmt)
	case *ast.DeferStmt:
		x.Call = rewriteExpr(x.Call).(*ast.CallExpr)
	case *ast.IncDecStmt:
		x.X = rewriteExpr(x.X)
	}
	return s
}

func isMapRange(x *ast.RangeStmt) bool {
	if curFset == nil {
		return false
	}
	p := curFset.Position(x.For)
	return mapRanges[fmt.Sprintf("%s:%d:%d", filepath.Base(p.Filename), p.Line, p.Column)]
}

// for k, v := range m { body }  =>
//
//	__m := m
//	for _, __k := range verifmc.SortedKeys(__m) {
//		v, __ok := __m[__k]; if !__ok { continue }   // an entry removed meanwhile is not produced
//		k := __k
//		body
//	}
func sortedMapRange(x *ast.RangeStmt) (ast.Stmt, ast.Stmt) {
	m, k, v, ok := tmp("m"), tmp("k"), tmp("v"), tmp("ok")
	pre := &ast.AssignStmt{Lhs: []ast.Expr{ast.NewIdent(m)}, Tok: token.DEFINE, Rhs: []ast.Expr{x.X}}
	var head []ast.Stmt
	head = append(head,
		&ast.AssignStmt{Lhs: []ast.Expr{ast.NewIdent(v), ast.NewIdent(ok)}, Tok: token.DEFINE,
			Rhs: []ast.Expr{&ast.IndexExpr{X: ast.NewIdent(m), Index: ast.NewIdent(k)}}},
		&ast.IfStmt{Cond: &ast.UnaryExpr{Op: token.NOT, X: ast.NewIdent(ok)}, Body: &ast.BlockStmt{List: []ast.Stmt{&ast.BranchStmt{Tok: token.CONTINUE}}}},
		&ast.AssignStmt{Lhs: []ast.Expr{ast.NewIdent("_")}, Tok: token.ASSIGN, Rhs: []ast.Expr{ast.NewIdent(v)}},
	)
	tok := x.Tok
	if tok == token.ILLEGAL {
		tok = token.DEFINE
	}
	if id, isID := x.Key.(*ast.Ident); x.Key != nil && !(isID && id.Name == "_") {
		head = append(head, &ast.AssignStmt{Lhs: []ast.Expr{x.Key}, Tok: tok, Rhs: []ast.Expr{ast.NewIdent(k)}})
	}
	if id, isID := x.Value.(*ast.Ident); x.Value != nil && !(isID && id.Name == "_") {
		head = append(head, &ast.AssignStmt{Lhs: []ast.Expr{x.Value}, Tok: tok, Rhs: []ast.Expr{ast.NewIdent(v)}})
	}
	body := &ast.BlockStmt{List: append(head, x.Body.List...)}
	loop := &ast.RangeStmt{Key: ast.NewIdent("_"), Value: ast.NewIdent(k), Tok: token.DEFINE,
		X: call(sel("verifmc", "SortedKeys"), ast.NewIdent(m)), Body: body}
	return pre, loop
}

// go f(a, b)  =>  { fn, a0, a1 := f, a, b ; verifmc.Go(func(){ fn(a0,a1) }) }
func rewriteGo(g *ast.GoStmt) ast.Stmt {
	c := g.Call
	c.Fun = rewriteExpr(c.Fun)
	rewriteExprs(c.Args)
	var lhs, rhs []ast.Expr
	fn := tmp("fn")
	lhs = append(lhs, ast.NewIdent(fn))
	rhs = append(rhs, c.Fun)
	var args []ast.Expr
	for _, a := range c.Args {
		n := tmp("a")
		lhs = append(lhs, ast.NewIdent(n))
		rhs = append(rhs, a)
		args = append(args, ast.NewIdent(n))
	}
	inner := &ast.CallExpr{Fun: ast.NewIdent(fn), Args: args, Ellipsis: c.Ellipsis}
	return &ast.BlockStmt{List: []ast.Stmt{
		&ast.AssignStmt{Lhs: lhs, Tok: token.DEFINE, Rhs: rhs},
		&ast.ExprStmt{X: call(sel("verifmc", "Go"), &ast.FuncLit{
			Type: &ast.FuncType{Params: &ast.FieldList{}},
			Body: &ast.BlockStmt{List: []ast.Stmt{&ast.ExprStmt{X: inner}}},
		})},
	}}
}

// select: channel and value operands are evaluated once, in source order,
// into temporaries; then verifmc.Select decides; the clause bodies move into
// a switch on the chosen index (break / continue LABEL keep their meaning).
func rewriteSelect(s *ast.SelectStmt) ast.Stmt {
	selv := tmp("sel")
	var pre []ast.Stmt
	var caseExprs []ast.Expr
	var clauses []ast.Stmt
	hasDefault := false
	idx := 0
	evalOnce := func(e ast.Expr, p string) ast.Expr {
		n := tmp(p)
		pre = append(pre, &ast.AssignStmt{Lhs: []ast.Expr{ast.NewIdent(n)}, Tok: token.DEFINE, Rhs: []ast.Expr{e}})
		return ast.NewIdent(n)
	}
	for _, cl := range s.Body.List {
		cc := cl.(*ast.CommClause)
		body := rewriteStmts(cc.Body)
		if cc.Comm == nil {
			hasDefault = true
			clauses = append(clauses, &ast.CaseClause{List: nil, Body: body})
			continue
		}
		var first []ast.Stmt
		switch c := cc.Comm.(type) {
		case *ast.SendStmt:
			ch := evalOnce(rewriteExpr(c.Chan), "ch")
			v := rewriteExpr(c.Value)
			caseExprs = append(caseExprs, call(sel("verifmc", "CaseSend"), ch, v))
		case *ast.ExprStmt: // <-ch
			u, ok := c.X.(*ast.UnaryExpr)
			if !ok || u.Op != token.ARROW {
				die(2, "unsupported select clause")
			}
			ch := evalOnce(rewriteExpr(u.X), "ch")
			caseExprs = append(caseExprs, call(sel("verifmc", "CaseRecv"), ch))
		case *ast.AssignStmt: // v := <-ch ; v, ok = <-ch
			u, ok := c.Rhs[0].(*ast.UnaryExpr)
			if !ok || u.Op != token.ARROW {
				die(2, "unsupported select clause")
			}
			ch := evalOnce(rewriteExpr(u.X), "ch")
			caseExprs = append(caseExprs, call(sel("verifmc", "CaseRecv"), ch))
			var rhs ast.Expr
			if len(c.Lhs) == 2 {
				rhs = call(sel("verifmc", "Got2"), ch, ast.NewIdent(selv))
			} else {
				rhs = call(sel("verifmc", "Got"), ch, ast.NewIdent(selv))
			}
			first = append(first, &ast.AssignStmt{Lhs: c.Lhs, Tok: c.Tok, Rhs: []ast.Expr{rhs}})
			// keep "declared and not used" away when the body ignores the value
			if c.Tok == token.DEFINE {
				for _, l := range c.Lhs {
					if id, ok := l.(*ast.Ident); ok && id.Name != "_" {
						first = append(first, &ast.AssignStmt{Lhs: []ast.Expr{ast.NewIdent("_")}, Tok: token.ASSIGN, Rhs: []ast.Expr{ast.NewIdent(id.Name)}})
					}
				}
			}
		default:
			die(2, "unsupported select clause %T", cc.Comm)
		}
		clauses = append(clauses, &ast.CaseClause{
			List: []ast.Expr{&ast.BasicLit{Kind: token.INT, Value: strconv.Itoa(idx)}},
			Body: append(first, body...),
		})
		idx++
	}
	hd := "false"
	if hasDefault {
		hd = "true"
	}
	args := append([]ast.Expr{ast.NewIdent(hd)}, caseExprs...)
	list := append(pre,
		&ast.AssignStmt{Lhs: []ast.Expr{ast.NewIdent(selv)}, Tok: token.DEFINE,
			Rhs: []ast.Expr{call(sel("verifmc", "Select"), args...)}},
		&ast.SwitchStmt{Tag: &ast.SelectorExpr{X: ast.NewIdent(selv), Sel: ast.NewIdent("Index")},
			Body: &ast.BlockStmt{List: clauses}})
	return &ast.BlockStmt{List: list}
}

// leftovers reports raw concurrency constructs still present in a file.
func leftovers(f *ast.File) []string {
	var out []string
	ast.Inspect(f, func(n ast.Node) bool {
		switch x := n.(type) {
		case *ast.SendStmt:
			out = append(out, "send statement")
		case *ast.GoStmt:
			out = append(out, "go statement")
		case *ast.SelectStmt:
			out = append(out, "select statement")
		case *ast.UnaryExpr:
			if x.Op == token.ARROW {
				out = append(out, "receive expression")
			}
		}
		return true
	})
	return out
}

// typeCheck loads the ORIGINAL package with go/types and reports constructs
// that are outside the rewrite's reach.
func typeCheck(dir string, files []string) []string {
	fset := token.NewFileSet()
	var afs []*ast.File
	for _, f := range files {
		if ok, _ := build.Default.MatchFile(filepath.Dir(f), filepath.Base(f)); !ok {
			continue
		}
		af, err := parser.ParseFile(fset, f, nil, 0)
		if err != nil {
			die(2, "parse %s: %v", f, err)
		}
		afs = append(afs, af)
	}
	info := &types.Info{Types: map[ast.Expr]types.TypeAndValue{}, Uses: map[*ast.Ident]types.Object{}}
	var terrs []string
	conf := types.Config{Importer: importer.ForCompiler(fset, "source", nil), Error: func(e error) { terrs = append(terrs, e.Error()) }}
	_, _ = conf.Check("github.com/blugelabs/bluge/index", fset, afs, info)
	if len(terrs) > 0 {
		die(2, "type check of the original package failed (cannot vouch for the rewrite): %s", strings.Join(terrs[:min(3, len(terrs))], "; "))
	}
	var bad []string
	for _, af := range afs {
		ast.Inspect(af, func(n ast.Node) bool {
			switch x := n.(type) {
			case *ast.RangeStmt:
				if tv, ok := info.Types[x.X]; ok && tv.Type != nil {
					if _, isChan := tv.Type.Underlying().(*types.Chan); isChan {
						bad = append(bad, fmt.Sprintf("%s: range over channel", fset.Position(x.Pos())))
					}
					if mt, isMap := tv.Type.Underlying().(*types.Map); isMap {
						if b, isBasic := mt.Key().Underlying().(*types.Basic); isBasic && b.Info()&(types.IsInteger|types.IsString|types.IsFloat) != 0 {
							p := fset.Position(x.For)
							mapRanges[fmt.Sprintf("%s:%d:%d", filepath.Base(p.Filename), p.Line, p.Column)] = true
						} else {
							bad = append(bad, fmt.Sprintf("%s: range over a map whose key type cannot be sorted", fset.Position(x.Pos())))
						}
					}
				}
			case *ast.SelectorExpr:
				if id, ok := x.X.(*ast.Ident); ok {
					if pn, ok := info.Uses[id].(*types.PkgName); ok {
						p := pn.Imported().Path()
						if (p == "sync" && (x.Sel.Name == "Cond" || x.Sel.Name == "NewCond")) ||
							(p == "reflect" && x.Sel.Name == "Select") ||
							(p == "time" && (x.Sel.Name == "NewTimer" || x.Sel.Name == "NewTicker" || x.Sel.Name == "Tick" || x.Sel.Name == "AfterFunc" || x.Sel.Name == "Sleep")) {
							bad = append(bad, fmt.Sprintf("%s: %s.%s is not modelled", fset.Position(x.Pos()), p, x.Sel.Name))
						}
					}
				}
			}
			return true
		})
	}
	return bad
}

func main() {
	repo := flag.String("repo", "/repo", "repository root")
	out := flag.String("out", "", "output directory for generated files")
	shim := flag.String("shim", "", "directory holding the verifmc sources")
	hooks := flag.String("hooks", "", "directory holding hook files, laid out like the repository")
	check := flag.Bool("typecheck", true, "type-check the original package for unsupported constructs")
	flag.Parse()
	if *out == "" || *shim == "" {
		die(2, "usage: mcrewrite -repo R -out D -shim S [-hooks H]")
	}
	_ = os.RemoveAll(filepath.Join(*out, "index"))
	if err := os.MkdirAll(filepath.Join(*out, "index"), 0o755); err != nil {
		die(2, "%v", err)
	}
	overlay := map[string]string{}
	src := filepath.Join(*repo, "index")
	files, _ := filepath.Glob(filepath.Join(src, "*.go"))
	sort.Strings(files)
	var nonTest []string
	counts := map[string]int{}
	for _, f := range files {
		if !strings.HasSuffix(f, "_test.go") {
			nonTest = append(nonTest, f)
		}
	}
	// first the type-checking pass over the ORIGINAL package: refuses constructs the
	// rewrite cannot control and finds the map ranges that are made deterministic
	if bad := typeCheck(src, nonTest); len(bad) > 0 {
		die(2, "unsupported constructs:\n  %s", strings.Join(bad, "\n  "))
	}
	_ = check
	for _, f := range nonTest {
		fset := token.NewFileSet()
		curFset = fset
		af, err := parser.ParseFile(fset, f, nil, parser.ParseComments)
		if err != nil {
			die(2, "parse %s: %v", f, err)
		}
		for _, im := range af.Imports {
			if im.Path.Value == `"sync"` {
				if im.Name != nil && im.Name.Name != "sync" {
					die(2, "%s: renamed import of sync is not supported", f)
				}
				im.Path.Value = strconv.Quote(shimPath + "/msync")
				im.Name = ast.NewIdent("sync")
				counts["sync-import"]++
			}
		}
		for _, d := range af.Decls {
			switch x := d.(type) {
			case *ast.FuncDecl:
				rewriteBlock(x.Body)
			case *ast.GenDecl:
				for _, sp := range x.Specs {
					if vs, ok := sp.(*ast.ValueSpec); ok {
						rewriteExprs(vs.Values)
					}
				}
			}
		}
		if l := leftovers(af); len(l) > 0 {
			die(2, "%s: raw concurrency construct left after rewriting: %v", f, l)
		}
		var buf bytes.Buffer
		af.Comments = nil // positions are stale after rewriting
		af.Doc = nil
		if err := format.Node(&buf, fset, af); err != nil {
			die(2, "%s: %v", f, err)
		}
		txt := buf.String()
		counts["verifmc-calls"] += strings.Count(txt, "verifmc.")
		if strings.Contains(txt, "verifmc.") {
			if strings.Contains(txt, "\nimport ") {
				txt = strings.Replace(txt, "\nimport ", "\nimport \""+shimPath+"\"\nimport ", 1)
			} else {
				// a file without imports: add one after the package clause
				i := strings.Index(txt, "package ")
				j := i + strings.IndexByte(txt[i:], '\n')
				txt = txt[:j+1] + "\nimport \"" + shimPath + "\"\n" + txt[j+1:]
			}
		}
		cons := "go1.21"
		orig, _ := os.ReadFile(f)
		for _, ln := range strings.Split(string(orig), "\n") {
			if strings.HasPrefix(ln, "//go:build ") {
				cons = "(" + strings.TrimPrefix(ln, "//go:build ") + ") && go1.21"
			}
			if strings.HasPrefix(ln, "package ") {
				break
			}
		}
		txt = "//go:build " + cons + "\n\n" + txt
		o := filepath.Join(*out, "index", filepath.Base(f))
		if err := os.WriteFile(o, []byte(txt), 0o644); err != nil {
			die(2, "%v", err)
		}
		overlay[f] = o
	}
	counts["map-ranges"] = len(mapRanges)
	// shim as a virtual package inside the bluge module
	for _, sub := range []string{"", "msync"} {
		fs, _ := filepath.Glob(filepath.Join(*shim, sub, "*.go"))
		for _, f := range fs {
			overlay[filepath.Join(*repo, "verifmc", sub, filepath.Base(f))] = f
		}
	}
	// hook files
	if *hooks != "" {
		_ = filepath.Walk(*hooks, func(p string, fi os.FileInfo, err error) error {
			if err != nil || fi.IsDir() || !strings.HasSuffix(p, ".go") {
				return nil
			}
			rel, _ := filepath.Rel(*hooks, p)
			if strings.HasPrefix(rel, "goroot"+string(filepath.Separator)) {
				return nil
			}
			overlay[filepath.Join(*repo, rel)] = p
			return nil
		})
	}
	// performance only: vellum clears a 10000x2-cell registry for every FST it
	// builds (half of the CPU time of a small execution).  The table size is a
	// public tuning knob (BuilderOpts) that only affects how well equal
	// suffixes are shared; the overlay shrinks the default.
	if os.Getenv("VERIF_NO_VELLUM_TWEAK") == "" {
		cmd := exec.Command("go", "list", "-m", "-f", "{{.Dir}}", "github.com/blevesearch/vellum")
		cmd.Dir = *repo
		if outb, err := cmd.Output(); err == nil {
			vf := filepath.Join(strings.TrimSpace(string(outb)), "builder.go")
			if b, err := os.ReadFile(vf); err == nil && bytes.Contains(b, []byte("RegistryTableSize: 10000,")) {
				nb := bytes.Replace(b, []byte("RegistryTableSize: 10000,"), []byte("RegistryTableSize: 64,"), 1)
				_ = os.MkdirAll(filepath.Join(*out, "vellum"), 0o755)
				o := filepath.Join(*out, "vellum", "builder.go")
				if os.WriteFile(o, nb, 0o644) == nil {
					overlay[vf] = o
				}
			}
		}
	}
	// performance only: ice pre-sizes the buffer of a new segment for 100 more
	// documents than the batch holds; for one-document batches that is most of
	// the allocation volume of an execution.
	if os.Getenv("VERIF_NO_ICE_TWEAK") == "" {
		for _, mod := range []string{"github.com/blugelabs/ice", "github.com/blugelabs/ice/v2"} {
			cmd := exec.Command("go", "list", "-m", "-f", "{{.Dir}}", mod)
			cmd.Dir = *repo
			if outb, err := cmd.Output(); err == nil {
				vf := filepath.Join(strings.TrimSpace(string(outb)), "new.go")
				pat := []byte("var newSegmentBufferNumResultsBump = 100")
				if b, err := os.ReadFile(vf); err == nil && bytes.Contains(b, pat) {
					nb := bytes.Replace(b, pat, []byte("var newSegmentBufferNumResultsBump = 1"), 1)
					sub := "ice" + strings.TrimPrefix(mod, "github.com/blugelabs/ice")
					_ = os.MkdirAll(filepath.Join(*out, sub), 0o755)
					o := filepath.Join(*out, sub, "new.go")
					if os.WriteFile(o, nb, 0o644) == nil {
						overlay[vf] = o
					}
				}
			}
		}
	}
	js, _ := json.MarshalIndent(map[string]interface{}{"Replace": overlay}, "", " ")
	if err := os.WriteFile(filepath.Join(*out, "overlay.json"), js, 0o644); err != nil {
		die(2, "%v", err)
	}
	// second overlay (C13 only): package os with observable Write / Sync / Truncate
	goroot := runtime.GOROOT()
	if outb, err := exec.Command("go", "env", "GOROOT").Output(); err == nil {
		goroot = strings.TrimSpace(string(outb))
	}
	osOverlay := map[string]string{}
	for k, v := range overlay {
		osOverlay[k] = v
	}
	patch := func(file string, reps [][2]string, extra string) {
		src := filepath.Join(goroot, "src", "os", file)
		b, err := os.ReadFile(src)
		if err != nil {
			die(2, "os hook: %v", err)
		}
		txt := string(b)
		for _, r := range reps {
			if !strings.Contains(txt, r[0]) {
				die(2, "os hook: pattern %q not found in %s", r[0], src)
			}
			txt = strings.Replace(txt, r[0], r[1], 1)
		}
		txt += extra
		_ = os.MkdirAll(filepath.Join(*out, "os"), 0o755)
		o := filepath.Join(*out, "os", file)
		if err := os.WriteFile(o, []byte(txt), 0o644); err != nil {
			die(2, "%v", err)
		}
		osOverlay[src] = o
	}
	patch("file_posix.go", [][2]string{
		{"func (f *File) Sync() error {\n", "func (f *File) Sync() error {\n\tif VerifHook != nil {\n\t\tVerifHook(\"sync\", f, 0)\n\t}\n"},
	}, "\n// VerifHook observes Write / Sync / Truncate calls (verification overlay only).\nvar VerifHook func(op string, f *File, n int64)\n")
	patch("file.go", [][2]string{
		{"func (f *File) Write(b []byte) (n int, err error) {\n", "func (f *File) Write(b []byte) (n int, err error) {\n\tif VerifHook != nil {\n\t\tdefer func() { VerifHook(\"write\", f, int64(n)) }()\n\t}\n"},
	}, "")
	js, _ = json.MarshalIndent(map[string]interface{}{"Replace": osOverlay}, "", " ")
	if err := os.WriteFile(filepath.Join(*out, "overlay_os.json"), js, 0o644); err != nil {
		die(2, "%v", err)
	}
	fmt.Printf("mcrewrite: %d files rewritten, %d shim calls, %d sync imports replaced, %d map ranges made deterministic, overlay entries %d\n",
		len(nonTest), counts["verifmc-calls"], counts["sync-import"], counts["map-ranges"], len(overlay))
}

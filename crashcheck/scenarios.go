package crashcheck

import "verif/harness"

func u(id, v string) harness.Op  { return harness.Op{Kind: 'U', ID: id, Ver: v} }
func in(id, v string) harness.Op { return harness.Op{Kind: 'I', ID: id, Ver: v} }
func d(id string) harness.Op     { return harness.Op{Kind: 'D', ID: id} }

type B = harness.BatchSpec

// Scenarios shared by C02, C03, C11 and C14.
var Scenarios = map[string]Scenario{
	// one client, safe mode, conflict-heavy batches (update, delete-only, re-insert)
	"safe3": {
		Clients:      [][]B{{{in("a", "1"), in("b", "1")}, {u("a", "2"), d("b")}, {d("a"), in("b", "3")}}},
		Continuation: []B{{u("a", "9")}},
	},
	// one client, unsafe mode with persisted-callbacks as acknowledgements
	"unsafe3cb": {
		Clients:      [][]B{{{in("a", "1"), in("b", "1")}, {u("a", "2"), d("b")}, {d("a"), in("b", "3")}}},
		Opts:         harness.Opts{Unsafe: true},
		Callbacks:    true,
		Settle:       true,
		Continuation: []B{{u("b", "9")}},
	},
	// two concurrent clients, safe mode
	"safe2x2": {
		Clients:      [][]B{{{u("a", "1")}, {d("a"), u("b", "2")}}, {{u("a", "3")}, {u("b", "4")}}},
		Continuation: []B{{d("b")}},
	},
	// two concurrent clients, one batch each
	"safe2x1": {
		Pre:          []B{{in("a", "0")}},
		Clients:      [][]B{{{u("a", "1")}}, {{d("a"), in("b", "2")}}},
		Continuation: []B{{u("a", "9")}},
	},
	// two concurrent clients in unsafe mode, acknowledged through callbacks (fired by the persister itself)
	"unsafe2x1cb": {
		Pre:          []B{{in("a", "0")}},
		Clients:      [][]B{{{u("a", "1")}}, {{d("a"), in("b", "2")}}},
		Opts:         harness.Opts{Unsafe: true},
		Callbacks:    true,
		Settle:       true,
		Continuation: []B{{u("a", "9")}},
	},
	// the same with the client threads created first (lower thread ids: clients-first default schedule)
	"unsafe2x1cb-cf": {
		Pre:          []B{{in("a", "0")}},
		Clients:      [][]B{{{u("a", "1")}}, {{d("a"), in("b", "2")}}},
		Opts:         harness.Opts{Unsafe: true},
		Callbacks:    true,
		Settle:       true,
		ClientsFirst: true,
		Continuation: []B{{u("a", "9")}},
	},
	"safe2x1-cf": {
		Pre:          []B{{in("a", "0")}},
		Clients:      [][]B{{{u("a", "1")}}, {{d("a"), in("b", "2")}}},
		ClientsFirst: true,
		Continuation: []B{{u("a", "9")}},
	},
	// clients first, unsafe + callbacks: two batches pile up in memory (in-memory merge by the persister),
	// a third one deletes every document of the first two (the merge introduction may be skipped)
	"unsafe3del-cf": {
		Clients:      [][]B{{{in("a", "1")}, {in("b", "1")}, {d("a"), d("b"), in("z", "1")}}},
		Opts:         harness.Opts{Unsafe: true},
		Callbacks:    true,
		Settle:       true,
		ClientsFirst: true,
		Continuation: []B{{u("z", "9")}},
	},
	// the same shape with an UPDATE as third batch: the in-memory merge is introduced with a deletion that
	// belongs to a later batch than the snapshot being written
	"unsafe3upd-cf": {
		Clients:      [][]B{{{in("a", "1")}, {in("b", "1")}, {u("a", "2")}}},
		Opts:         harness.Opts{Unsafe: true},
		Callbacks:    true,
		Settle:       true,
		ClientsFirst: true,
		Continuation: []B{{u("b", "9")}},
	},
	// eager merge plan: file merges and clean-ups happen between the batches
	"merge4": {
		Clients:      [][]B{{{in("a", "1")}, {in("b", "1")}, {u("a", "2")}, {d("b")}}},
		Opts:         harness.Opts{EagerMerge: true},
		Continuation: []B{{in("c", "9")}},
	},
	// multi-document segments under eager merging: deletes land on segments with and without earlier
	// deletions while they are being merged
	"merge-late": {
		Clients:      [][]B{{{in("a", "1"), in("b", "1"), in("c", "1")}, {d("a")}, {in("e", "1")}, {d("b")}, {in("f", "1")}}},
		Opts:         harness.Opts{EagerMerge: true},
		Continuation: []B{{d("c")}},
	},
	// retention of two snapshots
	"safe3keep2": {
		Clients:      [][]B{{{in("a", "1"), in("b", "1")}, {u("a", "2"), d("b")}, {d("a"), in("b", "3")}}},
		Opts:         harness.Opts{Retain: 2},
		Continuation: []B{{u("a", "9")}},
	},
	// unsafe batches piling up in memory: in-memory merge + persist, callbacks
	"unsafe4merge": {
		Clients:      [][]B{{{in("a", "1")}, {in("b", "1")}, {u("a", "2")}, {d("b"), in("c", "1")}}},
		Opts:         harness.Opts{Unsafe: true, EagerMerge: true},
		Callbacks:    true,
		Settle:       true,
		Continuation: []B{{d("a")}},
	},
}

package main

// Boolean core: every assignment of the terms x, y, z to five live documents
// laid out as two segments (3 + 2 live documents, one pending deletion in
// each), canonicalised under permutation of the three terms, against every
// boolean query of the stated space, in three execution modes.

import (
	"context"
	"fmt"
	"hash/fnv"
	"sort"
	"strings"

	"github.com/blugelabs/bluge"

	"verif/explore"
)

var termNames = []string{"x", "y", "z"}

// bnode is a boolean query tree over term leaves.
type bnode struct {
	leaf    int // 0..2 for a term leaf, -1 for a boolean node
	must    []*bnode
	should  []*bnode
	mustNot []*bnode
	min     int
	str     string
	leaves  int
	depth   int
}

func leafNode(t int) *bnode { return &bnode{leaf: t, str: termNames[t], leaves: 1} }

func groupStr(g []*bnode, pre string) []string {
	var out []string
	for _, c := range g {
		s := c.str
		if c.leaf < 0 {
			s = "(" + s + ")"
		}
		out = append(out, pre+s)
	}
	return out
}

// boolNode builds a boolean node; clause order inside a group is canonical
// (sorted by the clause's text) so that equal queries have equal text.
func boolNode(must, should, mustNot []*bnode, min int) *bnode {
	n := &bnode{leaf: -1, min: min}
	cp := func(g []*bnode) []*bnode {
		c := append([]*bnode(nil), g...)
		sort.SliceStable(c, func(i, j int) bool { return c[i].str < c[j].str })
		return c
	}
	n.must, n.should, n.mustNot = cp(must), cp(should), cp(mustNot)
	var parts []string
	parts = append(parts, groupStr(n.must, "+")...)
	if len(n.should) > 0 {
		parts = append(parts, "["+strings.Join(groupStr(n.should, ""), " ")+fmt.Sprintf("]~%d", min))
	}
	parts = append(parts, groupStr(n.mustNot, "-")...)
	n.str = strings.Join(parts, " ")
	d := 0
	for _, g := range [][]*bnode{n.must, n.should, n.mustNot} {
		for _, c := range g {
			n.leaves += c.leaves
			if c.depth > d {
				d = c.depth
			}
		}
	}
	n.depth = d + 1
	return n
}

// build turns the tree into a fresh bluge query.
func (n *bnode) build() bluge.Query {
	if n.leaf >= 0 {
		return bluge.NewTermQuery(termNames[n.leaf]).SetField("f")
	}
	b := bluge.NewBooleanQuery()
	for _, c := range n.must {
		b.AddMust(c.build())
	}
	for _, c := range n.should {
		b.AddShould(c.build())
	}
	for _, c := range n.mustNot {
		b.AddMustNot(c.build())
	}
	b.SetMinShould(n.min)
	return b
}

// eval is the documented meaning on one document (mask of the terms it holds):
// all musts, no must-not, at least min shoulds - and, when there is no must
// clause, at least one should if there are should clauses; a node with only
// must-not clauses selects the complement.
func (n *bnode) eval(mask int) bool {
	if n.leaf >= 0 {
		return mask&(1<<uint(n.leaf)) != 0
	}
	for _, c := range n.must {
		if !c.eval(mask) {
			return false
		}
	}
	for _, c := range n.mustNot {
		if c.eval(mask) {
			return false
		}
	}
	if len(n.should) > 0 {
		cnt := 0
		for _, c := range n.should {
			if c.eval(mask) {
				cnt++
			}
		}
		need := n.min
		if len(n.must) == 0 && need < 1 {
			need = 1
		}
		if cnt < need {
			return false
		}
	}
	return true
}

// evalDefectNone is the behaviour of the known defect "with Score=none a
// should group of two or more plain term clauses with minShould=1 next to a
// must clause is optional" (the unadorned disjunction loses its minimum).  Used
// only to give failures of exactly that form one stable key.
func (n *bnode) evalDefectNone(mask int) bool {
	if n.leaf >= 0 {
		return mask&(1<<uint(n.leaf)) != 0
	}
	for _, c := range n.must {
		if !c.evalDefectNone(mask) {
			return false
		}
	}
	for _, c := range n.mustNot {
		if c.evalDefectNone(mask) {
			return false
		}
	}
	if len(n.should) > 0 {
		cnt := 0
		allLeaves := true
		for _, c := range n.should {
			if c.leaf < 0 {
				allLeaves = false
			}
			if c.evalDefectNone(mask) {
				cnt++
			}
		}
		need := n.min
		if len(n.must) > 0 && need == 1 && len(n.should) >= 2 && allLeaves {
			need = 0
		}
		if len(n.must) == 0 && need < 1 {
			need = 1
		}
		if cnt < need {
			return false
		}
	}
	return true
}

// ---------------------------------------------------------------- query space

func multisets(alpha []*bnode, max int) [][]*bnode {
	out := [][]*bnode{nil}
	if max >= 1 {
		for _, a := range alpha {
			out = append(out, []*bnode{a})
		}
	}
	if max >= 2 {
		for i, a := range alpha {
			for _, b := range alpha[i:] {
				out = append(out, []*bnode{a, b})
			}
		}
	}
	return out
}

func leavesOf(g []*bnode) int {
	n := 0
	for _, c := range g {
		n += c.leaves
	}
	return n
}

// nodesOver enumerates the boolean nodes whose clauses come from alpha, with at
// most perGroup clauses per group, minShould in mins (only 0 when there is no
// should clause: a positive minimum without should clauses is outside the
// judged domain, see the assumptions), at most maxLeaves leaves; when
// needComposite is set at least one clause must be a boolean node.
func nodesOver(alpha []*bnode, perGroup int, mins []int, maxLeaves int, needComposite bool) []*bnode {
	groups := multisets(alpha, perGroup)
	var out []*bnode
	seen := map[string]bool{}
	for _, m := range groups {
		lm := leavesOf(m)
		if lm > maxLeaves {
			continue
		}
		for _, s := range groups {
			ls := leavesOf(s)
			if lm+ls > maxLeaves {
				continue
			}
			for _, mn := range groups {
				if len(m)+len(s)+len(mn) == 0 {
					continue
				}
				if lm+ls+leavesOf(mn) > maxLeaves {
					continue
				}
				if needComposite {
					comp := false
					for _, g := range [][]*bnode{m, s, mn} {
						for _, c := range g {
							if c.leaf < 0 {
								comp = true
							}
						}
					}
					if !comp {
						continue
					}
				}
				for _, min := range mins {
					if len(s) == 0 && min != 0 {
						continue
					}
					n := boolNode(m, s, mn, min)
					if seen[n.str] {
						continue
					}
					seen[n.str] = true
					out = append(out, n)
				}
			}
		}
	}
	return out
}

type boolSpace struct {
	queries []*bnode
	counts  map[string]int
}

var boolSpaces = map[string]*boolSpace{}

func sortSimplestFirst(qs []*bnode) {
	sort.SliceStable(qs, func(i, j int) bool {
		if qs[i].leaves != qs[j].leaves {
			return qs[i].leaves < qs[j].leaves
		}
		return len(qs[i].str) < len(qs[j].str)
	})
}

func depth2(leaves []*bnode, outerPer, innerPer, innerLeaves, maxLeaves int) []*bnode {
	mins := []int{0, 1, 2}
	inner := nodesOver(leaves, innerPer, mins, innerLeaves, false)
	alpha := append(append([]*bnode(nil), leaves...), inner...)
	return nodesOver(alpha, outerPer, mins, maxLeaves, true)
}

func union(lists ...[]*bnode) []*bnode {
	seen := map[string]bool{}
	var out []*bnode
	for _, l := range lists {
		for _, n := range l {
			if !seen[n.str] {
				seen[n.str] = true
				out = append(out, n)
			}
		}
	}
	return out
}

// boolQueries builds the query list of a family ("main": over the five-document
// corpora, "deep": over the three-document corpora) and stage, simplest first.
// A depth-2 space is named (outer clauses per group, inner clauses per group,
// leaves per inner node, leaves in total); minShould ranges over 0..2 at both
// levels (only 0 where there is no should clause).
//
//	main "quick" = "thorough-a": depth 1 with <=1 term clause per group (159) and a reduced heap family (36);
//	main "thorough-b": depth 1 with <=2 term clauses per group and <=4 leaves, minus stage a;
//	main "thorough-c": the rest of depth 1 (<=2 clauses per group, 5-6 leaves), depth 2 (1,1,1,2) and the
//	                   full heap family: 11 or 12 should clauses cycling over 1..3 terms, must / must-not
//	                   none or one term, minShould in {0,1,2,4,5,8,11,12};
//	deep "quick": depth 2 (1,1,1,2);   deep "thorough": depth 2 (1,2,2,3);
//	wide "quick": as main quick;   wide "thorough": main stages a and b together.
func boolQueries(family, stage string) *boolSpace {
	name := family + "/" + stage
	if sp, ok := boolSpaces[name]; ok {
		return sp
	}
	sp := &boolSpace{counts: map[string]int{}}
	boolSpaces[name] = sp
	leaves := []*bnode{leafNode(0), leafNode(1), leafNode(2)}
	mins := []int{0, 1, 2}
	add := func(kind string, qs []*bnode) {
		sortSimplestFirst(qs)
		sp.queries = append(sp.queries, qs...)
		sp.counts[kind] += len(qs)
	}
	minus := func(a, b []*bnode) []*bnode {
		in := map[string]bool{}
		for _, n := range b {
			in[n.str] = true
		}
		var out []*bnode
		for _, n := range a {
			if !in[n.str] {
				out = append(out, n)
			}
		}
		return out
	}
	if family == "deep" {
		if stage == "thorough" {
			add("depth2", depth2(leaves, 1, 2, 2, 3))
		} else {
			add("depth2", depth2(leaves, 1, 1, 1, 2))
		}
		return sp
	}
	full := false
	if family == "wide" && stage == "thorough" {
		// the quick set plus stage b
		add("depth1", nodesOver(leaves, 2, mins, 4, false))
		stage = "wide-heap"
	}
	switch stage {
	case "wide-heap":
	case "thorough-b":
		add("depth1", minus(nodesOver(leaves, 2, mins, 4, false), nodesOver(leaves, 1, mins, 3, false)))
		return sp
	case "thorough-c":
		add("depth1", minus(nodesOver(leaves, 2, mins, 6, false), nodesOver(leaves, 2, mins, 4, false)))
		add("depth2", depth2(leaves, 1, 1, 1, 2))
		full = true
	default:
		add("depth1", nodesOver(leaves, 1, mins, 3, false))
	}
	// heap family
	var heap []*bnode
	type base []int
	var bases []base
	var hmins []int
	var ones [][]*bnode
	if full {
		for a := 0; a < 3; a++ {
			bases = append(bases, base{a})
			for b := 0; b < 3; b++ {
				if b != a {
					bases = append(bases, base{a, b})
					bases = append(bases, base{a, b, 3 - a - b})
				}
			}
		}
		hmins = []int{0, 1, 2, 4, 5, 8, 11, 12}
		ones = [][]*bnode{nil, {leaves[0]}, {leaves[1]}, {leaves[2]}}
	} else {
		bases = []base{{0}, {1, 2}, {2, 1, 0}}
		hmins = []int{0, 1, 5}
		ones = [][]*bnode{nil, {leaves[0]}}
	}
	for _, b := range bases {
		n := 11
		if len(b) == 3 {
			n = 12
		}
		var sh []*bnode
		for i := 0; i < n; i++ {
			sh = append(sh, leaves[b[i%len(b)]])
		}
		for _, m := range ones {
			for _, mn := range ones {
				for _, min := range hmins {
					heap = append(heap, boolNode(m, sh, mn, min))
				}
			}
		}
	}
	sp.queries = append(sp.queries, heap...)
	sp.counts["heap"] = len(heap)
	return sp
}

// ---------------------------------------------------------------- corpora

// boolFamily is a family of corpora: ndocs live documents, each holding a subset
// of {x,y,z}; a corpus is the number whose d-th group of 3 bits is the term set
// of document d.  Only the representatives that are minimal under the six
// permutations of the terms are enumerated (leaves range over all three terms,
// so a permuted corpus sees the same set of queries).
type boolFamily struct {
	name   string
	ndocs  int
	canon  []int
	ids    []string // all document ids in index order; live ones are d0.., deleted ones delA, delB
	layout func(c int) [][]wop
	text   func(c int) string
	phys   string // expected physical layout (segments / pending deletions)
}

func permMask(m int, p [3]int) int {
	r := 0
	for b := 0; b < 3; b++ {
		if m&(1<<uint(b)) != 0 {
			r |= 1 << uint(p[b])
		}
	}
	return r
}

func canonCorpora(ndocs int) []int {
	perms := [][3]int{{0, 1, 2}, {0, 2, 1}, {1, 0, 2}, {1, 2, 0}, {2, 0, 1}, {2, 1, 0}}
	var out []int
	for c := 0; c < 1<<uint(3*ndocs); c++ {
		canon := true
		for _, p := range perms[1:] {
			pc := 0
			for d := 0; d < ndocs; d++ {
				pc |= permMask((c>>(3*uint(d)))&7, p) << (3 * uint(d))
			}
			if pc < c {
				canon = false
				break
			}
		}
		if canon {
			out = append(out, c)
		}
	}
	return out
}

func maskText(m int) string {
	var t []string
	for b := 0; b < 3; b++ {
		if m&(1<<uint(b)) != 0 {
			t = append(t, termNames[b])
		}
	}
	return strings.Join(t, " ")
}

func boolDoc(id string, mask int) *bluge.Document {
	d := bluge.NewDocument(id)
	d.AddField(bluge.NewTextField("f", maskText(mask)).WithAnalyzer(simpleAnalyzer))
	return d
}

func docMask(c, d int) int { return (c >> (3 * uint(d))) & 7 }

// the id of a document is looked up in this table: bit number in result masks
var boolIDs = map[string]uint{"d0": 0, "d1": 1, "d2": 2, "d3": 3, "d4": 4, "delA": 5, "delB": 6}

var boolFamilies = map[string]*boolFamily{}

func initBoolFamilies() {
	// main: segment 1 = d0, delA, d1, d2; segment 2 = delB, d3, d4; delA holds all three terms, delB none
	boolFamilies["main"] = &boolFamily{name: "main", ndocs: 5, canon: canonCorpora(5), phys: "2segs/del=1+1",
		layout: func(c int) [][]wop {
			return [][]wop{
				{{doc: boolDoc("d0", docMask(c, 0))}, {doc: boolDoc("delA", 7)}, {doc: boolDoc("d1", docMask(c, 1))}, {doc: boolDoc("d2", docMask(c, 2))}},
				{{doc: boolDoc("delB", 0)}, {doc: boolDoc("d3", docMask(c, 3))}, {doc: boolDoc("d4", docMask(c, 4))}},
				{{del: true, id: "delA"}, {del: true, id: "delB"}},
			}
		},
		text: func(c int) string {
			m := func(d int) string { return "{" + maskText(docMask(c, d)) + "}" }
			return fmt.Sprintf("segment 1: d0=%s delA={x y z}(deleted) d1=%s d2=%s; segment 2: delB={}(deleted) d3=%s d4=%s",
				m(0), m(1), m(2), m(3), m(4))
		}}
	// deep: segment 1 = d0, delA, d1; segment 2 = delB, d2
	// wide: four unmerged segments, one live document each: segment 1 = d0, delA; 2 = d1; 3 = delB, d2; 4 = d3
	// (every term can recur in every segment)
	boolFamilies["wide"] = &boolFamily{name: "wide", ndocs: 4, canon: canonCorpora(4), phys: "4segs/del=1+0+1+0",
		layout: func(c int) [][]wop {
			return [][]wop{
				{{doc: boolDoc("d0", docMask(c, 0))}, {doc: boolDoc("delA", 7)}},
				{{doc: boolDoc("d1", docMask(c, 1))}},
				{{doc: boolDoc("delB", 0)}, {doc: boolDoc("d2", docMask(c, 2))}},
				{{doc: boolDoc("d3", docMask(c, 3))}},
				{{del: true, id: "delA"}, {del: true, id: "delB"}},
			}
		},
		text: func(c int) string {
			m := func(d int) string { return "{" + maskText(docMask(c, d)) + "}" }
			return fmt.Sprintf("segment 1: d0=%s delA={x y z}(deleted); segment 2: d1=%s; segment 3: delB={}(deleted) d2=%s; segment 4: d3=%s", m(0), m(1), m(2), m(3))
		}}
	boolFamilies["deep"] = &boolFamily{name: "deep", ndocs: 3, canon: canonCorpora(3), phys: "2segs/del=1+1",
		layout: func(c int) [][]wop {
			return [][]wop{
				{{doc: boolDoc("d0", docMask(c, 0))}, {doc: boolDoc("delA", 7)}, {doc: boolDoc("d1", docMask(c, 1))}},
				{{doc: boolDoc("delB", 0)}, {doc: boolDoc("d2", docMask(c, 2))}},
				{{del: true, id: "delA"}, {del: true, id: "delB"}},
			}
		},
		text: func(c int) string {
			m := func(d int) string { return "{" + maskText(docMask(c, d)) + "}" }
			return fmt.Sprintf("segment 1: d0=%s delA={x y z}(deleted) d1=%s; segment 2: delB={}(deleted) d2=%s", m(0), m(1), m(2))
		}}
}

func maskIDs(mask uint) string {
	var out []string
	for _, id := range []string{"d0", "d1", "d2", "d3", "d4", "delA", "delB"} {
		if mask&(1<<boolIDs[id]) != 0 {
			out = append(out, id)
		}
	}
	return "[" + strings.Join(out, " ") + "]"
}

var boolModes = []searchMode{modeAll, modeTopN, modeNone}

const keyNoneMinShould = "bool:score=none:must+plain-should>=2:minShould=1-not-enforced"

// runBoolSearch executes the request and returns the result as a mask over
// boolIDs.  The _id of a hit is read from the stored fields of the hit the first
// time its document number is seen on this reader and remembered (the reader
// is an immutable snapshot).
func runBoolSearch(r *bluge.Reader, req bluge.SearchRequest, idOf map[uint64]uint) (mask uint, fail string) {
	defer func() {
		if p := recover(); p != nil {
			fail = fmt.Sprintf("PANIC: %v", p)
		}
	}()
	it, err := r.Search(context.Background(), req)
	if err != nil {
		return 0, "error: " + err.Error()
	}
	for {
		m, err := it.Next()
		if err != nil {
			return mask, "error: " + err.Error()
		}
		if m == nil {
			return mask, ""
		}
		b, ok := idOf[m.Number]
		if !ok {
			id := "?"
			err = m.VisitStoredFields(func(field string, value []byte) bool {
				if field == "_id" {
					id = string(value)
					return false
				}
				return true
			})
			if err != nil {
				return mask, fmt.Sprintf("error loading the stored fields of hit %d: %v", m.Number, err)
			}
			b, ok = boolIDs[id]
			if !ok {
				return mask, "returned an unknown document " + q(id)
			}
			idOf[m.Number] = b
		}
		if mask&(1<<b) != 0 {
			return mask, fmt.Sprintf("a document was returned twice (number %d)", m.Number)
		}
		mask |= 1 << b
	}
}

func boolTotalOf(family string) func(string) int64 {
	return func(param string) int64 {
		ensureBool()
		return int64(len(boolFamilies[family].canon)) * int64(nBlocks(family, param))
	}
}

func boolEvalOf(family string) explore.EnumFunc {
	return func(idx int64, param string) *explore.Result {
		ensureBool()
		return boolEval(boolFamilies[family], idx, param)
	}
}

// corpusAt maps the case number to a corpus: in order (simplest first) for the
// stages that always complete, and with a stride coprime to the number of
// corpora for the long stages, so that a run cut by its time budget has visited
// corpora spread over the whole space instead of a prefix of it.
func (fam *boolFamily) corpusAt(idx int64, stage string) int {
	n := int64(len(fam.canon))
	switch {
	case fam.name == "main" && (stage == "thorough-b" || stage == "thorough-c"):
		return fam.canon[(idx*2003)%n]
	case fam.name == "deep" && stage == "thorough":
		return fam.canon[(idx*7)%n]
	}
	return fam.canon[idx]
}

// A case of a boolean enumeration is (corpus, block of at most blockSize
// consecutive queries of the stage's list); the blocks of one corpus are
// consecutive cases, so the index of the last corpus is kept.
const blockSize = 256

func nBlocks(family, stage string) int {
	n := len(boolQueries(family, stage).queries)
	return (n + blockSize - 1) / blockSize
}

var lastBool struct {
	family string
	corpus int
	r      *bluge.Reader
	idOf   map[uint64]uint
}

func boolEval(fam *boolFamily, idx int64, param string) *explore.Result {
	nb := int64(nBlocks(fam.name, param))
	block := int(idx % nb)
	c := fam.corpusAt(idx/nb, param)
	sp := boolQueries(fam.name, param)
	queries := sp.queries[block*blockSize:]
	if len(queries) > blockSize {
		queries = queries[:blockSize]
	}
	res := &explore.Result{Counts: map[string]int64{}}
	if lastBool.r == nil || lastBool.family != fam.name || lastBool.corpus != c {
		if lastBool.r != nil {
			lastBool.r.Close()
			lastBool.r = nil
		}
		r, err := buildIndex(fam.layout(c))
		if err != nil {
			res.Failure = "harness: " + err.Error()
			res.Key = "harness-build"
			return res
		}
		if l := layoutOf(r); l != fam.phys {
			r.Close()
			res.Failure = "harness: unexpected layout " + l
			res.Key = "harness-layout"
			return res
		}
		lastBool.family, lastBool.corpus, lastBool.r, lastBool.idOf = fam.name, c, r, map[uint64]uint{}
	}
	r, idOf := lastBool.r, lastBool.idOf
	all := uint(1)<<uint(fam.ndocs) - 1
	h := fnv.New64a()
	var firstKnown, firstFresh *explore.Result
	for _, qn := range queries {
		var want, defect uint
		for d := 0; d < fam.ndocs; d++ {
			m := docMask(c, d)
			if qn.eval(m) {
				want |= 1 << uint(d)
			}
			if qn.evalDefectNone(m) {
				defect |= 1 << uint(d)
			}
		}
		h.Write([]byte{byte(want)})
		if want != 0 && want != all {
			res.Nontrivial += int64(len(boolModes))
		}
		for _, mode := range boolModes {
			res.Evals++
			got, fail := runBoolSearch(r, mode.mk(qn.build(), 10), idOf)
			searchFailed := fail != ""
			if fail == "" && got != want {
				fail = fmt.Sprintf("returned %s, expected %s", maskIDs(got), maskIDs(want))
				if got&0x60 != 0 {
					fail += " (a deleted document was returned)"
				}
			}
			if fail == "" {
				continue
			}
			f := &explore.Result{
				Failure: fmt.Sprintf("boolean query %s [%s]: %s; corpus %s", qn.str, mode.name, fail, fam.text(c)),
				Key:     fmt.Sprintf("bool[%s]:%s", mode.name, qn.str),
			}
			if !searchFailed && mode.name == modeNone.name && got == defect && defect != want {
				f.Key = keyNoneMinShould
				if firstKnown == nil {
					firstKnown = f
				}
				res.Counts["failures_of_the_score_none_minshould_form"]++
			} else if firstFresh == nil {
				firstFresh = f
			}
		}
		if firstFresh != nil {
			break
		}
	}
	res.Outcome = fmt.Sprintf("%x", h.Sum64())
	if firstFresh != nil {
		res.Failure, res.Key = firstFresh.Failure, firstFresh.Key
	} else if firstKnown != nil {
		res.Failure, res.Key = firstKnown.Failure, firstKnown.Key
	}
	if idx%1500 == 0 {
		qn := queries[len(queries)/3]
		var want uint
		for d := 0; d < fam.ndocs; d++ {
			if qn.eval(docMask(c, d)) {
				want |= 1 << uint(d)
			}
		}
		res.Sample = map[string]interface{}{"enumeration": "c07-bool-" + fam.name, "corpus": fam.text(c), "queries_in_this_block": len(queries), "queries_of_the_stage": len(sp.queries),
			"example_query": qn.str, "expected": maskIDs(want), "modes": "all / topn / topn-score-none"}
	}
	return res
}

// C13: the file-system directory reports success only for durable, exact files.
//
// Exhaustive grid over (item size, pre-existing file state, item-writer
// behaviour, item kind) on the REAL index.FileSystemDirectory in a scratch
// directory, with os.File.Write / Sync observed through the os overlay hook.
package main

import (
	"bytes"
	"errors"
	"fmt"
	"io"
	"os"
	"path/filepath"
	"strings"

	"github.com/blugelabs/bluge/index"

	"verif/checkmain"
	"verif/explore"
)

var sizes = []int{0, 1, 4095, 4096, 4097, 3*4096 + 1}
var priors = []string{"absent", "shorter", "equal", "longer"}
var behaviours = []string{"ok-1", "ok-2", "ok-many", "fail@0", "fail@1", "fail@half", "fail@size-1", "fail@size", "cancelled", "ok-remove-mid"}
var kinds = []string{index.ItemKindSnapshot, index.ItemKindSegment}
var loaders = []string{"mmap", "nommap"}

type hookEv struct {
	op   string
	name string
	n    int64
}

var hookLog []hookEv

type itemWriter struct {
	data      []byte
	behaviour string
	mid       func() // ok-remove-mid: called between the two halves
}

var errItem = errors.New("item writer failed")

func (iw *itemWriter) WriteTo(w io.Writer, closeCh chan struct{}) (int64, error) {
	select {
	case <-closeCh:
		return 0, errors.New("closed")
	default:
	}
	var written int64
	write := func(b []byte) error {
		n, err := w.Write(b)
		written += int64(n)
		return err
	}
	d := iw.data
	switch iw.behaviour {
	case "ok-1":
		if len(d) > 0 {
			if err := write(d); err != nil {
				return written, err
			}
		}
	case "ok-2", "ok-remove-mid":
		h := len(d) / 2
		if err := write(d[:h]); err != nil {
			return written, err
		}
		if iw.mid != nil {
			iw.mid()
		}
		if err := write(d[h:]); err != nil {
			return written, err
		}
	case "ok-many":
		for len(d) > 0 {
			n := 1000
			if n > len(d) {
				n = len(d)
			}
			if err := write(d[:n]); err != nil {
				return written, err
			}
			d = d[n:]
		}
	default: // fail@k
		k := 0
		switch iw.behaviour {
		case "fail@1":
			k = 1
		case "fail@half":
			k = len(d) / 2
		case "fail@size-1":
			k = len(d) - 1
		case "fail@size":
			k = len(d)
		}
		if k < 0 {
			k = 0
		}
		if k > len(d) {
			k = len(d)
		}
		if k > 0 {
			if err := write(d[:k]); err != nil {
				return written, err
			}
		}
		return written, errItem
	}
	return written, nil
}

func pattern(n int, salt byte) []byte {
	b := make([]byte, n)
	for i := range b {
		b[i] = byte(i*7) ^ salt
	}
	return b
}

func total(string) int64 {
	return int64(len(sizes) * len(priors) * len(behaviours) * len(kinds))
}

func eval(idx int64, _ string) *explore.Result {
	i := int(idx)
	kind := kinds[i%len(kinds)]
	i /= len(kinds)
	beh := behaviours[i%len(behaviours)]
	i /= len(behaviours)
	prior := priors[i%len(priors)]
	i /= len(priors)
	size := sizes[i%len(sizes)]
	desc := fmt.Sprintf("size=%d prior=%s writer=%s kind=%s", size, prior, beh, kind)
	res := &explore.Result{Outcome: desc, Key: "persist:" + desc, Nontrivial: 1}
	fail := func(f string, a ...interface{}) *explore.Result {
		res.Failure = desc + ": " + fmt.Sprintf(f, a...)
		return res
	}
	root, err := os.MkdirTemp("/dev/shm", "verif-c13-")
	if err != nil {
		return fail("harness: %v", err)
	}
	defer os.RemoveAll(root)
	dir := index.NewFileSystemDirectory(root)
	if err := dir.Setup(false); err != nil {
		return fail("setup: %v", err)
	}
	const id = 7
	name := fmt.Sprintf("%012x%s", id, kind)
	path := filepath.Join(root, name)
	var old []byte
	switch prior {
	case "shorter":
		n := size / 2
		if size == 0 {
			n = 0
		}
		old = pattern(n, 0xAA)
	case "equal":
		old = pattern(size, 0xAA)
	case "longer":
		old = pattern(size+777, 0xAA)
	}
	if prior != "absent" {
		if err := os.WriteFile(path, old, 0o600); err != nil {
			return fail("harness: %v", err)
		}
	}
	data := pattern(size, 0x11)
	closeCh := make(chan struct{})
	if beh == "cancelled" {
		close(closeCh)
	}
	hookLog = hookLog[:0]
	os.VerifHook = func(op string, f *os.File, n int64) {
		hookLog = append(hookLog, hookEv{op, f.Name(), n})
	}
	iw := &itemWriter{data: data, behaviour: beh}
	var rmErr error
	if beh == "ok-remove-mid" {
		// somebody removes the item while its Persist is in progress (a second directory object on the
		// same path, as a concurrent clean-up would use): whatever Remove answers, a Persist that
		// reports success must leave the file with exactly the bytes written
		iw.mid = func() { rmErr = index.NewFileSystemDirectory(root).Remove(kind, id) }
	}
	perr := dir.Persist(kind, id, iw, closeCh)
	os.VerifHook = nil
	log := append([]hookEv(nil), hookLog...)
	wantOK := strings.HasPrefix(beh, "ok")
	if beh == "ok-remove-mid" && perr != nil {
		// acceptable only as a clean failure
		wantOK = false
	}
	if wantOK {
		if perr != nil {
			return fail("Persist failed although the item writer succeeded: %v", perr)
		}
		if beh == "ok-remove-mid" {
			res.Outcome += fmt.Sprintf(" remove-during-persist=%v", rmErr != nil)
		}
		got, err := os.ReadFile(path)
		if err != nil {
			return fail("reported success but the file is unreadable: %v", err)
		}
		if !bytes.Equal(got, data) {
			return fail("reported success but the file holds %d bytes instead of exactly the %d written (first difference at %d)", len(got), len(data), firstDiff(got, data))
		}
		lastWrite, lastSync := -1, -1
		for k, e := range log {
			if e.name != path {
				continue
			}
			if e.op == "write" {
				lastWrite = k
			}
			if e.op == "sync" {
				lastSync = k
			}
		}
		if lastSync < 0 {
			return fail("reported success without any Sync on the file")
		}
		if lastSync < lastWrite {
			return fail("the last Sync on the file precedes its last Write (sync #%d, write #%d)", lastSync, lastWrite)
		}
		// the item can be loaded back, byte for byte, with both loaders
		for _, ld := range loaders {
			if size == 0 && ld == "mmap" {
				continue // mapping an empty file is an error by construction
			}
			d2 := index.NewFileSystemDirectory(root)
			if ld == "nommap" {
				d2.SetLoadMMapFunc(index.LoadMMapNever)
			}
			sd, closer, err := d2.Load(kind, id)
			if err != nil {
				return fail("Load (%s) after a successful Persist: %v", ld, err)
			}
			b, err := sd.Read(0, sd.Len())
			if err != nil || !bytes.Equal(b, data) {
				return fail("Load (%s) returned different bytes", ld)
			}
			if closer != nil {
				if err := closer.Close(); err != nil {
					return fail("closing the loaded item: %v", err)
				}
			}
		}
		res.Sample = map[string]interface{}{"case": desc, "hook_log_len": len(log), "result": "exact bytes, synced after last write"}
		return res
	}
	if perr == nil {
		return fail("the item writer failed / was cancelled but Persist reported success")
	}
	if _, err := os.Stat(path); err == nil {
		b, _ := os.ReadFile(path)
		return fail("Persist reported failure but a file of %d bytes is left under the item's name", len(b))
	} else if !os.IsNotExist(err) {
		return fail("stat: %v", err)
	}
	return res
}

func firstDiff(a, b []byte) int {
	n := len(a)
	if len(b) < n {
		n = len(b)
	}
	for i := 0; i < n; i++ {
		if a[i] != b[i] {
			return i
		}
	}
	return n
}

func main() {
	explore.RegisterEnum("c13", total, eval)
	explore.RegisterEnum("c13-items", itemsTotal, itemsEval)
	explore.RegisterEnum("c13-ids", idsTotal, idsEval)
	explore.WorkerMain()
	c := checkmain.New("C13")
	if v := c.IsReplay(); v != nil {
		c.RunReplay(v)
	}
	c.Rule = "full grid: item size {0,1,4095,4096,4097,12289} x prior file {absent,shorter,equal,longer} x item writer {1/2/many chunks, error after k bytes for k in {0,1,size/2,size-1,size}, cancelled, a Remove of the same item issued between two chunks} x kind {.snp,.seg}; every case is distinct and non-trivial (each exercises Persist once and judges bytes, sync order or residue); plus the item writers bluge itself uses (snapshots of 6 bytes to 6 KB, ice v1/v2 segments, ice v1/v2 mergers) with the storage refusing bytes after k, for every k (items <= 300 bytes) or a structural set of k; plus every ordered pair of distinct identifiers from {0,1,7,2^48-1,2^48,2^48+7,2^52+1,2^63,2^64-1} x kind: two items persisted one after the other, each must load back exactly, both are listed, removing one leaves the other"
	c.Explanation = "exhaustive enumeration of the stated grid on the real FileSystemDirectory; os.File.Write and os.File.Sync are observed through an overlay of package os, so 'a flush was issued after the last byte and before success' is decided on the actual call sequence"
	c.Assumptions = []string{
		"fsync of the file is what the property demands; durability of the directory entry is not checked",
		"sizes beyond 3 buffer lengths behave like the ones enumerated",
	}
	st := explore.Enumerate(explore.EnumConfig{Name: "c13", InProc: true, MaxViol: 1000})
	c.AddEnum(st)
	st = explore.Enumerate(explore.EnumConfig{Name: "c13-items", InProc: true, MaxViol: 1000})
	c.AddEnum(st)
	st = explore.Enumerate(explore.EnumConfig{Name: "c13-ids", InProc: true, MaxViol: 1000})
	c.AddEnum(st)
	c.Finish()
}

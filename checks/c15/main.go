// C15: Writer and Reader are safe for concurrent use and Close terminates.
//
// This binary is built with -race.  Every schedule the explorer visits is
// also a race-detector run whose happens-before relation is exactly the
// program's: the scheduler's hand-off is invisible to the detector
// (DESIGN.md §3.7) while the program's own locks, wait groups, goroutine
// starts and channel operations are made visible.
package main

import (
	"context"
	"fmt"
	"io"
	"log"
	"os"
	"path/filepath"
	"strings"
	"time"

	"github.com/blugelabs/bluge"
	"github.com/blugelabs/bluge/index"
	"github.com/blugelabs/bluge/verifmc"
	"github.com/blugelabs/bluge/verifmc/msync"

	"verif/checkmain"
	"verif/explore"
	"verif/harness"
)

var raceLog string
var raceLogPos int64

// newRaceReports returns what the race detector wrote since the last call.
func newRaceReports() string {
	if raceLog == "" {
		return ""
	}
	matches, _ := filepath.Glob(raceLog + ".*")
	var out strings.Builder
	var total int64
	for _, m := range matches {
		b, err := os.ReadFile(m)
		if err != nil {
			continue
		}
		total += int64(len(b))
		out.Write(b)
	}
	if total <= raceLogPos {
		return ""
	}
	s := out.String()
	news := s[raceLogPos:]
	raceLogPos = total
	return news
}

func dirConfig(path string, o harness.Opts) bluge.Config {
	return harness.Config(index.NewFileSystemDirectory(path), o)
}

func search(r *bluge.Reader, req bluge.SearchRequest) ([]string, error) {
	it, err := r.Search(context.Background(), req)
	if err != nil {
		return nil, err
	}
	var ids []string
	for {
		m, err := it.Next()
		if err != nil {
			return nil, err
		}
		if m == nil {
			return ids, nil
		}
		err = m.VisitStoredFields(func(f string, v []byte) bool {
			if f == "_id" {
				ids = append(ids, string(v))
			}
			return true
		})
		if err != nil {
			return nil, err
		}
	}
}

// readerWork exercises the read paths named by the property on one reader.
func readerWork(r *bluge.Reader, who int) error {
	if _, err := r.Count(); err != nil {
		return err
	}
	q1 := bluge.NewBooleanQuery().AddMust(bluge.NewTermQuery("common").SetField("t"), bluge.NewTermQuery("a").SetField("t"))
	if _, err := search(r, bluge.NewTopNSearch(10, q1)); err != nil { // scoring conjunction
		return err
	}
	q2 := bluge.NewBooleanQuery().AddMust(bluge.NewTermQuery("common").SetField("t"), bluge.NewTermQuery("a").SetField("t"))
	if _, err := search(r, bluge.NewTopNSearch(10, q2).SetScore("none")); err != nil { // unadorned conjunction
		return err
	}
	q3 := bluge.NewBooleanQuery().AddShould(bluge.NewTermQuery("a").SetField("t"), bluge.NewTermQuery("b").SetField("t"))
	if _, err := search(r, bluge.NewTopNSearch(10, q3).SetScore("none")); err != nil { // unadorned disjunction
		return err
	}
	if _, err := search(r, bluge.NewTopNSearch(10, bluge.NewMatchQuery("common").SetField("t"))); err != nil { // recycled iterators
		return err
	}
	di, err := r.DictionaryIterator("t", nil, nil, nil)
	if err != nil {
		return err
	}
	for {
		e, err := di.Next()
		if err != nil {
			return err
		}
		if e == nil {
			break
		}
	}
	return di.Close()
}

type scen struct {
	opts      harness.Opts
	pre       []harness.BatchSpec
	clients   [][]harness.BatchSpec
	readers   int  // threads that take a reader from the writer and use it
	shared    int  // threads searching one shared reader
	closer    bool // Close is issued by its own thread as soon as the clients returned
	stats     bool // a thread calls index.Writer.Stats() (index-level API)
	callbacks bool // every client batch carries a persisted-callback
	reopen    bool
	prelife   []harness.BatchSpec // a first life (no merging) that leaves these batches as separate segment files
}

func U(id, v string) harness.Op { return harness.Op{Kind: 'U', ID: id, Ver: v} }
func I(id, v string) harness.Op { return harness.Op{Kind: 'I', ID: id, Ver: v} }
func D(id string) harness.Op    { return harness.Op{Kind: 'D', ID: id} }

type B = harness.BatchSpec

var scens = map[string]scen{
	"rw":      {clients: [][]B{{{U("a", "1")}}, {{U("a", "2"), D("b")}}}, pre: []B{{I("a", "0"), I("b", "0")}}, readers: 1, reopen: true},
	"rw-nap":  {opts: harness.Opts{NapMS: 5}, clients: [][]B{{{U("a", "1")}}, {{U("b", "2")}}}, readers: 1, reopen: true, callbacks: true},
	"search":  {pre: []B{{I("a", "0"), I("b", "0")}, {U("a", "1")}}, shared: 2},
	"close":   {opts: harness.Opts{Unsafe: true, EagerMerge: true}, clients: [][]B{{{I("a", "1")}, {I("b", "1")}, {U("a", "2")}}}, closer: true, readers: 1, callbacks: true},
	"close-s": {opts: harness.Opts{EagerMerge: true}, clients: [][]B{{{I("a", "1")}, {I("b", "1")}}, {{I("c", "1")}}}, closer: true, reopen: true},
	// the persister pauses for the merger whenever one file is on disk: Close arrives during that pause
	"close-pause":   {opts: harness.Opts{EagerMerge: true, NapUnderFiles: 1}, clients: [][]B{{{I("a", "1")}, {I("b", "1")}, {U("a", "2")}}}, closer: true, reopen: true},
	"close-pause-u": {opts: harness.Opts{Unsafe: true, EagerMerge: true, NapUnderFiles: 1}, clients: [][]B{{{I("a", "1")}, {I("b", "1")}, {U("a", "2")}}}, closer: true},
	// second life on a directory with two unmerged segments: the merger is busy merging them while the
	// persister pauses for it; no caller is outstanding, Close comes from its own thread at any moment
	"reopen-close-pause": {prelife: []B{{I("a", "1")}, {I("b", "1")}}, opts: harness.Opts{Unsafe: true, EagerMerge: true, NapUnderFiles: 1}, closer: true},
	"stats":              {clients: [][]B{{{U("a", "1")}}}, stats: true},
}

func run(opts verifmc.Options, param string) (*verifmc.Sched, *explore.Result) {
	sc := scens[param]
	res := &explore.Result{Counts: map[string]int64{}, Flags: map[string]bool{}}
	root, err := os.MkdirTemp("/dev/shm", "verif-c15-")
	if err != nil {
		res.Failure = "harness: " + err.Error()
		return nil, res
	}
	defer os.RemoveAll(root)
	nthreads := len(sc.clients) + sc.readers + sc.shared + 2
	errs := make([]string, nthreads+1) // one slot per harness thread: no sharing
	acked := make([][]int, nthreads+1)
	var reopened string
	s := verifmc.Run(opts, func() {
		if len(sc.prelife) > 0 {
			w0, err := bluge.OpenWriter(dirConfig(root, harness.Opts{NoFileMerge: true}))
			if err != nil {
				errs[0] = "open (first life): " + err.Error()
				return
			}
			for _, b := range sc.prelife {
				if err := w0.Batch(harness.MakeBatch(b)); err != nil {
					errs[0] = "first life batch: " + err.Error()
					return
				}
			}
			if err := w0.Close(); err != nil {
				errs[0] = "first life close: " + err.Error()
				return
			}
		}
		w, err := bluge.OpenWriter(dirConfig(root, sc.opts))
		if err != nil {
			errs[0] = "open: " + err.Error()
			return
		}
		for _, b := range sc.pre {
			if err := w.Batch(harness.MakeBatch(b)); err != nil {
				errs[0] = "pre batch: " + err.Error()
				return
			}
		}
		var clients, others, users msync.WaitGroup // users = every thread that calls into the writer
		slot := 1
		for _, batches := range sc.clients {
			batches := batches
			me := slot
			slot++
			clients.Add(1)
			users.Add(1)
			verifmc.Go(func() {
				defer clients.Done()
				defer users.Done()
				for k, b := range batches {
					bt := harness.MakeBatch(b)
					if sc.callbacks {
						// persisted-callbacks: the list the introducer appends to is handed to the persister
						bt.SetPersistedCallback(func(error) {})
					}
					if err := w.Batch(bt); err != nil {
						errs[me] = "batch: " + err.Error()
						return
					}
					acked[me] = append(acked[me], k)
				}
			})
		}
		for i := 0; i < sc.readers; i++ {
			me := slot
			slot++
			others.Add(1)
			users.Add(1)
			verifmc.Go(func() {
				defer others.Done()
				if !sc.closer {
					// acquire, pause, use, close — twice: the use of a reader acquired before
					// a batch overlaps (in happens-before terms) with that batch's introduction
					defer users.Done()
					for k := 0; k < 2; k++ {
						r, err := w.Reader()
						if err != nil {
							errs[me] = "reader: " + err.Error()
							return
						}
						verifmc.Yield("before-using-the-reader")
						if err := readerWork(r, me); err != nil {
							errs[me] = "reader work: " + err.Error()
						}
						_ = r.Close()
					}
					return
				}
				var rs []*bluge.Reader
				for k := 0; k < 2; k++ {
					r, err := w.Reader()
					if err != nil {
						errs[me] = "reader: " + err.Error()
						users.Done()
						return
					}
					rs = append(rs, r)
					verifmc.Yield("between-acquisitions")
				}
				users.Done() // from here on the readers are only used; the writer may be closed meanwhile
				for _, r := range rs {
					if err := readerWork(r, me); err != nil {
						errs[me] = "reader work: " + err.Error()
					}
					_ = r.Close()
				}
			})
		}
		if sc.shared > 0 {
			r, err := w.Reader()
			if err != nil {
				errs[0] = "reader: " + err.Error()
				return
			}
			var sw msync.WaitGroup
			for i := 0; i < sc.shared; i++ {
				me := slot
				slot++
				sw.Add(1)
				verifmc.Go(func() {
					defer sw.Done()
					if err := readerWork(r, me); err != nil {
						errs[me] = "shared reader work: " + err.Error()
					}
				})
			}
			sw.Wait()
			_ = r.Close()
		}
		if sc.stats {
			me := slot
			slot++
			others.Add(1)
			verifmc.Go(func() {
				defer others.Done()
				st := w.VerifIndexWriter().Stats()
				_ = st.TotBatches
				_ = me
			})
		}
		if sc.closer {
			me := slot
			slot++
			others.Add(1)
			verifmc.Go(func() {
				defer others.Done()
				users.Wait() // "a writer whose callers have returned"
				if err := w.Close(); err != nil {
					errs[me] = "close: " + err.Error()
				}
			})
			clients.Wait()
			others.Wait()
		} else {
			clients.Wait()
			others.Wait()
			if err := w.Close(); err != nil {
				errs[0] = "close: " + err.Error()
			}
		}
		if sc.reopen {
			r, err := bluge.OpenReader(dirConfig(root, harness.Opts{}))
			if err != nil {
				errs[0] = "reopen: " + err.Error()
				return
			}
			reopened, err = harness.Observe(r)
			if err != nil {
				errs[0] = "reopened index: " + err.Error()
			}
			_ = r.Close()
		}
	})
	for _, e := range errs {
		if e != "" && res.Failure == "" {
			res.Failure = e
		}
	}
	if rep := newRaceReports(); rep != "" {
		res.Failure = "the race detector reported on this schedule:\n" + rep
		res.Key = "race"
		if param == "stats" && strings.Contains(rep, "Writer).Stats") {
			res.Key = "race:index.Writer.Stats"
		}
		res.FreshConfirm = true
		return s, res
	}
	if s != nil && strings.HasPrefix(s.Failure, "horizon") {
		res.Failure = "the execution did not terminate within the step horizon (a thread spins, or Close never returns)"
		return s, res
	}
	if s.Failure != "" || res.Failure != "" {
		return s, res
	}
	if sc.reopen && !sc.opts.Unsafe {
		// everything was acknowledged (safe mode, all batch calls returned nil)
		m := harness.NewModel()
		want := map[string]bool{}
		// the two clients' batches commute only partly: accept every order of the clients' sequences
		for _, c := range acceptableFinals(sc) {
			want[c] = true
		}
		_ = m
		if !want[reopened] {
			res.Failure = fmt.Sprintf("the closed index reopens as {%s}, which is not the abstract index after the acknowledged batches in any order compatible with the clients", reopened)
		}
	}
	res.Outcome = reopened + fmt.Sprint(s.Steps/50)
	return s, res
}

// acceptableFinals: final contents after all batches, over every interleaving of the clients' sequences.
func acceptableFinals(sc scen) []string {
	var out []string
	var rec func(m *harness.Model, pos []int)
	rec = func(m *harness.Model, pos []int) {
		done := true
		for ci, c := range sc.clients {
			if pos[ci] < len(c) {
				done = false
				m2 := m.Clone()
				m2.Apply(c[pos[ci]])
				p2 := append([]int(nil), pos...)
				p2[ci]++
				rec(m2, p2)
			}
		}
		if done {
			out = append(out, m.Content())
		}
	}
	m := harness.NewModel()
	for _, b := range sc.pre {
		m.Apply(b)
	}
	rec(m, make([]int, len(sc.clients)))
	return out
}

func main() {
	log.SetOutput(io.Discard)
	explore.Register("c15", run)
	raceLog = os.Getenv("VERIF_RACE_LOG")
	explore.WorkerMain()
	c := checkmain.New("C15")
	if v := c.IsReplay(); v != nil {
		c.RunReplay(v)
	}
	c.Rule = "every schedule within the deviation bound of 6 scenarios on the public bluge API over the real FileSystemDirectory (tmpfs): two batch threads plus a thread acquiring and using readers (also with the persister nap timer); one reader shared by two threads running a scoring conjunction, unscored conjunction and disjunction (bitmap paths), a scored search on recycled iterators, stored-field loads and a dictionary scan; Close issued by its own thread as soon as the batch calls returned while unsafe batches, merges and persists are still in flight (and in safe mode); an index-level Stats() call concurrent with a batch. distinct_nontrivial = distinct outcomes (reopened content x execution length class)"
	c.Explanation = "the check binary is built with -race; the cooperative scheduler's hand-off is invisible to the detector (plain word + Gosched spin inside go:norace code) while the program's own synchronisation is made visible (real sync primitives taken when the model admits them, real goroutine starts, one sync/atomic release/acquire cell per matched send/receive pair and per close). Every explored schedule is therefore a race-detector run with exactly the program's happens-before relation. Oracle: no race report (each report is attributed to the schedule that produced it and confirmed by replaying that schedule in a fresh process), no deadlock, termination within the step horizon, and the closed index reopens with every acknowledged batch"
	c.Assumptions = []string{
		"race freedom is decided per explored schedule (bounded), not for all schedules",
		"memory-model effects below the granularity of synchronisation operations are covered only through the detector's happens-before analysis",
		"the k-th receive -> (k+cap)-th send edge of buffered channels is emulated per channel (can only lose a report)",
	}
	names := []string{"close+rev", "close-pause-u+rev", "rw", "rw-nap", "search", "close", "close-s", "close-s+rev", "close-pause", "close-pause-u", "reopen-close-pause", "reopen-close-pause+rev", "rw+rev", "stats"}
	if c.Thorough() {
		names = append(names, "close+rr", "close-s+rr", "rw+rr", "close-pause-u+rr", "reopen-close-pause+rr")
	}
	if os.Getenv("VERIF_ONLY") != "" {
		names = strings.Split(os.Getenv("VERIF_ONLY"), ",")
	}
	bound := c.Pick(1, 2)
	budget := c.PickD(200*time.Second, 20*time.Minute)
	deadline := time.Now().Add(budget)
	for i, n := range names {
		per := 2 * time.Until(deadline) / time.Duration(len(names)-i) // twice the even share: most scenarios finish well below it, the deadline bounds the total
		if per > time.Until(deadline) {
			per = time.Until(deadline)
		}
		if per < 2*time.Second {
			per = 2 * time.Second
		}
		st := explore.Explore(explore.Config{Scenario: "c15", Param: n, Bound: bound, Budget: per})
		c.AddExplore(st)
	}
	c.Finish()
}

package main

import (
	"bytes"
	"fmt"
	"io"
	"os"
	"path/filepath"
	"syscall"

	"github.com/RoaringBitmap/roaring"
	"github.com/blugelabs/bluge"
	"github.com/blugelabs/bluge/index"
	segment "github.com/blugelabs/bluge_segment_api"
	iceV1 "github.com/blugelabs/ice"
	iceV2 "github.com/blugelabs/ice/v2"

	"verif/explore"
)

// The item writers bluge itself hands to the directory (snapshot, new
// segment, merger), each with the storage refusing bytes after k: Persist
// must report the failure and leave nothing behind, for every k below the
// item's length; with no fault the file must hold exactly the item.

type itemKind struct {
	name string
	kind string
	make func() index.WriterTo
}

func docs(n int, tag string) []segment.Document {
	var out []segment.Document
	for i := 0; i < n; i++ {
		d := bluge.NewDocument(fmt.Sprintf("%s%d", tag, i)).AddField(bluge.NewTextField("t", "some words "+tag).StoreValue())
		d.Analyze()
		out = append(out, d)
	}
	return out
}

func norm(string, int) float32 { return 1 }

func seg1(n int, tag string) segment.Segment {
	s, _, err := iceV1.New(docs(n, tag), norm)
	if err != nil {
		panic(err)
	}
	return s
}

func seg2(n int, tag string) segment.Segment {
	s, _, err := iceV2.New(docs(n, tag), norm)
	if err != nil {
		panic(err)
	}
	return s
}

var every3 = func() []uint32 {
	var v []uint32
	for i := uint32(0); i < 9000; i += 3 {
		v = append(v, i)
	}
	return v
}()

var itemKinds = []itemKind{
	{"snapshot-empty", index.ItemKindSnapshot, func() index.WriterTo { return index.VerifSnapshotItem(3, nil) }},
	{"snapshot-2seg", index.ItemKindSnapshot, func() index.WriterTo {
		return index.VerifSnapshotItem(3, []index.VerifSegInfo{{ID: 1, Type: "ice", Version: 1}, {ID: 2, Type: "ice", Version: 1, HasDeleted: true, Deleted: []uint32{0}}})
	}},
	{"snapshot-6k", index.ItemKindSnapshot, func() index.WriterTo {
		return index.VerifSnapshotItem(3, []index.VerifSegInfo{{ID: 1, Type: "ice", Version: 1, HasDeleted: true, Deleted: every3}})
	}},
	{"segment-v1", index.ItemKindSegment, func() index.WriterTo { return seg1(3, "a") }},
	{"segment-v2", index.ItemKindSegment, func() index.WriterTo { return seg2(3, "a") }},
	{"merger-v1", index.ItemKindSegment, func() index.WriterTo {
		return iceV1.Merge([]segment.Segment{seg1(2, "a"), seg1(2, "b")}, []*roaring.Bitmap{nil, roaring.BitmapOf(0)}, 1024*1024)
	}},
	{"merger-v2", index.ItemKindSegment, func() index.WriterTo {
		return iceV2.Merge([]segment.Segment{seg2(2, "a"), seg2(2, "b")}, []*roaring.Bitmap{nil, nil}, 1024*1024)
	}},
}

var itemLen = map[string]int{}
var itemBytes = map[string][]byte{}

func lengthOf(k itemKind) int {
	if n, ok := itemLen[k.name]; ok {
		return n
	}
	var buf bytes.Buffer
	if _, err := k.make().WriteTo(&buf, make(chan struct{})); err != nil {
		panic(err)
	}
	itemLen[k.name] = buf.Len()
	itemBytes[k.name] = buf.Bytes()
	return buf.Len()
}

// fault positions: every k for items up to 300 bytes, else a structural set
func positions(n int) []int {
	if n <= 300 {
		out := make([]int, 0, n+1)
		for k := 0; k <= n; k++ {
			out = append(out, k)
		}
		return out
	}
	seen := map[int]bool{}
	var out []int
	add := func(k int) {
		if k >= 0 && k <= n && !seen[k] {
			seen[k] = true
			out = append(out, k)
		}
	}
	for _, k := range []int{0, 1, 2, 3, n / 2, n - 17, n - 5, n - 4, n - 1, n} {
		add(k)
	}
	for k := 64; k < n; k += 251 {
		add(k)
	}
	for _, k := range []int{4095, 4096, 4097} {
		add(k)
	}
	return out
}

type cutWriter struct {
	w    io.Writer
	left int
}

func (c *cutWriter) Write(p []byte) (int, error) {
	if len(p) <= c.left {
		c.left -= len(p)
		return c.w.Write(p)
	}
	n, _ := c.w.Write(p[:c.left])
	c.left = 0
	return n, syscall.ENOSPC
}

type faultyItem struct {
	inner index.WriterTo
	k     int
}

func (f *faultyItem) WriteTo(w io.Writer, ch chan struct{}) (int64, error) {
	return f.inner.WriteTo(&cutWriter{w: w, left: f.k}, ch)
}

func itemsTotal(string) int64 {
	var n int64
	for _, k := range itemKinds {
		n += int64(len(positions(lengthOf(k))))
	}
	return n
}

func itemsEval(idx int64, _ string) *explore.Result {
	var ik itemKind
	k := -1
	for _, c := range itemKinds {
		ps := positions(lengthOf(c))
		if idx < int64(len(ps)) {
			ik, k = c, ps[idx]
			break
		}
		idx -= int64(len(ps))
	}
	n := lengthOf(ik)
	desc := fmt.Sprintf("item=%s (%d bytes) storage refuses bytes after k=%d", ik.name, n, k)
	res := &explore.Result{Outcome: desc, Key: "item-writer:" + desc, Nontrivial: 1}
	fail := func(f string, a ...interface{}) *explore.Result {
		res.Failure = desc + ": " + fmt.Sprintf(f, a...)
		return res
	}
	root, err := os.MkdirTemp("/dev/shm", "verif-c13i-")
	if err != nil {
		return fail("harness: %v", err)
	}
	defer os.RemoveAll(root)
	dir := index.NewFileSystemDirectory(root)
	const id = 9
	path := filepath.Join(root, fmt.Sprintf("%012x%s", id, ik.kind))
	perr := dir.Persist(ik.kind, id, &faultyItem{inner: ik.make(), k: k}, make(chan struct{}))
	if k >= n {
		if perr != nil {
			return fail("Persist failed without any fault: %v", perr)
		}
		got, err := os.ReadFile(path)
		if err != nil || !bytes.Equal(got, itemBytes[ik.name]) {
			return fail("reported success but the file differs from the item (%d bytes, %v)", len(got), err)
		}
		return res
	}
	if perr == nil {
		got, _ := os.ReadFile(path)
		return fail("the storage refused bytes but Persist reported success; the file holds %d of %d bytes", len(got), n)
	}
	if _, err := os.Stat(path); err == nil {
		return fail("Persist reported failure but a file is left under the item's name")
	}
	return res
}

// C02: an acknowledged batch survives any later crash.
//
// Schedules of writer scenarios (within d deviations) x every crash image of
// every storage trace (operation boundaries and all torn variants of the
// persist in flight), recovered with the real FileSystemDirectory: the
// recovered content must be the abstract index after a prefix of the applied
// batches that contains every batch acknowledged before the crash.
package main

import (
	"io"
	"log"
	"os"
	"strings"
	"time"

	"github.com/blugelabs/bluge/verifmc"

	"verif/checkmain"
	"verif/crashcheck"
	"verif/explore"
	"verif/recovery"
)

var mode = crashcheck.Mode{CheckAcked: true, Depth: 1, Conformance: true, Loader: 1, WriterOpenOnDefault: true}

func run(opts verifmc.Options, param string) (*verifmc.Sched, *explore.Result) {
	sc := crashcheck.Scenarios[param]
	return crashcheck.Run("c02/"+param, sc, mode, opts, nil)
}

func main() {
	log.SetOutput(io.Discard)
	if os.Getenv("VERIF_TIER_INTERNAL") == "thorough" || (len(os.Args) > 1 && os.Args[1] == "thorough") {
		mode.NoMMapToo = true
	}
	explore.Register("c02", run)
	if os.Getenv("VERIF_WORKER") != "" {
		defer recovery.Cleanup()
	}
	explore.WorkerMain()
	c := checkmain.New("C02")
	if v := c.IsReplay(); v != nil {
		c.RunReplay(v)
	}
	defer recovery.Cleanup()
	c.Rule = "every schedule within the deviation bound of 7 writer scenarios (safe / unsafe+callbacks, 1-2 clients, eager merges, retention 1 and 2) x every crash image of the recorded storage trace: all operation boundaries, every subset of a clean-up batch, and for the persist in flight every prefix length (all for snapshots, structural set for segments; thorough: all), zero-filled and stale-tail variants; distinct_nontrivial = distinct (schedule outcome) storage traces"
	c.Explanation = "stateless exploration of the real writer on the crashfs device; each distinct crash image is materialised on tmpfs and opened with the real FileSystemDirectory (non-mmap loader, both loaders on the default schedule's trace; thorough: both loaders everywhere; faults at open are C03's subject); oracle: recovered content = abstract index after some prefix, consistent with the call/return stamps, that contains every batch acknowledged before the crash point; every distinct storage trace is additionally replayed against the real FileSystemDirectory and compared byte for byte (traces_replayed_on_real_directory)"
	c.Assumptions = []string{
		"directory entries of files whose Persist returned are durable (the property only demands the file flush, C13)",
		"removals take effect in trace order, except that every subset of one clean-up batch is considered",
		"schedules beyond the deviation bound are not explored",
	}
	names := []string{"safe3", "unsafe3cb", "safe2x1", "safe2x2", "merge4", "safe3keep2", "unsafe4merge", "unsafe3del-cf", "unsafe3upd-cf", "merge-late", "safe2x1+rev", "merge-late+rev", "safe2x2+rr"}
	if c.Thorough() {
		names = append(names, "safe2x1+rr", "merge-late+rr", "unsafe3cb+rr", "unsafe4merge+rr")
	}
	if os.Getenv("VERIF_ONLY") != "" {
		names = strings.Split(os.Getenv("VERIF_ONLY"), ",")
	}
	bound := c.Pick(1, 2)
	budget := c.PickD(80*time.Second, 15*time.Minute)
	deadline := time.Now().Add(budget)
	for i, n := range names {
		// what is left of the budget is shared by the scenarios still to run
		per := time.Until(deadline) / time.Duration(len(names)-i)
		if per < 2*time.Second {
			per = 2 * time.Second
		}
		st := explore.Explore(explore.Config{Scenario: "c02", Param: n, Bound: bound, Budget: per})
		c.AddExplore(st)
		c.AddCounts(0, 0, st.Counts["traces_replayed_on_real_directory"], 0, 0)
		if c.Failed() {
			break
		}
	}
	c.Finish()
}

package harness

// Clock is a logical clock for call/return stamps.  Only one thread runs at
// a time under the controlled scheduler, so a plain counter totally orders
// the stamped events.
type Clock struct{ n int64 }

func (c *Clock) Tick() int64 { c.n++; return c.n }

// ApplyToContent applies a batch to a canonical content string.
func ApplyToContent(content string, b BatchSpec) string {
	m := ModelFromContent(content)
	m.Apply(b)
	return m.Content()
}

// ModelFromContent parses a canonical content string.
func ModelFromContent(content string) *Model {
	m := NewModel()
	if content == "" {
		return m
	}
	start := 0
	for i := 0; i <= len(content); i++ {
		if i == len(content) || content[i] == ',' {
			e := content[start:i]
			for k := 0; k < len(e); k++ {
				if e[k] == '=' {
					m.Docs[e[:k]] = append(m.Docs[e[:k]], e[k+1:])
					break
				}
			}
			start = i + 1
		}
	}
	return m
}

// Package crashfs is the storage device of DESIGN.md §4: an index.Directory
// that keeps its files in memory, mirrors the semantics of
// index.FileSystemDirectory that matter for the properties (advisory locks
// held by open handles, exclusive writer lock, whole-file persist), records
// every operation in a trace, poisons the bytes of a handle when it is closed
// and can inject faults as environment choices of the controlled scheduler.
package crashfs

import (
	"bytes"
	"errors"
	"fmt"
	"io"
	"sort"
	"strconv"

	"github.com/blugelabs/bluge/index"
	"github.com/blugelabs/bluge/verifmc"
	segment "github.com/blugelabs/bluge_segment_api"
)

// Event is one recorded operation (directory operations and harness stamps).
type Event struct {
	Kind   string // persist remove load closeh list lock unlock | call ret callback asyncerr mark
	Name   string // file name
	Data   []byte // persist: the bytes of the item (complete, even if the persist failed half way)
	Old    []byte // persist: previous bytes under that name (nil = absent)
	HadOld bool
	Wrote  int    // persist: bytes that reached the file (== len(Data) on success)
	Err    string // "" = success
	Batch  int    // harness stamps: batch number
	Thread int
	Step   int
	Handle int // load / closeh: handle number
}

// Fault kinds for Persist.
const (
	FaultNone       = 0
	FaultBeforeByte = 1
	FaultPartial    = 2
	FaultAtSync     = 3
)

var ErrInjected = errors.New("injected I/O error")

// Dir implements index.Directory.
type Dir struct {
	Files   map[string][]byte
	handles map[string]int // open shared handles per name
	nextH   int
	open    map[int]*handle
	locked  bool
	Trace   []Event
	// Faults, when set, is consulted on every operation: it returns the fault
	// kind for that call (0 = none).  It typically calls verifmc.Choose.
	Faults func(op, kind string, id uint64) int
	// Points: make every operation a scheduling point.
	Points bool
	// Violations of the handle discipline noticed by the device itself.
	Problems []string
	// Needed, when set, returns the file names that must not be removed right
	// now (segments of the writer's root and of readers held by the harness); a
	// successful Remove of such a name is recorded as a problem.
	Needed func() []string
	// Poison closed handles.
	Poison bool
	Stamp  func() int
}

type handle struct {
	name   string
	data   []byte
	closed bool
}

// New returns an empty device.
func New() *Dir {
	return &Dir{Files: map[string][]byte{}, handles: map[string]int{}, open: map[int]*handle{}, Points: true, Poison: true}
}

// NewFrom returns a device holding a copy of the given files.
func NewFrom(files map[string][]byte) *Dir {
	d := New()
	for k, v := range files {
		d.Files[k] = append([]byte(nil), v...)
	}
	return d
}

// FileName mirrors FileSystemDirectory.fileName.
func FileName(kind string, id uint64) string { return fmt.Sprintf("%012x", id) + kind }

func (d *Dir) point(label string) {
	if d.Points {
		verifmc.PointAt(label)
	}
}

func (d *Dir) rec(e Event) {
	e.Thread = verifmc.ThreadID()
	e.Step = verifmc.StepNow()
	d.Trace = append(d.Trace, e)
}

// Mark records a harness event in the trace.
func (d *Dir) Mark(kind string, batch int, err error) {
	e := Event{Kind: kind, Batch: batch}
	if err != nil {
		e.Err = err.Error()
	}
	d.rec(e)
}

func (d *Dir) fault(op, kind string, id uint64) int {
	if d.Faults == nil {
		return 0
	}
	return d.Faults(op, kind, id)
}

func (d *Dir) Setup(readOnly bool) error { return nil }

func (d *Dir) List(kind string) ([]uint64, error) {
	d.point("dir.List")
	if d.fault("list", kind, 0) != 0 {
		d.rec(Event{Kind: "list", Name: kind, Err: ErrInjected.Error()})
		verifmc.Yield("io-error")
		return nil, ErrInjected
	}
	var rv []uint64
	for name := range d.Files {
		if len(name) > len(kind) && name[len(name)-len(kind):] == kind {
			id, err := strconv.ParseUint(name[:len(name)-len(kind)], 16, 64)
			if err != nil {
				return nil, fmt.Errorf("error parsing identifier '%s': %w", name, err)
			}
			rv = append(rv, id)
		}
	}
	sort.Slice(rv, func(i, j int) bool { return rv[i] > rv[j] })
	d.rec(Event{Kind: "list", Name: kind})
	return rv, nil
}

type closer struct {
	d *Dir
	h int
}

func (c closer) Close() error {
	d := c.d
	h := d.open[c.h]
	if h == nil || h.closed {
		d.Problems = append(d.Problems, fmt.Sprintf("handle %d closed twice", c.h))
		return errors.New("handle closed twice")
	}
	h.closed = true
	d.handles[h.name]--
	if d.Poison {
		for i := range h.data {
			h.data[i] = 0xDB
		}
	}
	d.rec(Event{Kind: "closeh", Name: h.name, Handle: c.h})
	if d.fault("closeh", h.name[len(h.name)-4:], 0) != 0 {
		// the handle is released, but its Close reports an error (EIO on close)
		return ErrInjected
	}
	return nil
}

func (d *Dir) Load(kind string, id uint64) (*segment.Data, io.Closer, error) {
	d.point("dir.Load")
	name := FileName(kind, id)
	if d.fault("load", kind, id) != 0 {
		d.rec(Event{Kind: "load", Name: name, Err: ErrInjected.Error()})
		verifmc.Yield("io-error")
		return nil, nil, ErrInjected
	}
	b, ok := d.Files[name]
	if !ok {
		d.rec(Event{Kind: "load", Name: name, Err: "not found"})
		return nil, nil, fmt.Errorf("open %s: no such file or directory", name)
	}
	if len(b) == 0 {
		// mmap of an empty file fails
		d.rec(Event{Kind: "load", Name: name, Err: "empty"})
		return nil, nil, fmt.Errorf("mmap %s: invalid argument", name)
	}
	d.nextH++
	h := &handle{name: name, data: append([]byte(nil), b...)}
	d.open[d.nextH] = h
	d.handles[name]++
	d.rec(Event{Kind: "load", Name: name, Handle: d.nextH})
	return segment.NewDataBytes(h.data), closer{d, d.nextH}, nil
}

type limitWriter struct {
	buf    *bytes.Buffer
	limit  int // bytes accepted before every further write fails
	failed bool
}

func (w *limitWriter) Write(p []byte) (int, error) {
	if w.failed || w.buf.Len()+len(p) > w.limit {
		n := w.limit - w.buf.Len()
		if n < 0 || w.failed {
			n = 0
		}
		w.buf.Write(p[:n])
		w.failed = true
		return n, ErrInjected
	}
	return w.buf.Write(p)
}

func (d *Dir) Persist(kind string, id uint64, w index.WriterTo, closeCh chan struct{}) error {
	d.point("dir.Persist")
	name := FileName(kind, id)
	old, had := d.Files[name]
	if d.handles[name] > 0 {
		d.rec(Event{Kind: "persist", Name: name, Err: "locked", Old: old, HadOld: had})
		return fmt.Errorf("open %s: resource temporarily unavailable", name)
	}
	f := d.fault("persist", kind, id)
	if f == FaultBeforeByte || f == FaultPartial {
		// the write error reaches the item writer through the io.Writer it is
		// given, exactly as with the real directory: what the item writer does
		// with it decides the outcome
		limit := 0
		if f == FaultPartial {
			limit = 3
		}
		var part bytes.Buffer
		_, werr := w.WriteTo(&limitWriter{buf: &part, limit: limit}, closeCh)
		data := append([]byte(nil), part.Bytes()...)
		ev := Event{Kind: "persist", Name: name, Data: data, Old: old, HadOld: had, Wrote: len(data)}
		if werr != nil {
			delete(d.Files, name) // cleanup() of the real directory
			ev.Err = ErrInjected.Error()
			d.rec(ev)
			verifmc.Yield("io-error")
			return werr
		}
		// the item writer swallowed the write error: the real directory syncs,
		// closes and reports success for a file that holds only what was written
		d.Files[name] = data
		d.rec(ev)
		return nil
	}
	var full bytes.Buffer
	_, werr := w.WriteTo(&full, closeCh)
	data := full.Bytes()
	ev := Event{Kind: "persist", Name: name, Data: data, Old: old, HadOld: had}
	if werr != nil {
		// the item writer itself failed (cancelled): the real directory removes the file
		delete(d.Files, name)
		ev.Err, ev.Wrote = werr.Error(), len(data)
		d.rec(ev)
		return werr
	}
	if f == FaultAtSync {
		ev.Err, ev.Wrote = ErrInjected.Error(), len(data)
		delete(d.Files, name) // cleanup() of the real directory
		d.rec(ev)
		verifmc.Yield("io-error")
		return ErrInjected
	}
	ev.Wrote = len(data)
	d.Files[name] = append([]byte(nil), data...)
	d.rec(ev)
	return nil
}

func (d *Dir) Remove(kind string, id uint64) error {
	d.point("dir.Remove")
	name := FileName(kind, id)
	if d.fault("remove", kind, id) != 0 {
		d.rec(Event{Kind: "remove", Name: name, Err: ErrInjected.Error()})
		return ErrInjected
	}
	if d.handles[name] > 0 {
		d.rec(Event{Kind: "remove", Name: name, Err: "locked"})
		return fmt.Errorf("remove %s: resource temporarily unavailable", name)
	}
	_, had := d.Files[name]
	if had && d.Needed != nil {
		for _, n := range d.Needed() {
			if n == name {
				d.Problems = append(d.Problems, "removed "+name+" while the writer's root or a held reader still refers to it")
			}
		}
	}
	delete(d.Files, name)
	d.rec(Event{Kind: "remove", Name: name, HadOld: had})
	return nil
}

func (d *Dir) Stats() (uint64, uint64) {
	var n, b uint64
	for _, v := range d.Files {
		n++
		b += uint64(len(v))
	}
	if d.locked {
		n++
	}
	return n, b
}

func (d *Dir) Sync() error { return nil }

func (d *Dir) Lock() error {
	d.point("dir.Lock")
	if d.locked {
		d.rec(Event{Kind: "lock", Err: "held"})
		return errors.New("unable to obtain exclusive access: resource temporarily unavailable")
	}
	d.locked = true
	d.rec(Event{Kind: "lock"})
	return nil
}

func (d *Dir) Unlock() error {
	d.point("dir.Unlock")
	if !d.locked {
		d.Problems = append(d.Problems, "unlock of a directory that is not locked")
	}
	d.locked = false
	d.rec(Event{Kind: "unlock"})
	return nil
}

// OpenHandles returns the names that still have open handles.
func (d *Dir) OpenHandles() []string {
	var out []string
	for n, c := range d.handles {
		if c > 0 {
			out = append(out, fmt.Sprintf("%s x%d", n, c))
		}
	}
	sort.Strings(out)
	return out
}

// Locked reports whether the writer lock is held.
func (d *Dir) Locked() bool { return d.locked }

// Snapshot returns a deep copy of the current files.
func (d *Dir) Snapshot() map[string][]byte {
	out := map[string][]byte{}
	for k, v := range d.Files {
		out[k] = append([]byte(nil), v...)
	}
	return out
}

#!/bin/bash
# mutate.sh <patch.diff> <ID> [tier]: apply a deliberate property-breaking change to a scratch
# worktree of /repo (never to /repo itself), run the check against it, remove the worktree.
# Prints DETECTED / MISSED.  Safe to run concurrently.
set -u
cd "$(dirname "$0")"
P=$(realpath "$1"); ID=$2; TIER=${3:-quick}
# MUTATE_SLOT=<k>: a fixed worktree path per stream, so that the go build cache (keyed by directory)
# is hit for every package the patch does not touch
W=/tmp/verif-mut-${MUTATE_SLOT:-$$-$RANDOM}
[ -n "${MUTATE_SLOT:-}" ] && { git -C /repo worktree remove --force $W >/dev/null 2>&1; rm -rf $W; git -C /repo worktree prune; }
git -C /repo worktree add -q --detach $W HEAD || exit 2
if [ -n "${MUTATE_SLOT:-}" ]; then
  # a slot keeps its generated overlay (reused when the patch leaves its inputs alone); binaries and results go
  trap 'git -C /repo worktree remove --force $W >/dev/null 2>&1; A=/verif/build/alt/$(echo $W | tr -c "A-Za-z0-9" "_"); rm -rf $A/out $A/c[0-9][0-9]' EXIT
else
  trap 'git -C /repo worktree remove --force $W >/dev/null 2>&1; rm -rf /verif/build/alt/$(echo $W | tr -c "A-Za-z0-9" "_")' EXIT
fi
git -C $W apply "$P" || { echo "patch does not apply"; exit 2; }
L=build/mutate.$$.log
VERIF_REPO=$W ./run.sh "$ID" "$TIER" > $L 2>&1
rc=$?
grep -v "^\[.*counts:" $L | tail -${MUTATE_TAIL:-4} | cut -c1-400 | sed 's/^/    /'
if [ $rc -eq 1 ] && grep -q "^VIOLATION property=$ID" $L; then echo "DETECTED $(basename $P) by $ID ($TIER)"; else echo "MISSED $(basename $P) by $ID ($TIER) rc=$rc"; fi
rm -f $L

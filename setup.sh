#!/bin/bash
# MANIFEST.setup_cmd: build the tooling and warm the build cache (offline).
set -u
cd "$(dirname "$0")"
V=$(pwd)
export GOFLAGS=-mod=mod GOPROXY=off GOSUMDB=off GOTOOLCHAIN=local
export GOCACHE=$V/build/gocache
mkdir -p build/bin build/ov evidence
cp /repo/go.sum go.sum 2>/dev/null
go build -o build/bin/mcrewrite ./cmd/mcrewrite || exit 2
build/bin/mcrewrite -repo /repo -out build/ov -shim mc -hooks hooks || exit 2
# warm the cache: every check binary once (plain), the race ones with -race
for d in checks/*/; do
  id=$(basename "$d")
  RACE=""
  [ -f "$d/RACE" ] && RACE="-race"
  OV=build/ov/overlay.json
  [ -f "$d/OSHOOK" ] && OV=build/ov/overlay_os.json
  go build $RACE -overlay $OV -o build/bin/$id ./checks/$id || echo "setup: warning: $id did not build"
done
echo "setup done"

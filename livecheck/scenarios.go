package livecheck

import "verif/harness"

func u(id, v string) harness.Op  { return harness.Op{Kind: 'U', ID: id, Ver: v} }
func in(id, v string) harness.Op { return harness.Op{Kind: 'I', ID: id, Ver: v} }
func d(id string) harness.Op     { return harness.Op{Kind: 'D', ID: id} }

type B = harness.BatchSpec

var threeBatches = []B{{in("a", "1"), in("b", "1")}, {u("a", "2")}, {d("b"), in("c", "1")}}
var mergeBatches = []B{{in("a", "1")}, {in("b", "1")}, {in("c", "1")}, {u("a", "2")}, {d("b")}}
var emptyingBatches = []B{{in("a", "1")}, {in("b", "1")}, {d("a")}, {d("b")}, {in("c", "1")}}

var partialBatches = []B{{in("a", "1"), in("b", "1"), in("c", "1")}, {d("b")}, {u("a", "2")}, {in("d", "1")}}

// a two-document segment WITHOUT deletions goes into a merge; a delete of one of its documents lands while
// the merge is in flight; the segment keeps a live document
var lateDeleteBatches = []B{{in("a", "1"), in("b", "1")}, {in("c", "1")}, {d("a")}, {in("e", "1")}, {u("c", "2")}}

// Scenarios shared by C04, C06 and C11.
var Scenarios = map[string]Scenario{
	// readers of three ages held while updates/deletes, eager file merges, persists and clean-ups go on
	"rd-safe":      {Batches: threeBatches, Opts: harness.Opts{EagerMerge: true}, Acquires: 3},
	"rd-safe-cf":   {Batches: threeBatches, Opts: harness.Opts{EagerMerge: true}, Acquires: 3, ClientsFirst: true},
	"rd-unsafe":    {Batches: threeBatches, Opts: harness.Opts{EagerMerge: true, Unsafe: true}, Acquires: 3},
	"rd-unsafe-cf": {Quiesce: true, Batches: threeBatches, Opts: harness.Opts{EagerMerge: true, Unsafe: true}, Acquires: 3, ClientsFirst: true},
	// no in-memory merging: several file segments appear at once, so merge tasks leave segments behind
	"rd-unsafe-cf-nomem": {Quiesce: true, Batches: threeBatches, Opts: harness.Opts{EagerMerge: true, Unsafe: true, NoMemMerge: true}, Acquires: 3, ClientsFirst: true},
	// a three-document segment that is partially deleted while still in memory, then persisted directly
	"rd-partial-ucf-nomem":    {Quiesce: true, Batches: partialBatches, Opts: harness.Opts{EagerMerge: true, Unsafe: true, NoMemMerge: true}, Acquires: 3, ClientsFirst: true, IDs: []string{"a", "b", "c", "d"}},
	"rd-partial-ucf-nomem-f1": {Quiesce: true, Batches: partialBatches, Opts: harness.Opts{EagerMerge: true, MergeFloor1: true, Unsafe: true, NoMemMerge: true}, Acquires: 3, ClientsFirst: true, IDs: []string{"a", "b", "c", "d"}},
	"rd-late":                 {Batches: lateDeleteBatches, Opts: harness.Opts{EagerMerge: true}, Acquires: 3, IDs: []string{"a", "b", "c", "e"}},
	"rd-late-ucf-nomem":       {Quiesce: true, Batches: lateDeleteBatches, Opts: harness.Opts{EagerMerge: true, Unsafe: true, NoMemMerge: true}, Acquires: 3, ClientsFirst: true, IDs: []string{"a", "b", "c", "e"}},
	"rd-nap-cf":               {Quiesce: true, Batches: mergeBatches[:4], Opts: harness.Opts{EagerMerge: true, Unsafe: true, NapMS: 5}, Acquires: 3, ClientsFirst: true},
	"rd-keep2":                {Batches: threeBatches, Opts: harness.Opts{EagerMerge: true, Retain: 2}, Acquires: 2},
	"rd-keep3":                {Batches: threeBatches, Opts: harness.Opts{EagerMerge: true, Retain: 3}, Acquires: 2},
	// a client whose deletes/updates land on segments under merge; a fresh reader after every batch
	"mg-safe":                 {Batches: mergeBatches, Opts: harness.Opts{EagerMerge: true}, FreshAfterEach: true},
	"mg-unsafe":               {Batches: mergeBatches, Opts: harness.Opts{EagerMerge: true, Unsafe: true}, FreshAfterEach: true},
	"mg-unsafe-cf":            {Batches: mergeBatches, Opts: harness.Opts{EagerMerge: true, Unsafe: true}, FreshAfterEach: true, ClientsFirst: true},
	"mg-unsafe-cf-nomem":      {Quiesce: true, Batches: mergeBatches, Opts: harness.Opts{EagerMerge: true, Unsafe: true, NoMemMerge: true}, FreshAfterEach: true, ClientsFirst: true},
	"mg-empty-ucf-nomem":      {Quiesce: true, Batches: emptyingBatches, Opts: harness.Opts{EagerMerge: true, Unsafe: true, NoMemMerge: true}, FreshAfterEach: true, ClientsFirst: true},
	"mg-partial-ucf-nomem":    {Quiesce: true, Batches: partialBatches, Opts: harness.Opts{EagerMerge: true, Unsafe: true, NoMemMerge: true}, FreshAfterEach: true, ClientsFirst: true, IDs: []string{"a", "b", "c", "d"}},
	"mg-partial-unsafe":       {Batches: partialBatches, Opts: harness.Opts{EagerMerge: true, Unsafe: true}, FreshAfterEach: true, IDs: []string{"a", "b", "c", "d"}},
	"mg-partial-ucf-nomem-f1": {Quiesce: true, Batches: partialBatches, Opts: harness.Opts{EagerMerge: true, MergeFloor1: true, Unsafe: true, NoMemMerge: true}, FreshAfterEach: true, ClientsFirst: true, IDs: []string{"a", "b", "c", "d"}},
	"mg-late":                 {Batches: lateDeleteBatches, Opts: harness.Opts{EagerMerge: true}, FreshAfterEach: true, IDs: []string{"a", "b", "c", "e"}},
	"mg-late-unsafe":          {Batches: lateDeleteBatches, Opts: harness.Opts{EagerMerge: true, Unsafe: true}, FreshAfterEach: true, IDs: []string{"a", "b", "c", "e"}},
	"mg-late-ucf-nomem":       {Quiesce: true, Batches: lateDeleteBatches, Opts: harness.Opts{EagerMerge: true, Unsafe: true, NoMemMerge: true}, FreshAfterEach: true, ClientsFirst: true, IDs: []string{"a", "b", "c", "e"}},
	"mg-empty":                {Batches: emptyingBatches, Opts: harness.Opts{EagerMerge: true}, FreshAfterEach: true},
	"mg-empty-ucf":            {Batches: emptyingBatches, Opts: harness.Opts{EagerMerge: true, Unsafe: true}, FreshAfterEach: true, ClientsFirst: true},
	"mg-nap":                  {Batches: mergeBatches[:4], Opts: harness.Opts{EagerMerge: true, Unsafe: true, NapMS: 5}, FreshAfterEach: true, ClientsFirst: true},
}

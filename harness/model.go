// Package harness holds what the concurrent checks share: the abstract
// reference index, the batch alphabet, document construction, reader
// observation and writer configuration on top of the crashfs device.
package harness

import (
	"fmt"
	"sort"
	"strings"
)

// Op is one operation of a batch.
type Op struct {
	Kind byte   // 'I' insert, 'U' update, 'D' delete
	ID   string // document id
	Ver  string // version written (I, U)
}

// BatchSpec is the content of one batch.
type BatchSpec []Op

func (b BatchSpec) String() string {
	var p []string
	for _, o := range b {
		if o.Kind == 'D' {
			p = append(p, fmt.Sprintf("D(%s)", o.ID))
		} else {
			p = append(p, fmt.Sprintf("%c(%s,%s)", o.Kind, o.ID, o.Ver))
		}
	}
	return "[" + strings.Join(p, " ") + "]"
}

// Model is the abstract index: a multiset of (id, version).
type Model struct {
	Docs map[string][]string // id -> live versions (sorted)
}

func NewModel() *Model { return &Model{Docs: map[string][]string{}} }

func (m *Model) Clone() *Model {
	c := NewModel()
	for k, v := range m.Docs {
		c.Docs[k] = append([]string(nil), v...)
	}
	return c
}

// Apply applies a batch atomically: first every live document whose id the
// batch names (update or delete) is removed, then its documents are added.
func (m *Model) Apply(b BatchSpec) {
	for _, o := range b {
		if o.Kind == 'U' || o.Kind == 'D' {
			delete(m.Docs, o.ID)
		}
	}
	for _, o := range b {
		if o.Kind == 'I' || o.Kind == 'U' {
			m.Docs[o.ID] = append(m.Docs[o.ID], o.Ver)
			sort.Strings(m.Docs[o.ID])
		}
	}
}

// Content is the canonical rendering of the model: sorted "id=ver" entries.
func (m *Model) Content() string {
	var e []string
	for id, vs := range m.Docs {
		for _, v := range vs {
			e = append(e, id+"="+v)
		}
	}
	sort.Strings(e)
	return strings.Join(e, ",")
}

// ContentOf renders id=ver pairs canonically.
func ContentOf(pairs []string) string {
	p := append([]string(nil), pairs...)
	sort.Strings(p)
	return strings.Join(p, ",")
}

// C12: snapshot files round-trip and every damaged file is rejected safely.
package main

import (
	"bytes"
	"fmt"
	"github.com/blugelabs/bluge/verifmc"
	"hash/crc32"
	"io"
	"log"
	"os"
	"path/filepath"
	"reflect"
	"runtime/debug"
	"runtime/metrics"
	"sort"
	"time"

	"github.com/blugelabs/bluge"
	"github.com/blugelabs/bluge/index"
	segment "github.com/blugelabs/bluge_segment_api"
	iceV1 "github.com/blugelabs/ice"
	iceV2 "github.com/blugelabs/ice/v2"

	"verif/checkmain"
	"verif/explore"
)

// ---------------------------------------------------------------- fixtures

var segBytes = map[uint32][]byte{}

func buildSegments() {
	for _, ver := range []uint32{1, 2} {
		var docs []segment.Document
		for i := 0; i < 3; i++ {
			d := bluge.NewDocument(fmt.Sprintf("d%d", i)).AddField(bluge.NewTextField("t", "x y"))
			d.Analyze()
			docs = append(docs, d)
		}
		norm := func(string, int) float32 { return 1 }
		var seg segment.Segment
		var err error
		if ver == 1 {
			seg, _, err = iceV1.New(docs, norm)
		} else {
			seg, _, err = iceV2.New(docs, norm)
		}
		if err != nil {
			panic(err)
		}
		var buf bytes.Buffer
		if _, err := seg.WriteTo(&buf, make(chan struct{})); err != nil {
			panic(err)
		}
		segBytes[ver] = buf.Bytes()
	}
}

// memDir serves snapshots from memory and a valid segment for every id.
type memDir struct {
	snaps  map[uint64][]byte
	segVer map[uint64]uint32
}

func (d *memDir) Setup(bool) error { return nil }
func (d *memDir) List(kind string) ([]uint64, error) {
	var rv []uint64
	if kind == index.ItemKindSnapshot {
		for id := range d.snaps {
			rv = append(rv, id)
		}
	}
	sort.Slice(rv, func(i, j int) bool { return rv[i] > rv[j] })
	return rv, nil
}
func (d *memDir) Load(kind string, id uint64) (*segment.Data, io.Closer, error) {
	if kind == index.ItemKindSnapshot {
		b, ok := d.snaps[id]
		if !ok {
			return nil, nil, fmt.Errorf("no such snapshot")
		}
		return segment.NewDataBytes(append([]byte(nil), b...)), nil, nil
	}
	v := d.segVer[id]
	if v == 0 {
		v = 1
	}
	return segment.NewDataBytes(append([]byte(nil), segBytes[v]...)), nil, nil
}
func (d *memDir) Persist(string, uint64, index.WriterTo, chan struct{}) error {
	return fmt.Errorf("read only")
}
func (d *memDir) Remove(string, uint64) error { return nil }
func (d *memDir) Stats() (uint64, uint64)     { return 0, 0 }
func (d *memDir) Sync() error                 { return nil }
func (d *memDir) Lock() error                 { return nil }
func (d *memDir) Unlock() error               { return nil }

func memConfig(d *memDir) index.Config {
	return index.DefaultConfigWithDirectory(func() index.Directory { return d })
}

// ---------------------------------------------------------------- round trip

var idAlphabet = []uint64{0, 1, 127, 128, 1<<32 - 1, 1<<64 - 1}
var verAlphabet = []uint32{1, 2}

func deletedAlphabet() [][]uint32 {
	every3 := []uint32{}
	for i := uint32(0); i < 9000; i += 3 {
		every3 = append(every3, i)
	}
	run := []uint32{}
	for i := uint32(70000); i < 75000; i++ { // a run container
		run = append(run, i)
	}
	dense := []uint32{}
	for i := uint32(0); i < 65536; i += 2 { // a bitmap container (32768 values)
		dense = append(dense, i)
	}
	return [][]uint32{nil, {0}, {0, 1, 2, 3, 4, 5, 6, 7, 8, 9}, every3, run, dense}
}

var delAlpha = deletedAlphabet()

type entryChoice struct {
	id  int
	ver int
	del int // 0 = none recorded
}

func nEntry() int64 { return int64(len(idAlphabet) * len(verAlphabet) * (len(delAlpha) + 1)) }

func entryOf(k int64) index.VerifSegInfo {
	id := idAlphabet[k%int64(len(idAlphabet))]
	k /= int64(len(idAlphabet))
	ver := verAlphabet[k%int64(len(verAlphabet))]
	k /= int64(len(verAlphabet))
	si := index.VerifSegInfo{ID: id, Type: "ice", Version: ver}
	if k > 0 {
		si.HasDeleted = true
		si.Deleted = delAlpha[k-1]
	}
	return si
}

// round-trip case space: 0, 1, 2 segments over the full entry alphabet, and 3
// segments over the entry alphabet restricted to small deleted sets.
func rtTotal(param string) int64 {
	n := nEntry()
	small := int64(len(idAlphabet) * len(verAlphabet) * 3)
	t := 1 + n + n*n
	if param == "thorough" {
		t += small * small * small
	}
	return t
}

func rtSpec(idx int64, param string) []index.VerifSegInfo {
	n := nEntry()
	if idx == 0 {
		return nil
	}
	idx--
	if idx < n {
		return []index.VerifSegInfo{entryOf(idx)}
	}
	idx -= n
	if idx < n*n {
		return []index.VerifSegInfo{entryOf(idx % n), entryOf(idx / n)}
	}
	idx -= n * n
	small := int64(len(idAlphabet) * len(verAlphabet) * 3)
	return []index.VerifSegInfo{entryOf(idx % small), entryOf((idx / small) % small), entryOf(idx / small / small)}
}

// what the decoder is expected to give back: an empty deleted set is not kept
func normalise(in []index.VerifSegInfo) []index.VerifSegInfo {
	var out []index.VerifSegInfo
	for _, s := range in {
		c := index.VerifSegInfo{ID: s.ID, Type: s.Type, Version: s.Version}
		if s.HasDeleted && len(s.Deleted) > 0 {
			c.HasDeleted = true
			c.Deleted = s.Deleted
		}
		out = append(out, c)
	}
	return out
}

func describe(in []index.VerifSegInfo) string {
	s := fmt.Sprintf("%d segs:", len(in))
	for _, e := range in {
		s += fmt.Sprintf(" (id=%d v%d del=%v/%d)", e.ID, e.Version, e.HasDeleted, len(e.Deleted))
	}
	return s
}

func guarded(f func() error) (err error) {
	debug.SetPanicOnFault(true)
	defer func() {
		if r := recover(); r != nil {
			err = fmt.Errorf("PANIC: %v", r)
		}
	}()
	return f()
}

func rtEval(idx int64, param string) *explore.Result {
	spec := rtSpec(idx, param)
	res := &explore.Result{Outcome: fmt.Sprint(idx), Nontrivial: 1, Key: "roundtrip:" + describe(spec)}
	err := guarded(func() error {
		enc, err := index.VerifEncodeSnapshot(9, spec)
		if err != nil {
			return fmt.Errorf("encode: %v", err)
		}
		want := normalise(spec)
		// (1) the decoder alone
		got, _, err := index.VerifDecodeSnapshot(enc[:len(enc)-4])
		if err != nil {
			return fmt.Errorf("decode of a produced encoding failed: %v", err)
		}
		if !equalInfos(got, want) {
			return fmt.Errorf("decoded %s, expected %s", describe(got), describe(want))
		}
		// (2) the loader (CRC validation, plugin lookup) through OpenReader
		d := &memDir{snaps: map[uint64][]byte{9: enc}, segVer: map[uint64]uint32{}}
		for _, s := range spec {
			d.segVer[s.ID] = s.Version
		}
		okVersions := true
		seen := map[uint64]uint32{}
		for _, s := range spec {
			if v, dup := seen[s.ID]; dup && v != s.Version {
				okVersions = false
			}
			seen[s.ID] = s.Version
		}
		if okVersions {
			snap, err := index.OpenReader(memConfig(d))
			if err != nil {
				return fmt.Errorf("OpenReader rejected an intact snapshot: %v", err)
			}
			if !equalInfos(snap.VerifSegInfos(), want) {
				return fmt.Errorf("loaded %s, expected %s", describe(snap.VerifSegInfos()), describe(want))
			}
			re, err := index.VerifEncodeSnapshot(9, snap.VerifSegInfos())
			if err != nil {
				return err
			}
			enc2, _ := index.VerifEncodeSnapshot(9, want)
			if !bytes.Equal(re, enc2) {
				return fmt.Errorf("re-encoding of the loaded snapshot differs from the encoding of the expected state")
			}
			_ = snap.Close()
		}
		if idx%997 == 0 {
			res.Sample = map[string]interface{}{"roundtrip": describe(spec), "encoded_bytes": len(enc)}
		}
		return nil
	})
	if err != nil {
		res.Failure = "round trip of " + describe(spec) + ": " + err.Error()
	}
	return res
}

func equalInfos(a, b []index.VerifSegInfo) bool {
	if len(a) != len(b) {
		return false
	}
	for i := range a {
		if a[i].ID != b[i].ID || a[i].Type != b[i].Type || a[i].Version != b[i].Version || a[i].HasDeleted != b[i].HasDeleted {
			return false
		}
		if !reflect.DeepEqual(a[i].Deleted, b[i].Deleted) && (len(a[i].Deleted) > 0 || len(b[i].Deleted) > 0) {
			return false
		}
	}
	return true
}

// ---------------------------------------------------------------- rejection

type base struct {
	name string
	spec []index.VerifSegInfo
	enc  []byte
}

var bases []base

func buildBases() {
	e3 := delAlpha[3]
	specs := []struct {
		n string
		s []index.VerifSegInfo
	}{
		{"empty", nil},
		{"one", []index.VerifSegInfo{{ID: 1, Type: "ice", Version: 1}}},
		{"one-v2-del", []index.VerifSegInfo{{ID: 2, Type: "ice", Version: 2, HasDeleted: true, Deleted: []uint32{0}}}},
		{"two", []index.VerifSegInfo{{ID: 1, Type: "ice", Version: 1, HasDeleted: true, Deleted: []uint32{1}}, {ID: 3, Type: "ice", Version: 1}}},
		{"three-bigid", []index.VerifSegInfo{{ID: 127, Type: "ice", Version: 1}, {ID: 128, Type: "ice", Version: 1, HasDeleted: true, Deleted: []uint32{0, 2}}, {ID: 1<<64 - 1, Type: "ice", Version: 1}}},
		{"large-del", []index.VerifSegInfo{{ID: 1, Type: "ice", Version: 1, HasDeleted: true, Deleted: e3}, {ID: 2, Type: "ice", Version: 1}}},
	}
	for _, s := range specs {
		enc, err := index.VerifEncodeSnapshot(5, s.s)
		if err != nil {
			panic(err)
		}
		bases = append(bases, base{s.n, s.s, enc})
	}
}

var tailAlpha = []byte{0x00, 0xff, 0x01}
var shortAlpha = []byte{0x00, 0x01, 0x03, 0x7f, 0x80, 0xff}

func nTails() int64 { return 3 + 9 + 27 + 81 }
func tailOf(k int64) []byte {
	for l := 1; l <= 4; l++ {
		n := int64(1)
		for i := 0; i < l; i++ {
			n *= 3
		}
		if k < n {
			b := make([]byte, l)
			for i := 0; i < l; i++ {
				b[i] = tailAlpha[k%3]
				k /= 3
			}
			return b
		}
		k -= n
	}
	return nil
}
func nShort() int64 { return 1 + 6 + 36 + 216 + 1296 + 7776 }
func shortOf(k int64) []byte {
	if k == 0 {
		return []byte{}
	}
	k--
	for l := 1; l <= 5; l++ {
		n := int64(1)
		for i := 0; i < l; i++ {
			n *= 6
		}
		if k < n {
			b := make([]byte, l)
			for i := 0; i < l; i++ {
				b[i] = shortAlpha[k%6]
				k /= 6
			}
			return b
		}
		k -= n
	}
	return nil
}

// damage space of one base: truncations [0,len), bit flips len*8, tails; and
// (base 0 only) the short whole-file strings.
func damages(b *base, withShort bool, flipLimit int) int64 {
	n := int64(len(b.enc)) + nTails()
	fl := len(b.enc)
	if flipLimit > 0 && fl > flipLimit {
		fl = flipLimit
	}
	n += int64(fl) * 8
	if withShort {
		n += nShort()
	}
	return n
}

func damageOf(b *base, k int64, flipLimit int) ([]byte, string) {
	L := int64(len(b.enc))
	if k < L {
		return append([]byte(nil), b.enc[:k]...), fmt.Sprintf("%s truncated to %d of %d bytes", b.name, k, L)
	}
	k -= L
	fl := L
	if flipLimit > 0 && fl > int64(flipLimit) {
		fl = int64(flipLimit)
	}
	if k < fl*8 {
		// flips are spread over the file when limited: head, tail and middle thirds
		pos := k / 8
		if fl < L {
			third := fl / 3
			switch {
			case pos < third:
			case pos < 2*third:
				pos = L/2 - third/2 + (pos - third)
			default:
				pos = L - (fl - pos)
			}
		}
		d := append([]byte(nil), b.enc...)
		d[pos] ^= 1 << uint(k%8)
		return d, fmt.Sprintf("%s with bit %d of byte %d flipped", b.name, k%8, pos)
	}
	k -= fl * 8
	if k < nTails() {
		t := tailOf(k)
		return append(append([]byte(nil), b.enc...), t...), fmt.Sprintf("%s with tail %x appended", b.name, t)
	}
	k -= nTails()
	s := shortOf(k)
	return s, fmt.Sprintf("whole file %x", s)
}

func flipLimit(param string) int {
	if param == "thorough" {
		return 0
	}
	return 600
}

func rejTotal(param string) int64 {
	var n int64
	for i := range bases {
		n += damages(&bases[i], i == 0, flipLimit(param))
	}
	return n
}

func rejCase(idx int64, param string) (*base, []byte, string) {
	for i := range bases {
		n := damages(&bases[i], i == 0, flipLimit(param))
		if idx < n {
			d, desc := damageOf(&bases[i], idx, flipLimit(param))
			return &bases[i], d, desc
		}
		idx -= n
	}
	return nil, nil, ""
}

var allocSample = []metrics.Sample{{Name: "/gc/heap/allocs:bytes"}}

func allocated() uint64 {
	metrics.Read(allocSample)
	return allocSample[0].Value.Uint64()
}

const allocSlack = 1 << 20

// rejection through the loader over an in-memory directory
func rejMemEval(idx int64, param string) *explore.Result {
	b, dmg, desc := rejCase(idx, param)
	res := &explore.Result{Outcome: fmt.Sprint(idx), Nontrivial: 1, Key: "reject-mem:" + desc}
	if bytes.Equal(dmg, b.enc) {
		res.Nontrivial = 0
		return res
	}
	err := guarded(func() error {
		// (a) the damaged file alone
		d := &memDir{snaps: map[uint64][]byte{5: dmg}, segVer: map[uint64]uint32{}}
		for _, s := range b.spec {
			d.segVer[s.ID] = s.Version
		}
		a0 := allocated()
		snap, err := index.OpenReader(memConfig(d))
		a1 := allocated()
		if err == nil {
			got := describe(snap.VerifSegInfos())
			_ = snap.Close()
			return fmt.Errorf("accepted as a snapshot (%s)", got)
		}
		if a1-a0 > allocSlack+16*uint64(len(dmg)) {
			return fmt.Errorf("allocated %d bytes while rejecting a %d byte file", a1-a0, len(dmg))
		}
		// (b) next to an older intact snapshot the loader falls back to it
		older, _ := index.VerifEncodeSnapshot(4, bases[1].spec)
		d2 := &memDir{snaps: map[uint64][]byte{5: dmg, 4: older}, segVer: map[uint64]uint32{1: 1}}
		snap, err = index.OpenReader(memConfig(d2))
		if err != nil {
			return fmt.Errorf("did not fall back to the older intact snapshot: %v", err)
		}
		if snap.VerifEpoch() != 4 || !equalInfos(snap.VerifSegInfos(), normalise(bases[1].spec)) {
			e := snap.VerifEpoch()
			_ = snap.Close()
			return fmt.Errorf("fell back to epoch %d instead of the intact epoch 4", e)
		}
		_ = snap.Close()
		// (c) so does a writer opened on that directory (OpenWriter walks the snapshots itself)
		d3 := &memDir{snaps: map[uint64][]byte{5: dmg, 4: older}, segVer: map[uint64]uint32{1: 1}}
		var werr error
		sch := verifmc.Run(verifmc.Options{MaxSteps: 1 << 20}, func() {
			cfg := memConfig(d3)
			cfg.AsyncError = func(error) {}
			w, err := index.OpenWriter(cfg)
			if err != nil {
				werr = fmt.Errorf("OpenWriter did not fall back to the older intact snapshot: %v", err)
				verifmc.Exit()
				return
			}
			r, err := w.Reader()
			if err != nil {
				werr = fmt.Errorf("reader of the writer opened next to a damaged snapshot: %v", err)
			} else {
				if !equalInfos(r.VerifSegInfos(), normalise(bases[1].spec)) {
					werr = fmt.Errorf("a writer opened next to the damaged snapshot shows %s instead of the intact epoch 4", describe(r.VerifSegInfos()))
				}
				_ = r.Close()
			}
			_ = w.Close()
		})
		if werr != nil {
			return werr
		}
		if sch.Failure != "" {
			return fmt.Errorf("OpenWriter next to a damaged snapshot: %s", sch.Failure)
		}
		return nil
	})
	if err != nil {
		res.Failure = desc + ": " + err.Error()
	} else if idx%5003 == 0 {
		res.Sample = map[string]interface{}{"rejected": desc}
	}
	return res
}

// rejection through the real file-system directory with both loaders
var fsRoot string

func fsSetup() string {
	if fsRoot != "" {
		return fsRoot
	}
	root, err := os.MkdirTemp("/dev/shm", "verif-c12-")
	if err != nil {
		panic(err)
	}
	fsRoot = root
	return root
}

func writeSegs(dir string, spec []index.VerifSegInfo) error {
	for _, s := range spec {
		if err := os.WriteFile(filepath.Join(dir, fmt.Sprintf("%012x.seg", s.ID)), segBytes[s.Version], 0o600); err != nil {
			return err
		}
	}
	return nil
}

func rejFSEval(idx int64, param string) *explore.Result {
	loader := idx % 2
	b, dmg, desc := rejCase(idx/2, param)
	ldName := []string{"mmap", "nommap"}[loader]
	desc += " [" + ldName + " loader]"
	res := &explore.Result{Outcome: fmt.Sprint(idx), Nontrivial: 1, Key: "reject-fs:" + desc}
	if bytes.Equal(dmg, b.enc) {
		res.Nontrivial = 0
		return res
	}
	root := fsSetup()
	dir := filepath.Join(root, fmt.Sprintf("w%d", os.Getpid()))
	_ = os.RemoveAll(dir)
	if err := os.MkdirAll(dir, 0o700); err != nil {
		res.Failure = "harness: " + err.Error()
		return res
	}
	defer os.RemoveAll(dir)
	open := func() (*index.Snapshot, error) {
		cfg := index.DefaultConfigWithDirectory(func() index.Directory {
			d := index.NewFileSystemDirectory(dir)
			if loader == 1 {
				d.SetLoadMMapFunc(index.LoadMMapNever)
			}
			return d
		})
		return index.OpenReader(cfg)
	}
	err := guarded(func() error {
		if err := writeSegs(dir, b.spec); err != nil {
			return err
		}
		snapPath := filepath.Join(dir, fmt.Sprintf("%012x.snp", 5))
		if err := os.WriteFile(snapPath, dmg, 0o600); err != nil {
			return err
		}
		a0 := allocated()
		snap, err := open()
		a1 := allocated()
		if err == nil {
			got := describe(snap.VerifSegInfos())
			_ = snap.Close()
			return fmt.Errorf("accepted as a snapshot (%s)", got)
		}
		if a1-a0 > allocSlack+16*uint64(len(dmg)) {
			return fmt.Errorf("allocated %d bytes while rejecting a %d byte file", a1-a0, len(dmg))
		}
		older, _ := index.VerifEncodeSnapshot(4, bases[1].spec)
		if err := writeSegs(dir, bases[1].spec); err != nil {
			return err
		}
		if err := os.WriteFile(filepath.Join(dir, fmt.Sprintf("%012x.snp", 4)), older, 0o600); err != nil {
			return err
		}
		snap, err = open()
		if err != nil {
			return fmt.Errorf("did not fall back to the older intact snapshot: %v", err)
		}
		defer snap.Close()
		if snap.VerifEpoch() != 4 {
			return fmt.Errorf("fell back to epoch %d instead of the intact epoch 4", snap.VerifEpoch())
		}
		n, err := snap.Count()
		if err != nil || n != 3 {
			return fmt.Errorf("the fallback snapshot counts %d documents (%v), expected 3", n, err)
		}
		return nil
	})
	if err != nil {
		res.Failure = desc + ": " + err.Error()
	}
	return res
}

// ---------------------------------------------------------------- CRC-valid byte substitutions

var substAlpha = []byte{0x00, 0x01, 0x7f, 0x80, 0xfe, 0xff}

func crcTotal(param string) int64 {
	var n int64
	for i := range bases {
		if len(bases[i].enc) > crcMaxBase(param) {
			continue // all but the 6 KB base (it only differs by a long bitmap)
		}
		n += int64(len(bases[i].enc)-4) * int64(len(substAlpha))
	}
	return n
}

func crcMaxBase(param string) int {
	return 200
}

// a base with one body byte replaced and the checksum recomputed: not a
// damaged file in the sense of the CRC, but mostly not an encoding the writer
// can produce either (length fields beyond the file, unknown types).  It may be
// rejected or accepted (some substitutions are valid encodings of another
// state), but it must not panic, fault or allocate out of proportion.
func crcEval(idx int64, param string) *explore.Result {
	var b *base
	for i := range bases {
		if len(bases[i].enc) > crcMaxBase(param) {
			continue
		}
		n := int64(len(bases[i].enc)-4) * int64(len(substAlpha))
		if idx < n {
			b = &bases[i]
			break
		}
		idx -= n
	}
	pos := int(idx / int64(len(substAlpha)))
	val := substAlpha[idx%int64(len(substAlpha))]
	desc := fmt.Sprintf("%s with byte %d set to %02x and the CRC recomputed", b.name, pos, val)
	res := &explore.Result{Outcome: desc, Nontrivial: 1, Key: "crc-valid:" + desc}
	if b.enc[pos] == val {
		res.Nontrivial = 0
		return res
	}
	body := append([]byte(nil), b.enc[:len(b.enc)-4]...)
	body[pos] = val
	sum := crc32.ChecksumIEEE(body)
	dmg := append(body, byte(sum>>24), byte(sum>>16), byte(sum>>8), byte(sum))
	err := guarded(func() error {
		d := &memDir{snaps: map[uint64][]byte{5: dmg}, segVer: map[uint64]uint32{}}
		for _, s := range b.spec {
			d.segVer[s.ID] = s.Version
		}
		a0 := allocated()
		snap, err := index.OpenReader(memConfig(d))
		a1 := allocated()
		if err == nil {
			_ = snap.Close()
			res.Counts = map[string]int64{"accepted_as_another_valid_state": 1}
		}
		if a1-a0 > allocSlack+16*uint64(len(dmg)) {
			return fmt.Errorf("allocated %d bytes while loading a %d byte file", a1-a0, len(dmg))
		}
		return nil
	})
	if err != nil {
		res.Failure = desc + ": " + err.Error()
		// class key: a length field that points beyond the file
		res.Key = "crc-valid:length-field-beyond-the-file"
	}
	return res
}

func main() {
	log.SetOutput(io.Discard)
	buildSegments()
	buildBases()
	explore.RegisterEnum("c12-roundtrip", rtTotal, rtEval)
	explore.RegisterEnum("c12-reject-mem", rejTotal, rejMemEval)
	explore.RegisterEnum("c12-crcvalid", crcTotal, crcEval)
	explore.RegisterEnum("c12-reject-fs", func(p string) int64 { return 2 * rejTotal(p) }, rejFSEval)
	explore.WorkerMain()
	c := checkmain.New("C12")
	if v := c.IsReplay(); v != nil {
		c.RunReplay(v)
	}
	c.Rule = "round trip: every snapshot with 0-2 (thorough: 0-3) segments over ids {0,1,127,128,2^32-1,2^64-1} x versions {1,2} x deleted sets {none, empty, {0}, {0..9}, every 3rd of 0..8999 (6 KB, crosses the 4096-byte buffer), a run container, a bitmap container}; rejection: for 6 base encodings (6 bytes to 6 KB) every truncation length, every single-bit flip (quick: of the first/middle/last 200 bytes of the large base), every tail over {00,ff,01}^1..4, and every whole file over {00,01,03,7f,80,ff}^<=5; each through OpenReader on an in-memory directory (there also through OpenWriter next to an older intact snapshot) and on the real FileSystemDirectory with the mmap and the non-mmap loader; every case is a distinct input"
	c.Explanation = "bounded-exhaustive enumeration of encodings and damages against the real encoder/decoder/loader; oracle: equality (round trip), error without panic/fault and with bounded allocation (rejection), fallback to the older intact snapshot"
	c.Assumptions = []string{
		"the coverage-guided fuzzing clause of the property is replaced by exhaustive enumeration of the stated damage classes; long random garbage is outside the bound",
		"allocation is measured as bytes allocated during the call (runtime/metrics), limit 1 MiB + 16 x file size",
	}
	param := c.Tier
	budget := c.PickD(40*time.Second, 10*time.Minute)
	st := explore.Enumerate(explore.EnumConfig{Name: "c12-roundtrip", Param: param, Budget: budget, CrashIsViolation: true})
	c.AddEnum(st)
	st = explore.Enumerate(explore.EnumConfig{Name: "c12-reject-mem", Param: param, Budget: budget, CrashIsViolation: true, Chunk: 500})
	c.AddEnum(st)
	st = explore.Enumerate(explore.EnumConfig{Name: "c12-reject-fs", Param: param, Budget: budget, CrashIsViolation: true, Chunk: 500})
	c.AddEnum(st)
	st = explore.Enumerate(explore.EnumConfig{Name: "c12-crcvalid", Param: param, Budget: budget, CrashIsViolation: true, Chunk: 8, MaxViol: 50, CrashKey: func(int64) string { return "crc-valid:length-field-beyond-the-file" }})
	c.AddEnum(st)
	_ = os.RemoveAll(fsRoot)
	c.Finish()
}

// Package recovery opens crash images with the REAL FileSystemDirectory and
// reads their content, turning faults and panics into verdicts.
package recovery

import (
	"fmt"
	"os"
	"path/filepath"
	"runtime/debug"
	"strconv"
	"strings"

	"github.com/blugelabs/bluge"
	"github.com/blugelabs/bluge/index"
	"github.com/blugelabs/bluge/verifmc"

	"verif/harness"
)

// Outcome of opening one image.
type Outcome struct {
	Opened  bool
	Err     string // error returned by OpenReader (when !Opened)
	Panic   string // panic or fault while opening / reading (always a violation)
	Content string // canonical content when opened
	Epoch   uint64 // epoch of the snapshot that was opened
	ErrPath bool   // some snapshot file newer than the opened one exists (a load error path ran)
	ObsErr  string // error while reading an opened index (always a violation)
}

var scratch string

// Scratch returns this process's scratch directory on tmpfs.
func Scratch() string {
	if scratch == "" {
		scratch = fmt.Sprintf("/dev/shm/verif-%d", os.Getpid())
		_ = os.MkdirAll(scratch, 0o700)
	}
	return scratch
}

// Cleanup removes the scratch directory.
func Cleanup() {
	if scratch != "" {
		_ = os.RemoveAll(scratch)
	}
}

// Materialise writes the image into a fresh directory and returns its path.
func Materialise(files map[string][]byte, name string) (string, error) {
	dir := filepath.Join(Scratch(), name)
	_ = os.RemoveAll(dir)
	if err := os.MkdirAll(dir, 0o700); err != nil {
		return "", err
	}
	for n, b := range files {
		if err := os.WriteFile(filepath.Join(dir, n), b, 0o600); err != nil {
			return "", err
		}
	}
	return dir, nil
}

// OpenFS opens the image through the real file-system directory (mmap loader
// unless noMMap) with bluge.OpenReader and reads the complete content.
func OpenFS(files map[string][]byte, noMMap bool) (out Outcome) {
	dir, err := Materialise(files, "img")
	if err != nil {
		out.Panic = "harness: " + err.Error()
		return
	}
	defer os.RemoveAll(dir)
	// The open and the reads run as a controlled execution (default schedule):
	// the searches spawn goroutines, and a panic or fault in any of them must
	// become a verdict instead of killing the checker.
	s := verifmc.Run(verifmc.Options{MaxSteps: 1 << 20}, func() {
		debug.SetPanicOnFault(true)
		cfg := bluge.DefaultConfigWithDirectory(func() index.Directory {
			d := index.NewFileSystemDirectory(dir)
			if noMMap {
				d.SetLoadMMapFunc(index.LoadMMapNever)
			}
			return d
		})
		r, err := bluge.OpenReader(cfg)
		if err != nil {
			out.Err = err.Error()
			return
		}
		out.Opened = true
		out.Epoch = r.VerifSnapshot().VerifEpoch()
		c, err := harness.Observe(r)
		if err != nil {
			out.ObsErr = err.Error()
		}
		out.Content = c
		if cerr := r.Close(); cerr != nil && out.ObsErr == "" {
			out.ObsErr = "close: " + cerr.Error()
		}
	})
	if s.Failure != "" {
		out.Panic = s.Failure
		if s.Stack != "" {
			out.Panic += "\n" + s.Stack
		}
		out.Opened = false
	}
	return
}

// NewestSnapshot returns the highest snapshot epoch present in the image (0 = none).
func NewestSnapshot(files map[string][]byte) uint64 {
	var max uint64
	for n := range files {
		if strings.HasSuffix(n, ".snp") {
			if id, err := strconv.ParseUint(strings.TrimSuffix(n, ".snp"), 16, 64); err == nil && id > max {
				max = id
			}
		}
	}
	return max
}

// OpenSmart opens with the fast non-mmap loader first; when an error path was
// involved (the open failed although snapshot files exist, or an older
// snapshot than the newest file was opened) it opens again with the mmap
// loader, because that is where a use of unmapped memory shows up as a fault.
// Both outcomes must agree.
func OpenSmart(files map[string][]byte) Outcome {
	o := OpenFS(files, true)
	if o.Panic != "" {
		return o
	}
	newest := NewestSnapshot(files)
	if (!o.Opened && newest > 0) || (o.Opened && o.Epoch != newest) {
		o.ErrPath = true
		m := OpenFS(files, false)
		if m.Panic != "" {
			m.Panic = "(mmap loader) " + m.Panic
			return m
		}
		if m.Opened != o.Opened || m.Content != o.Content {
			m.Panic = fmt.Sprintf("loaders disagree: non-mmap opened=%v {%s}, mmap opened=%v {%s}", o.Opened, o.Content, m.Opened, m.Content)
			return m
		}
		m.ErrPath = true
		return m
	}
	return o
}

//go:build go1.21

// Package msync replaces "sync" in the rewritten index package: same names,
// but blocking is decided by the verifmc scheduler.  The real primitive is
// still taken (at a moment the model guarantees it cannot block) so that a
// -race build sees exactly the program's own happens-before edges.
package msync

import (
	rs "sync"

	"github.com/blugelabs/bluge/verifmc"
)

type Mutex struct {
	real rs.Mutex
	st   verifmc.LockState
}

//go:norace
func (m *Mutex) Lock() {
	verifmc.LockOp(&m.st, false)
	if verifmc.Real() {
		m.real.Lock()
	}
}

//go:norace
func (m *Mutex) Unlock() {
	if verifmc.Real() {
		m.real.Unlock()
	}
	verifmc.UnlockOp(&m.st, false)
}

type RWMutex struct {
	real rs.RWMutex
	st   verifmc.LockState
}

//go:norace
func (m *RWMutex) Lock() {
	verifmc.LockOp(&m.st, false)
	if verifmc.Real() {
		m.real.Lock()
	}
}

//go:norace
func (m *RWMutex) Unlock() {
	if verifmc.Real() {
		m.real.Unlock()
	}
	verifmc.UnlockOp(&m.st, false)
}

//go:norace
func (m *RWMutex) RLock() {
	verifmc.LockOp(&m.st, true)
	if verifmc.Real() {
		m.real.RLock()
	}
}

//go:norace
func (m *RWMutex) RUnlock() {
	if verifmc.Real() {
		m.real.RUnlock()
	}
	verifmc.UnlockOp(&m.st, true)
}

type WaitGroup struct {
	real rs.WaitGroup
	st   verifmc.WgState
}

//go:norace
func (w *WaitGroup) Add(d int) {
	verifmc.WgAdd(&w.st, d)
	if verifmc.Real() {
		w.real.Add(d)
	}
}

//go:norace
func (w *WaitGroup) Done() { w.Add(-1) }

//go:norace
func (w *WaitGroup) Wait() {
	verifmc.WgWait(&w.st)
	if verifmc.Real() {
		w.real.Wait()
	}
}

type Once struct {
	m    Mutex
	done bool
}

func (o *Once) Do(f func()) {
	o.m.Lock()
	defer o.m.Unlock()
	if !o.done {
		o.done = true
		f()
	}
}

// Locker mirrors sync.Locker.
type Locker = rs.Locker

// Pool is passed through.
type Pool = rs.Pool

// Map is passed through.
type Map = rs.Map

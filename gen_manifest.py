#!/usr/bin/env python3
# Regenerates MANIFEST.json from the per-check table below.
import json
props=[json.loads(l) for l in open('/verif/properties.jsonl')]
SCHED="stateless model checking: deviation-bounded exhaustive enumeration of schedules of the real code under a controlled scheduler"
ENUM="bounded-exhaustive enumeration of inputs / operation sequences against a reference model"
CRASH="stateless model checking of the writer (deviation-bounded schedule enumeration) + exhaustive crash-image enumeration of every storage trace, recovered with the real directory"
C={
 "C01": dict(engine="enum", tech=ENUM+" (all batch histories up to a depth over 16 batch shapes x configurations, reference multiset index)",
   text="every history of <=4 batches (default configuration; <=3 for the 23 other directory/format/mode/merge configurations; thorough one deeper) over the 16 batch shapes on two ids, run on the real writer under the default schedule; after every batch and after close+reopen a fresh reader is compared document by document with the abstract multiset index; Writer.Insert/Update/Delete against batches; the duplicate-id probe is enumerated separately",
   note="schedules are not varied here (C05/C06 do that); larger id spaces and longer histories are outside the bound", ref="DESIGN.md §6 C01"),
 "C02": dict(engine="crash", tech=CRASH,
   text="every schedule within d deviations (1 quick, 2 thorough) of 13 writer scenario x default-scheduler combinations (background-first, clients-first, reverse-priority, round-robin) x every crash image of the recorded storage trace (all operation boundaries, every subset of a clean-up batch, every torn prefix / zero-filled / stale-tail variant of the persist in flight): the recovered content is the abstract index after a prefix, compatible with the call/return stamps, that contains every batch acknowledged (nil return or persisted-callback(nil)) before the crash; every distinct trace is replayed on the real FileSystemDirectory and compared byte for byte",
   note="trusts the scheduler shim and the crashfs device (bound to the real directory by the per-trace conformance replay and by C13); directory-entry durability assumed", ref="DESIGN.md §4, §6 C02"),
 "C03": dict(engine="crash", tech=CRASH+", depth-2 crash/recover/continue/crash",
   text="same runs as C02 judged by the recovery oracle: opening any crash image never panics or faults (mmap loader, real directory), succeeds whenever a snapshot had been completed, shows the abstract index after some prefix; on the default schedule's trace (thorough: every schedule) a writer is reopened on every structural image, a continuation batch applied and every crash image of that second life judged against the cumulative model",
   note="depth 2 uses a structural subset of torn lengths; chains deeper than 2 are not explored", ref="DESIGN.md §4, §6 C03"),
 "C04": dict(engine="sched", tech=SCHED+"; oracle = equality of repeated observations of held readers + reference index",
   text="every schedule within d deviations of 16 scenarios (incl. three with I/O faults as environment choices) in which readers of different ages are held open next to a client whose updates/deletes, merges, persists and clean-ups supersede the segments and files they reference; every observation (count, match-all with stored fields, document values, dictionary scan, unscored bitmap conjunction/disjunction, scored searches on recycled iterators, lookups by id) must equal the reader's first one, and the first one the abstract index at acquisition; closed handles are poisoned so that a premature close is observable",
   note="an observation is atomic w.r.t. writer activity (C15 covers interleavings inside searches)", ref="DESIGN.md §6 C04"),
 "C05": dict(engine="sched", tech=SCHED+" + linearizability checking (porcupine)",
   text="every schedule within d deviations from the default scheduler (d=2 quick, 3 thorough, cut by budget and reported) of 9 colliding multi-client scenario x default-scheduler combinations in safe and unsafe mode on the real writer; each recorded call/return history is decided by porcupine against the abstract index",
   note="trusts the verifmc scheduler shim (generated overlay), the crashfs storage model and porcupine; schedules beyond the deviation bound and larger scenarios are not covered", ref="DESIGN.md §3, §6 C05"),
 "C06": dict(engine="sched", tech=SCHED+"; oracle = sequential reference index after every client step",
   text="every schedule within d deviations of 17 scenarios in which a single client's updates and deletes land on segments under in-memory merge, file merge and persist swap (including merge sets emptied before introduction, stay-behind segments, the persister nap timer); a fresh reader is compared with the sequential model after every batch, at quiescence and after reopen",
   note="single client, so the expected content is unique; schedules beyond the bound not covered", ref="DESIGN.md §6 C06"),
 "C07": dict(engine="enum", tech=ENUM+" (all corpora over 3 terms x 5 documents in 2 segments with pending deletions x boolean shapes; per-query-type alphabets) against an independent set-semantics evaluator",
   text="all 2^15 term assignments (reduced by term permutation) x boolean shapes of depth <=2 in three collector/score modes, every term-dictionary query over a small byte vocabulary, all phrases/multi-phrases with slop over short documents, numeric/date ranges on encoding boundaries, geo boxes and circles on a grid (each also as a clause of a conjunction, both clause orders); result id set must equal an independent evaluator's, no id twice, no deleted document",
   note="the depth-2 product is bounded by leaf count as stated in the evidence; geo points near an edge are classified apart as the property prescribes", ref="DESIGN.md §6 C07"),
 "C08": dict(engine="enum", tech=ENUM+" (all corpora <=3 documents x all build recipes x fixed query list), differential oracle against the canonical recipe",
   text="every multiset of <=3 (thorough <=4) documents x 16 recipe groups (batch partitioning, forced merges, reopen, backup, offline writer, in-memory, segment v2, optimisation switches, score none, MultiSearch partitions) x 44 queries with field sort and aggregations: identical hits, stored fields, order and aggregations; scores bit-identical whenever no merged segment is involved",
   note="differential: a defect shared by all recipes is C07/C09/C16's business", ref="DESIGN.md §6 C08"),
 "C09": dict(engine="enum", tech=ENUM+" (all match lists over tie-heavy alphabets x all (n,from) x all sort orders <=3 keys; all page sizes) against a reference total order",
   text="the TopN collector alone on every match list over tie-heavy key alphabets for every (n, from) in {0..13}^2 and every sort order of <=3 keys with direction and missing placement, across the slice/heap switch; end to end through Reader.Search on small corpora in every segment layout, with After/Before chains for every page size, and requests without a sort order issued before, inside and after such chains",
   note="key alphabets and list lengths as stated in the evidence", ref="DESIGN.md §6 C09"),
 "C10": dict(engine="enum", tech=ENUM+" (all pairs / all (interval, probe) triples over structural boundary sets; exhaustive local windows)",
   text="round trip of every boundary value at every shift, order embedding for all pairs at every shift, every (min,max,incl,incl) interval over the boundary set against every probe through the real range searchers, fully exhaustive 256-point windows, and real-index range queries and sorts",
   note="values away from the structural boundary sets are covered only inside the exhaustive windows", ref="DESIGN.md §6 C10"),
 "C11": dict(engine="sched", tech=SCHED+" with file/handle/lock invariants on every trace prefix; explicit enumeration of lock-protocol operation sequences on the real directory",
   text="(a) every schedule within d deviations of 12 scenarios (retention 1,2,3; held readers; eager merges; three with I/O faults as environment choices): after every storage operation at least N snapshots are loadable with all their segment files once N were committed, no successful Remove hits a file the root or a held reader refers to, every handle is closed exactly once and none is open and the lock is free at the end; (b) all 9330 sequences of length <=5 over {open W1, open W2, batch W1, close W1, close W2, open reader} on the real FileSystemDirectory against a lock model",
   note="flock semantics of the device are bound to the real directory by the conformance replay in C02", ref="DESIGN.md §6 C11"),
 "C12": dict(engine="enum", tech=ENUM+" (all snapshots over boundary alphabets; every truncation, single-bit flip, tail, short file, CRC-valid length-field substitution)",
   text="exhaustive round trip of all snapshots over boundary alphabets and exhaustive rejection (every truncation, every single-bit flip, tails, all short files) through the real decoder and loader on an in-memory and the real file-system directory with both loaders; bounded allocation measured; fallback to an older intact snapshot checked for every damage through OpenReader and OpenWriter; every length field replaced by boundary values with the checksum recomputed",
   note="fuzzing clause replaced by the stated exhaustive damage classes; CRC-valid garbage only as far as the length-field substitutions go", ref="DESIGN.md §6 C12"),
 "C13": dict(engine="enum", tech=ENUM+" (full grid of sizes x prior file states x writer behaviours x kinds on the real directory, fsync observed; all ordered pairs of boundary identifiers)",
   text="the complete grid of item sizes, pre-existing file states, item-writer failure points (incl. a Remove of the item issued in mid-write) and kinds on the real FileSystemDirectory; every ordered pair of identifiers around 2^48, 2^52, 2^63, 2^64: one file per item; os.File.Write/Sync observed through an os overlay so that sync-after-last-write-before-ack is decided on the real call sequence",
   note="trusts the os overlay hook; directory-entry durability is not part of the property", ref="DESIGN.md §6 C13"),
 "C14": dict(engine="crash", tech="stateless model checking with fault answers as explicit environment choices (every single placement; thorough: pairs) + crash-image enumeration of the faulty traces",
   text="every directory operation after open is a choice point that may fail (persist before any byte / half way / at sync, load, list, remove; transient and sticky); bound 1 = every single placement plus every single scheduling deviation, bound 2 = all pairs; oracle: no panic/deadlock/spin, async error fired, batch error surfaced, every reader taken after any batch keeps answering as at acquisition (through quiescence, Close and the closing of younger readers) and fresh readers show the batches applied so far, a later acknowledgement makes everything applied before durable on every crash image, no crash image faults or shows a non-prefix",
   note="single sequential client in safe mode, plus /conc scenarios (two safe clients; unsafe batches with persisted callbacks) and /open scenarios (faults during a second OpenWriter)", ref="DESIGN.md §4.4, §6 C14"),
 "C15": dict(engine="sched", tech=SCHED+", every explored schedule run under the Go race detector with a detector-invisible scheduler hand-off",
   text="every schedule within d deviations of 14 scenario x default-scheduler combinations (background-first, reverse-priority; thorough: round-robin too) on the public API over the real directory (concurrent batches and reader acquisition, parallel searches on one reader including the bitmap paths, Close from its own thread while merges/persists are in flight, nap timer, index-level Stats); the binary is a -race build whose scheduler hand-off is invisible to the detector while the program's own synchronisation is visible, so each schedule is a race-detector run with exactly the program's happens-before relation; no report, no deadlock, termination within the horizon, reopen with everything acknowledged",
   note="race freedom is decided per explored schedule (bounded); buffered-channel capacity edge emulated per channel (can only lose a report)", ref="DESIGN.md §3.7, §6 C15"),
 "C16": dict(engine="enum", tech=ENUM+" (all small corpora x queries x aggregation trees depth <=2 x all (n, from, sort, after)) against direct computation",
   text="all multisets of <=3 (thorough <=4) documents over an 8-document alphabet with single-, multi-valued and missing fields x 4 queries x 25 aggregation trees x every (n, from), sort order and paging key: counts, sums, min/max/avg/weighted avg, bucket counts and nested metrics equal direct computation over the match set, identical across all search settings; cardinality equals a fresh sketch; quantiles within [min,max] and monotone",
   note="exact arithmetic holds because the alphabet is integer valued", ref="DESIGN.md §6 C16"),
 "C17": dict(engine="enum", tech=ENUM+" (full parameter grids of the similarity; all small corpora x boolean query family) with an explanation interpreter",
   text="the BM25 scorer over the full grid of frequencies, lengths, document frequencies, collection sizes and boosts (finite, positive, monotone laws, linear boost); all corpora of 4 documents x the boolean query family: composite score = boost x sum of parts; the same corpora with the text split over the source fields of a composite field (score and statistics of the unsplit field); explanation value = score bit for bit, every explanation node re-evaluated from its message; every scoring query kind x boosts",
   note="query family bounded as stated in the evidence", ref="DESIGN.md §6 C17"),
 "C18": dict(engine="enum", tech=ENUM+" (all byte strings up to length L over per-configuration alphabets x 329 analysis configurations)",
   text="every bundled analyzer, tokenizer, char filter and every configurable filter over its parameter grid on all strings of <=L symbols over an 8-symbol alphabet per configuration (script letters that fire the rules, ASCII, digit, space, joiner, a truncated lead byte, a stray continuation byte) plus all rule strings: no panic, termination, determinism, position increments, offsets within the text the tokenizer saw, term = slice for pure tokenizers; self-match through a real index",
   note="the fuzzing clause is replaced by this enumeration; strings longer than L are outside the bound", ref="DESIGN.md §6 C18"),
 "C19": dict(engine="enum", tech=ENUM+" (all segment lists <=6 over a size grid x option grid) + explicit-state breadth-first search of arrive/delete/apply-plan over size multisets",
   text="Plan on every multiset of <=6 (thorough <=7) segments over a (full, live) grid x option grid: termination, tasks subset of input, disjoint, size bounds, determinism; explicit-state BFS (state = sorted multiset of segment sizes; transitions = arrival, deletion, execution of the current plan) to depth 14 (thorough 20): every reachable state's plan chain comes to rest within 16 steps and at rest the eligible segments are within the budget",
   note="sizes-only model of plan execution; bound to the code by calling the real Plan / CalcBudget in every transition", ref="DESIGN.md §6 C19"),
 "C20": dict(engine="enum", tech=ENUM+" (all texts <=L runes over a 1/2/3-byte rune alphabet x fragment sizes x formatters; adversarial location sets)",
   text="all texts of <=5 (thorough <=7) runes over {a,b,space,é,世} (and over an alphabet with U+FFFD) x 16 queries with locations from real searches x fragment sizes x 1..3 fragments x HTML/ANSI: stripped fragments are pieces of the text, marks are locations or merged runs, fragments disjoint and bounded in number, best fragment marked when a location fits; every sequence of <=3 adversarial locations for the no-panic clause",
   note="texts longer than L only through 25 hand-built long texts", ref="DESIGN.md §6 C20"),
}
checks=[];na=[]
for p in props:
    i=p['id']
    if i in C:
        c=C[i]
        checks.append({"property_id":i,"quick_cmd":f"./run.sh {i} quick","thorough_cmd":f"./run.sh {i} thorough",
          "evidence_file":f"/verif/evidence/{i}.json","replay_cmd_template":f"./run.sh {i} replay {{path}}",
          "engine":c["engine"],"level_claimed":{"category":"model_checking","text":c["text"],"design_ref":c["ref"]},
          "level_note":c["note"],"technique":c["tech"]})
    else:
        na.append({"property_id":i,"reason":"check not built yet (work in progress, see DESIGN.md §6)"})
def serves(e): return [i for i in C if C[i]["engine"]==e]
m={"version":1,"setup_cmd":"./setup.sh",
 "hooks":{"guard":"generated go build -overlay (no tagged source in the repository tree)",
          "enable":"run.sh regenerates /verif/build/ov/overlay.json from /repo's working tree with cmd/mcrewrite (rewritten index package + verifmc shim + hook files under /verif/hooks) and builds every check with go build -overlay",
          "baseline_off_cmd":"cd /repo && GOFLAGS=-mod=mod GOPROXY=off go test -vet=off -count=1 ./...","source_commits":[],"add_only":True},
 "engines":[
   {"name":"sched","path":"/verif/mc, /verif/explore/explore.go, /verif/cmd/mcrewrite","serves_properties":serves("sched"),"kind_free_text":"cooperative scheduler shim + deviation-bounded stateless explorer over the real index package, sharded over worker processes"},
   {"name":"crash","path":"/verif/crashfs","serves_properties":serves("crash"),"kind_free_text":"recording storage device, crash-image enumerator (operation boundaries, torn / zero-filled / stale-tail variants), fault injection"},
   {"name":"enum","path":"/verif/explore/enum.go","serves_properties":serves("enum"),"kind_free_text":"bounded-exhaustive enumerator of inputs and operation sequences against reference models, sharded over worker processes"}],
 "checks":checks,"not_applicable":na,
 "notes":"All checks: ./run.sh <ID> quick|thorough; replay: ./run.sh <ID> replay <file>. Exit 0 ok, 1 VIOLATION, 2 harness/build error. See DESIGN.md."}
json.dump(m,open('/verif/MANIFEST.json','w'),indent=1)
print("claimed:",[c["property_id"] for c in checks])

// C08: search answers depend only on the logical documents, not the layout.
//
// Differential, bounded-exhaustive: every multiset of <=3 documents over a
// 4-document alphabet (thorough: <=4 over 5) is built by every recipe of a
// fixed list and searched with a fixed query list; each recipe's answers are
// compared with the answers of the canonical build (all documents in one
// batch, file-system directory, ice v1, defaults).  No expected value is
// written by hand.
package main

import (
	"context"
	"encoding/hex"
	"fmt"
	"io"
	"log"
	"math"
	"os"
	"path/filepath"
	"sort"
	"strings"
	"time"

	"github.com/blugelabs/bluge"
	"github.com/blugelabs/bluge/index"
	"github.com/blugelabs/bluge/index/mergeplan"
	"github.com/blugelabs/bluge/numeric/geo"
	"github.com/blugelabs/bluge/search"
	"github.com/blugelabs/bluge/search/aggregations"
	"github.com/blugelabs/bluge/verifmc"

	"verif/checkmain"
	"verif/explore"
	"verif/harness"
)

// ---------------------------------------------------------------- corpora

type content struct {
	t        string
	k        string
	n        float64
	day      time.Time
	lon, lat float64
}

func date(s string) time.Time {
	t, err := time.Parse("2006-01-02", s)
	if err != nil {
		panic(err)
	}
	return t
}

var alphabet = []content{
	{"red fox", "x", 1, date("2020-01-01"), 0, 0},
	{"red fox jumps over red dog", "y", 2, date("2020-02-01"), 1, 1},
	{"blue bird", "x", 3, date("2020-03-01"), 10, 10},
	{"red bird sings blue songs", "z", 2, date("2020-02-15"), 1.5, 1.2},
	{"dog", "y", 5, date("2021-01-01"), -20, 40}, // thorough tier only
}

func bounds(param string) (letters, maxDocs int) {
	if strings.HasPrefix(param, "thorough") {
		return 5, 4
	}
	return 4, 3
}

var corpusCache = map[string][][]int{}

// corporaOf lists every multiset (non-decreasing sequence) of <=maxDocs
// letters, by size then lexicographically; the empty corpus comes first.
func corporaOf(param string) [][]int {
	if c, ok := corpusCache[param]; ok {
		return c
	}
	letters, maxDocs := bounds(param)
	var out [][]int
	var rec func(cur []int, from, size int)
	rec = func(cur []int, from, size int) {
		if len(cur) == size {
			out = append(out, append([]int(nil), cur...))
			return
		}
		for l := from; l < letters; l++ {
			rec(append(cur, l), l, size)
		}
	}
	for size := 0; size <= maxDocs; size++ {
		rec(nil, 0, size)
	}
	corpusCache[param] = out
	return out
}

func corpusString(c []int) string {
	if len(c) == 0 {
		return "{}"
	}
	var p []string
	for i, l := range c {
		p = append(p, fmt.Sprintf("d%d=c%d", i, l))
	}
	return "{" + strings.Join(p, ",") + "}"
}

type docSpec struct {
	id string
	c  int
}

func docsOf(c []int) []docSpec {
	out := make([]docSpec, len(c))
	for i, l := range c {
		out[i] = docSpec{fmt.Sprintf("d%d", i), l}
	}
	return out
}

// mkDoc builds a fresh document object (documents are analysed in place, so
// they are never shared between builds).
func mkDoc(d docSpec) *bluge.Document {
	c := alphabet[d.c]
	doc := bluge.NewDocument(d.id)
	doc.AddField(bluge.NewTextField("t", c.t).StoreValue().SearchTermPositions())
	doc.AddField(bluge.NewKeywordField("k", c.k).StoreValue().Sortable().Aggregatable())
	doc.AddField(bluge.NewNumericField("n", c.n).StoreValue().Sortable().Aggregatable())
	doc.AddField(bluge.NewDateTimeField("d", c.day).StoreValue())
	doc.AddField(bluge.NewGeoPointField("g", c.lon, c.lat).StoreValue())
	return doc
}

// ---------------------------------------------------------------- queries

type namedQuery struct {
	name string
	mk   func() bluge.Query // a fresh query object per search
}

func tq(field, term string) bluge.Query { return bluge.NewTermQuery(term).SetField(field) }
func qA() bluge.Query                   { return tq("t", "red") }
func qB() bluge.Query                   { return tq("t", "bird") }
func qC() bluge.Query                   { return tq("k", "x") }
func qD() bluge.Query                   { return tq("t", "fox") }

func boolq(must, should, mustNot []bluge.Query, minShould int) bluge.Query {
	q := bluge.NewBooleanQuery()
	if len(must) > 0 {
		q.AddMust(must...)
	}
	if len(should) > 0 {
		q.AddShould(should...)
	}
	if len(mustNot) > 0 {
		q.AddMustNot(mustNot...)
	}
	if minShould > 0 {
		q.SetMinShould(minShould)
	}
	return q
}

func qs(q ...bluge.Query) []bluge.Query { return q }

var queries = []namedQuery{
	// one per query type
	{"match_all", func() bluge.Query { return bluge.NewMatchAllQuery() }},
	{"match_none", func() bluge.Query { return bluge.NewMatchNoneQuery() }},
	{"term t:red", qA},
	{"term t:red^3", func() bluge.Query { return bluge.NewTermQuery("red").SetField("t").SetBoost(3) }},
	{"term _id:d1", func() bluge.Query { return tq("_id", "d1") }},
	{"match t:'red bird'", func() bluge.Query { return bluge.NewMatchQuery("red bird").SetField("t") }},
	{"match-and t:'red bird'", func() bluge.Query {
		return bluge.NewMatchQuery("red bird").SetField("t").SetOperator(bluge.MatchQueryOperatorAnd)
	}},
	{"match-fuzzy t:'rad'", func() bluge.Query { return bluge.NewMatchQuery("rad").SetField("t").SetFuzziness(1) }},
	{"phrase t:'red fox'", func() bluge.Query { return bluge.NewMatchPhraseQuery("red fox").SetField("t") }},
	{"phrase-slop t:'red dog'~3", func() bluge.Query { return bluge.NewMatchPhraseQuery("red dog").SetField("t").SetSlop(3) }},
	{"multiphrase t:[red|blue][fox|bird]", func() bluge.Query {
		return bluge.NewMultiPhraseQuery([][]string{{"red", "blue"}, {"fox", "bird"}}).SetField("t")
	}},
	{"prefix t:b", func() bluge.Query { return bluge.NewPrefixQuery("b").SetField("t") }},
	{"wildcard t:b*d", func() bluge.Query { return bluge.NewWildcardQuery("b*d").SetField("t") }},
	{"regexp t:f.x|dog", func() bluge.Query { return bluge.NewRegexpQuery("f.x|dog").SetField("t") }},
	{"fuzzy t:fix~1", func() bluge.Query { return bluge.NewFuzzyQuery("fix").SetField("t").SetFuzziness(1) }},
	{"termrange t:[bird,fox)", func() bluge.Query { return bluge.NewTermRangeQuery("bird", "fox").SetField("t") }},
	{"numrange n:[2,3)", func() bluge.Query { return bluge.NewNumericRangeQuery(2, 3).SetField("n") }},
	{"numrange n:[2,3]", func() bluge.Query { return bluge.NewNumericRangeInclusiveQuery(2, 3, true, true).SetField("n") }},
	{"daterange d:[2020-01-15,2020-02-20)", func() bluge.Query {
		return bluge.NewDateRangeQuery(date("2020-01-15"), date("2020-02-20")).SetField("d")
	}},
	{"geobox g", func() bluge.Query { return bluge.NewGeoBoundingBoxQuery(-0.5, 2, 2, -0.5).SetField("g") }},
	{"geodistance g", func() bluge.Query { return bluge.NewGeoDistanceQuery(1, 1, "200km").SetField("g") }},
	{"geopolygon g", func() bluge.Query {
		return bluge.NewGeoBoundingPolygonQuery([]geo.Point{{Lon: -1, Lat: -1}, {Lon: 3, Lat: -1}, {Lon: 3, Lat: 3}, {Lon: -1, Lat: 3}}).SetField("g")
	}},
	// the smallest boolean shapes over A=t:red, B=t:bird, C=k:x, D=t:fox
	{"+A", func() bluge.Query { return boolq(qs(qA()), nil, nil, 0) }},
	{"+A +B", func() bluge.Query { return boolq(qs(qA(), qB()), nil, nil, 0) }},
	{"+A +B +C", func() bluge.Query { return boolq(qs(qA(), qB(), qC()), nil, nil, 0) }},
	{"A", func() bluge.Query { return boolq(nil, qs(qA()), nil, 0) }},
	{"A B", func() bluge.Query { return boolq(nil, qs(qA(), qB()), nil, 0) }},
	{"A B C", func() bluge.Query { return boolq(nil, qs(qA(), qB(), qC()), nil, 0) }},
	{"(A B)~2", func() bluge.Query { return boolq(nil, qs(qA(), qB()), nil, 2) }},
	{"(A B C)~2", func() bluge.Query { return boolq(nil, qs(qA(), qB(), qC()), nil, 2) }},
	{"-A", func() bluge.Query { return boolq(nil, nil, qs(qA()), 0) }},
	{"-A -B", func() bluge.Query { return boolq(nil, nil, qs(qA(), qB()), 0) }},
	{"+A -B", func() bluge.Query { return boolq(qs(qA()), nil, qs(qB()), 0) }},
	{"+A B", func() bluge.Query { return boolq(qs(qA()), qs(qB()), nil, 0) }},
	{"A -B", func() bluge.Query { return boolq(nil, qs(qA()), qs(qB()), 0) }},
	{"+A B -C", func() bluge.Query { return boolq(qs(qA()), qs(qB()), qs(qC()), 0) }},
	{"+A +B D", func() bluge.Query { return boolq(qs(qA(), qB()), qs(qD()), nil, 0) }},
	{"+A (B D)~1", func() bluge.Query { return boolq(qs(qA()), qs(qB(), qD()), nil, 1) }},
	{"+(A B) -C", func() bluge.Query { return boolq(qs(boolq(nil, qs(qA(), qB()), nil, 0)), nil, qs(qC()), 0) }},
	{"(+A +B) C", func() bluge.Query { return boolq(nil, qs(boolq(qs(qA(), qB()), nil, nil, 0), qC()), nil, 0) }},
	{"+match_all -A", func() bluge.Query { return boolq(qs(bluge.NewMatchAllQuery()), nil, qs(qA()), 0) }},
	{"A match_none", func() bluge.Query { return boolq(nil, qs(qA(), bluge.NewMatchNoneQuery()), nil, 0) }},
	{"+numrange +A", func() bluge.Query {
		return boolq(qs(bluge.NewNumericRangeQuery(2, 6).SetField("n"), qA()), nil, nil, 0)
	}},
	{"prefix A", func() bluge.Query { return boolq(nil, qs(bluge.NewPrefixQuery("b").SetField("t"), qA()), nil, 0) }},
}

var sorts = [][]string{{"k", "_id"}, {"-n", "_id"}}

// ---------------------------------------------------------------- observation

// answer is what one search returned, split into the part that must never
// depend on the layout and the scores.
type answer struct {
	plain   string // hits in sort order with stored fields and sort keys, aggregations
	scores  string // score bits per hit, max_score
	matched int
}

type searchFunc func(req bluge.SearchRequest) (search.DocumentMatchIterator, error)

func f64(v float64) string {
	if math.IsNaN(v) {
		return "NaN"
	}
	return fmt.Sprintf("%v/%016x", v, math.Float64bits(v))
}

func runQuery(do searchFunc, qi int, scoreNone bool) (a answer) {
	defer func() {
		if p := recover(); p != nil {
			a = answer{plain: fmt.Sprintf("PANIC: %v", p), scores: "PANIC"}
		}
	}()
	req := bluge.NewTopNSearch(10, queries[qi].mk()).SortBy(sorts[qi%len(sorts)])
	if scoreNone {
		req.SetScore("none")
	}
	req.AddAggregation("count", aggregations.CountMatches())
	req.AddAggregation("terms_k", aggregations.NewTermsAggregation(search.Field("k"), 10))
	req.AddAggregation("sum_n", aggregations.Sum(search.Field("n")))
	req.AddAggregation("min_n", aggregations.Min(search.Field("n")))
	req.AddAggregation("max_n", aggregations.Max(search.Field("n")))
	req.AddAggregation("avg_n", aggregations.Avg(search.Field("n")))
	req.AddAggregation("max_score", aggregations.Max(search.DocumentScore()))
	it, err := do(req)
	if err != nil {
		return answer{plain: "ERROR: " + err.Error(), scores: "ERROR"}
	}
	var hits, scores []string
	for {
		m, err := it.Next()
		if err != nil {
			return answer{plain: "ERROR in Next: " + err.Error(), scores: "ERROR"}
		}
		if m == nil {
			break
		}
		var id string
		var fields []string
		err = m.VisitStoredFields(func(field string, value []byte) bool {
			if field == "_id" {
				id = string(value)
			}
			if field == "t" || field == "k" || field == "_id" {
				fields = append(fields, field+"="+string(value))
			} else {
				fields = append(fields, field+"="+hex.EncodeToString(value))
			}
			return true
		})
		if err != nil {
			return answer{plain: "ERROR in VisitStoredFields: " + err.Error(), scores: "ERROR"}
		}
		sort.Strings(fields)
		var sv []string
		for _, v := range m.SortValue {
			sv = append(sv, hex.EncodeToString(v))
		}
		hits = append(hits, id+"{"+strings.Join(fields, ";")+"}sort="+strings.Join(sv, ","))
		scores = append(scores, id+":"+f64(m.Score))
	}
	b := it.Aggregations()
	var aggs []string
	aggs = append(aggs, "count="+f64(b.Metric("count")))
	var tb []string
	prev := math.Inf(1)
	ordered := true
	for _, kb := range b.Buckets("terms_k") {
		c := kb.Metric("count")
		if c > prev {
			ordered = false
		}
		prev = c
		tb = append(tb, fmt.Sprintf("%s:%v", kb.Name(), c))
	}
	sort.Strings(tb)
	aggs = append(aggs, "terms_k=["+strings.Join(tb, ",")+"]")
	if !ordered {
		aggs = append(aggs, "terms_k-NOT-ORDERED-BY-COUNT")
	}
	for _, n := range []string{"sum_n", "min_n", "max_n", "avg_n"} {
		aggs = append(aggs, n+"="+f64(b.Metric(n)))
	}
	a.plain = "hits=[" + strings.Join(hits, " ") + "] aggs={" + strings.Join(aggs, " ") + "}"
	a.scores = strings.Join(scores, " ") + " max_score=" + f64(b.Metric("max_score"))
	a.matched = len(hits)
	return a
}

// answers of one reader set: per query, scored and with scoring turned off
type answers struct {
	scored []answer
	none   []answer
}

func observe(do searchFunc, withNone bool) *answers {
	as := &answers{}
	for qi := range queries {
		as.scored = append(as.scored, runQuery(do, qi, false))
		if withNone {
			as.none = append(as.none, runQuery(do, qi, true))
		}
	}
	return as
}

func readerSearch(r *bluge.Reader) searchFunc {
	return func(req bluge.SearchRequest) (search.DocumentMatchIterator, error) {
		return r.Search(context.Background(), req)
	}
}

func multiSearch(rs []*bluge.Reader) searchFunc {
	return func(req bluge.SearchRequest) (search.DocumentMatchIterator, error) {
		return bluge.MultiSearch(context.Background(), req, rs...)
	}
}

// ---------------------------------------------------------------- builds

var caseSeq int

func scratchRoot() string {
	pid := os.Getpid()
	if os.Getenv("VERIF_WORKER") != "" {
		pid = os.Getppid()
	}
	return fmt.Sprintf("/dev/shm/verif-c08-%d", pid)
}

func newDir() string {
	caseSeq++
	p := filepath.Join(scratchRoot(), fmt.Sprintf("w%d-%d", os.Getpid(), caseSeq))
	_ = os.RemoveAll(p)
	if err := os.MkdirAll(p, 0o700); err != nil {
		panic("harness: " + err.Error())
	}
	return p
}

// writer build parameters
type wspec struct {
	mem      bool // index.InMemoryDirectory (InMemoryOnlyConfig) instead of the file-system directory
	ver      int
	perBatch int // documents per batch; 0 = all in one batch; -2 = split into two halves
	merge    bool
	unsafe   bool
}

func noMergeBudget(int64, int64, *mergeplan.Options) int { return math.MaxInt32 }

func (ws wspec) config(df func() index.Directory) bluge.Config {
	o := harness.Opts{SegVersion: ws.ver, Unsafe: ws.unsafe}
	if ws.merge {
		o.EagerMerge = true
	}
	cfg := harness.Config(nil, o)
	ic := cfg.VerifIndexConfig()
	ic.DirectoryFunc = df
	if !ws.merge && ws.perBatch != 0 {
		// merging switched off through the index configuration: no in-memory
		// merge, and a merge plan whose segment budget is never exceeded
		ic.MinSegmentsForInMemoryMerge = 1 << 30
		ic.MergePlanOptions.CalcBudget = noMergeBudget
	}
	return cfg.WithVerifIndexConfig(ic)
}

func readConfig(path string, ver int) bluge.Config {
	cfg := harness.Config(nil, harness.Opts{SegVersion: ver})
	ic := cfg.VerifIndexConfig()
	ic.DirectoryFunc = func() index.Directory { return index.NewFileSystemDirectory(path) }
	return cfg.WithVerifIndexConfig(ic)
}

func batchesOf(docs []docSpec, per int) [][]docSpec {
	switch {
	case len(docs) == 0 || per == 0:
		return [][]docSpec{docs} // the empty corpus: one empty batch, so that a snapshot exists
	case per == -2:
		h := (len(docs) + 1) / 2
		if h == len(docs) {
			return [][]docSpec{docs}
		}
		return [][]docSpec{docs[:h], docs[h:]}
	}
	var out [][]docSpec
	for i := 0; i < len(docs); i += per {
		j := i + per
		if j > len(docs) {
			j = len(docs)
		}
		out = append(out, docs[i:j])
	}
	return out
}

// layout of a reader
type layout struct {
	segments int
	batches  int // batches that carried documents
}

func (l layout) merged() bool { return l.segments < l.batches }

// buildWriter builds docs with a real writer (inside one controlled
// execution), calls live on a reader obtained from the writer before Close,
// and returns the path (file-system builds) for reopening.
func buildWriter(docs []docSpec, ws wspec, live func(r *bluge.Reader, l layout) string) (path string, failure string) {
	var df func() index.Directory
	if ws.mem {
		d := bluge.InMemoryOnlyConfig().VerifIndexConfig().DirectoryFunc() // the directory of InMemoryOnlyConfig
		df = func() index.Directory { return d }
	} else {
		path = newDir()
		p := path
		df = func() index.Directory { return index.NewFileSystemDirectory(p) }
	}
	batches := batchesOf(docs, ws.perBatch)
	nb := 0
	for _, b := range batches {
		if len(b) > 0 {
			nb++
		}
	}
	var fail string
	s := verifmc.Run(verifmc.Options{}, func() {
		w, err := bluge.OpenWriter(ws.config(df))
		if err != nil {
			verifmc.Fail("OpenWriter: " + err.Error())
		}
		for _, bd := range batches {
			b := bluge.NewBatch()
			for _, d := range bd {
				b.Insert(mkDoc(d))
			}
			if err := w.Batch(b); err != nil {
				fail = "Batch: " + err.Error()
				break
			}
			if ws.merge {
				// let the persister / merger work (the default schedule prefers the client)
				verifmc.Yield("c08-after-batch")
				verifmc.Yield("c08-after-batch")
			}
		}
		if fail == "" && ws.merge {
			for i := 0; i < 6; i++ {
				verifmc.Yield("c08-drain")
			}
		}
		if fail == "" && live != nil {
			r, err := w.Reader()
			if err != nil {
				fail = "Reader: " + err.Error()
			} else {
				l := layout{segments: len(r.VerifSnapshot().VerifSegmentIDs()), batches: nb}
				verifmc.Quiet(func() { fail = live(r, l) })
				_ = r.Close()
			}
		}
		if err := w.Close(); err != nil && fail == "" {
			fail = "Close: " + err.Error()
		}
	})
	if s.Failure != "" {
		return path, "inside the writer: " + s.Failure
	}
	return path, fail
}

// buildOffline builds docs with the offline writer; a panic is returned as text.
func buildOffline(docs []docSpec, batchSize, ver int) (path string, failure string, panicked bool) {
	path = newDir()
	defer func() {
		if p := recover(); p != nil {
			failure, panicked = fmt.Sprintf("panic: %v", p), true
		}
	}()
	cfg := bluge.DefaultConfig(path)
	if ver == 2 {
		cfg = cfg.WithSegmentVersion(2)
	}
	ow, err := bluge.OpenOfflineWriter(cfg, batchSize, 10)
	if err != nil {
		return path, "OpenOfflineWriter: " + err.Error(), false
	}
	for _, d := range docs {
		if err := ow.Insert(mkDoc(d)); err != nil {
			return path, "offline Insert: " + err.Error(), false
		}
	}
	if err := ow.Close(); err != nil {
		return path, "offline Close: " + err.Error(), false
	}
	return path, "", false
}

// ---------------------------------------------------------------- comparison

// variant is one set of answers of one recipe, to be compared with the canonical ones
type variant struct {
	name     string
	class    string // recipe class (known-finding key)
	got      *answers
	err      string // could not be built / opened
	merged   bool   // the build contains a merged segment
	noScores bool   // scores are not comparable by construction (MultiSearch: per-index statistics)
	skipNone bool
	onlyNone bool
	errKey   string // key to use when err is set (designated known findings)
	segments int
}

type verdict struct {
	failure    string
	key        string
	known      string // known-finding description (score after merge)
	knownKey   string
	evals      int64
	nontrivial int64
	counts     map[string]int64
}

func compare(corpus []int, canon *answers, vs []variant, vd *verdict) {
	cs := corpusString(corpus)
	for _, v := range vs {
		if v.err != "" {
			if vd.failure == "" {
				vd.failure = fmt.Sprintf("recipe %s on corpus %s: %s", v.name, cs, v.err)
				vd.key = v.errKey
				if vd.key == "" {
					vd.key = fmt.Sprintf("build:%s:%s", v.name, cs)
				}
			}
			continue
		}
		if v.merged {
			vd.counts["variants_with_merged_segment"]++
		}
		vd.counts[fmt.Sprintf("variants_with_%d_segments", v.segments)]++
		for qi := range queries {
			modes := []bool{false, true}
			for _, none := range modes {
				if (none && v.skipNone) || (!none && v.onlyNone) {
					continue
				}
				want, got := canon.scored[qi], v.got.scored[qi]
				mode := "scored"
				if none {
					got = v.got.none[qi]
					mode = "score-none"
				}
				vd.evals++
				if strings.HasPrefix(want.plain, "PANIC") || strings.HasPrefix(want.plain, "ERROR") {
					vd.counts["canonical_answer_is_an_error_or_panic"]++
				}
				if want.matched > 0 && want.matched < len(corpus) {
					vd.nontrivial++
				}
				if got.plain != want.plain {
					if vd.failure == "" {
						vd.failure = fmt.Sprintf("recipe %s (%s), corpus %s, query %q sort %v: the answer differs from the canonical build's\n  recipe   : %s\n  canonical: %s", v.name, mode, cs, queries[qi].name, sorts[qi%len(sorts)], got.plain, want.plain)
						vd.key = fmt.Sprintf("answer:%s:%s:%s:%s", v.name, mode, cs, queries[qi].name)
					}
					continue
				}
				if none {
					// scoring is turned off: scores carry no meaning; only record whether they agree
					if got.scores != canon.none[qi].scores {
						vd.counts["score_none_scores_differ_from_canonical_score_none"]++
					}
					continue
				}
				if v.noScores {
					continue
				}
				if got.scores != want.scores {
					if !v.merged {
						if vd.failure == "" {
							vd.failure = fmt.Sprintf("recipe %s, corpus %s, query %q: no build contains a merged segment, no deletion is pending, yet the scores differ\n  recipe   : %s\n  canonical: %s", v.name, cs, queries[qi].name, got.scores, want.scores)
							vd.key = fmt.Sprintf("score:%s:%s:%s", v.name, cs, queries[qi].name)
						}
					} else {
						vd.counts["score_differs_after_merge:"+v.name]++
						if vd.known == "" {
							vd.known = fmt.Sprintf("recipe %s, corpus %s, query %q: match set, stored fields, sort order and aggregations equal the canonical build's, but the build contains a merged segment and the scores differ\n  recipe   : %s\n  canonical: %s", v.name, cs, queries[qi].name, got.scores, want.scores)
							vd.knownKey = "score-after-merge:" + v.class
						}
					}
				} else if v.merged && want.matched > 0 {
					vd.counts["score_equal_after_merge:"+v.name]++
				}
			}
		}
	}
}

// ---------------------------------------------------------------- recipes

var canonCache = map[string]*canonical{}

type canonical struct {
	as      *answers
	failure string
}

// canonicalOf builds the canonical index of a corpus (one batch, file-system
// directory, ice v1, defaults), searches it through a reader obtained from the
// writer and returns the answers; extra (optional) is given the directory
// after Close, before it is removed.
func canonicalOf(corpus []int, extra func(path string, live *answers, l layout)) *canonical {
	key := corpusString(corpus)
	if c, ok := canonCache[key]; ok && extra == nil {
		return c
	}
	c := &canonical{}
	var ll layout
	path, fail := buildWriter(docsOf(corpus), wspec{ver: 1}, func(r *bluge.Reader, l layout) string {
		c.as = observe(readerSearch(r), true)
		ll = l
		return ""
	})
	defer os.RemoveAll(path)
	c.failure = fail
	if fail == "" && c.as == nil {
		c.failure = "no answers recorded"
	}
	canonCache[key] = c
	if extra != nil && c.failure == "" {
		extra(path, c.as, ll)
	}
	return c
}

// reopened opens path and records the answers (outside any controlled execution)
func reopened(name, class string, cfg bluge.Config, batches int, withNone bool) variant {
	v := variant{name: name, class: class, skipNone: !withNone}
	r, err := bluge.OpenReader(cfg)
	if err != nil {
		v.err = "OpenReader: " + err.Error()
		return v
	}
	defer r.Close()
	v.segments = len(r.VerifSnapshot().VerifSegmentIDs())
	v.merged = v.segments < batches
	v.got = observe(readerSearch(r), withNone)
	return v
}

func backupOf(name, class string, r *bluge.Reader, ver int, batches int) variant {
	bp := newDir()
	defer os.RemoveAll(bp)
	if err := r.Backup(bp, nil); err != nil {
		return variant{name: name, class: class, err: "Backup: " + err.Error()}
	}
	// the backup holds the same segment files: scored searches only
	return reopened(name, class, readConfig(bp, ver), batches, false)
}

// search-time variants over a directory: each DisableOptimize* switch, all three
func optVariants(prefix string, path string, ver int, batches int) []variant {
	base := readConfig(path, ver)
	cfgs := []struct {
		n string
		c bluge.Config
	}{
		{"no-optimize-conjunction", base.DisableOptimizeConjunction()},
		{"no-optimize-conjunction-unadorned", base.DisableOptimizeConjunctionUnadorned()},
		{"no-optimize-disjunction-unadorned", base.DisableOptimizeDisjunctionUnadorned()},
		{"no-optimize-all", base.DisableOptimizeConjunction().DisableOptimizeConjunctionUnadorned().DisableOptimizeDisjunctionUnadorned()},
	}
	var out []variant
	for _, c := range cfgs {
		out = append(out, reopened(prefix+c.n, "optimize-switches", c.c, batches, true))
	}
	return out
}

// writerRecipe: live reader, reopened reader, optionally backups and optimisation switches
func writerRecipe(name, class string, corpus []int, ws wspec, withBackup, withOpts bool) []variant {
	var vs []variant
	docs := docsOf(corpus)
	nb := 0
	path, fail := buildWriter(docs, ws, func(r *bluge.Reader, l layout) string {
		nb = l.batches
		vs = append(vs, variant{name: name, class: class, got: observe(readerSearch(r), true), merged: l.merged(), segments: l.segments})
		if withBackup {
			vs = append(vs, backupOf(name+"+backup-of-writer-reader", class, r, ws.ver, l.batches))
		}
		return ""
	})
	if path != "" {
		defer os.RemoveAll(path)
	}
	if fail != "" {
		return []variant{{name: name, class: class, err: fail}}
	}
	if ws.mem || ws.unsafe {
		return vs // nothing to reopen (no snapshot files / a prefix only)
	}
	vs = append(vs, reopened(name+"+reopened", class, readConfig(path, ws.ver), nb, !withOpts))
	if withBackup {
		r, err := bluge.OpenReader(readConfig(path, ws.ver))
		if err != nil {
			vs = append(vs, variant{name: name + "+backup-of-reopened", class: "backup", err: "OpenReader: " + err.Error()})
		} else {
			vs = append(vs, backupOf(name+"+backup-of-reopened", class, r, ws.ver, nb))
			_ = r.Close()
		}
	}
	if withOpts {
		vs = append(vs, optVariants(name+"+", path, ws.ver, nb)...)
	}
	return vs
}

func offlineRecipe(name string, corpus []int, batchSize, ver int) []variant {
	docs := docsOf(corpus)
	path, fail, panicked := buildOffline(docs, batchSize, ver)
	defer os.RemoveAll(path)
	if fail != "" {
		v := variant{name: name, class: "offline-writer", err: "OfflineWriter: " + fail}
		if panicked && len(docs) == 0 {
			v.errKey = "offline-empty-close"
			v.err = "bluge.OpenOfflineWriter(...).Close() with zero documents: " + fail
		}
		return []variant{v}
	}
	// the offline writer flushes a batch when it holds batchSize+1 documents and merges all batches at Close
	nb := (len(docs) + batchSize) / (batchSize + 1)
	cfg := bluge.DefaultConfig(path)
	if ver == 2 {
		cfg = cfg.WithSegmentVersion(2)
	}
	return []variant{reopened(name, "offline-writer", cfg, nb, true)}
}

func multiRecipe(name string, corpus []int, k int) []variant {
	docs := docsOf(corpus)
	parts := make([][]docSpec, k)
	for i, d := range docs {
		parts[i%k] = append(parts[i%k], d)
	}
	var readers []*bluge.Reader
	var paths []string
	defer func() {
		for _, r := range readers {
			_ = r.Close()
		}
		for _, p := range paths {
			_ = os.RemoveAll(p)
		}
	}()
	for _, p := range parts {
		path, fail := buildWriter(p, wspec{ver: 1}, nil)
		paths = append(paths, path)
		if fail != "" {
			return []variant{{name: name, class: "multisearch", err: fail}}
		}
		r, err := bluge.OpenReader(readConfig(path, 1))
		if err != nil {
			return []variant{{name: name, class: "multisearch", err: "OpenReader: " + err.Error()}}
		}
		readers = append(readers, r)
	}
	return []variant{{name: name, class: "multisearch", got: observe(multiSearch(readers), true), noScores: true, segments: k}}
}

type recipe struct {
	name string
	run  func(corpus []int) []variant
}

var recipes = []recipe{
	{"one-batch", nil}, // the canonical build itself: reopened, backups, optimisation switches
	{"one-doc-per-batch", func(c []int) []variant {
		return writerRecipe("one-doc-per-batch", "one-doc-per-batch", c, wspec{ver: 1, perBatch: 1}, true, true)
	}},
	{"two-batches", func(c []int) []variant {
		return writerRecipe("two-batches", "two-batches", c, wspec{ver: 1, perBatch: -2}, false, false)
	}},
	{"forced-merge", func(c []int) []variant {
		return writerRecipe("forced-merge", "forced-merge", c, wspec{ver: 1, perBatch: 1, merge: true}, true, false)
	}},
	{"forced-merge-unsafe", func(c []int) []variant {
		return writerRecipe("forced-merge-unsafe", "forced-merge", c, wspec{ver: 1, perBatch: 1, merge: true, unsafe: true}, false, false)
	}},
	{"forced-merge-v2", func(c []int) []variant {
		return writerRecipe("forced-merge-v2", "forced-merge", c, wspec{ver: 2, perBatch: 1, merge: true}, false, false)
	}},
	{"offline-1", func(c []int) []variant { return offlineRecipe("offline-batchsize-1", c, 1, 1) }},
	{"offline-2", func(c []int) []variant { return offlineRecipe("offline-batchsize-2", c, 2, 1) }},
	{"offline-large", func(c []int) []variant { return offlineRecipe("offline-batchsize-1000", c, 1000, 1) }},
	{"offline-0-v2", func(c []int) []variant { return offlineRecipe("offline-batchsize-0-v2", c, 0, 2) }},
	{"in-memory", func(c []int) []variant {
		return writerRecipe("in-memory-one-batch", "in-memory", c, wspec{mem: true, ver: 1}, false, false)
	}},
	{"in-memory-per-doc", func(c []int) []variant {
		return writerRecipe("in-memory-one-doc-per-batch", "in-memory", c, wspec{mem: true, ver: 1, perBatch: 1}, false, false)
	}},
	{"v2", func(c []int) []variant {
		return writerRecipe("v2-one-batch", "segment-v2", c, wspec{ver: 2}, true, true)
	}},
	{"v2-per-doc", func(c []int) []variant {
		return writerRecipe("v2-one-doc-per-batch", "segment-v2", c, wspec{ver: 2, perBatch: 1}, false, true)
	}},
	{"multisearch-2", func(c []int) []variant { return multiRecipe("multisearch-2", c, 2) }},
	{"multisearch-3", func(c []int) []variant { return multiRecipe("multisearch-3", c, 3) }},
}

func total(param string) int64 { return int64(len(corporaOf(param)) * len(recipes)) }

func eval(idx int64, param string) *explore.Result {
	cs := corporaOf(param)
	corpus := cs[int(idx)/len(recipes)]
	rc := recipes[int(idx)%len(recipes)]
	vd := &verdict{counts: map[string]int64{}}
	var vs []variant
	var canon *canonical
	if rc.run == nil {
		canon = canonicalOf(corpus, func(path string, live *answers, l layout) {
			vs = append(vs, reopened("one-batch+reopened", "reopen", readConfig(path, 1), l.batches, true))
			r, err := bluge.OpenReader(readConfig(path, 1))
			if err != nil {
				vs = append(vs, variant{name: "one-batch+backup", class: "backup", err: "OpenReader: " + err.Error()})
			} else {
				vs = append(vs, backupOf("one-batch+backup", "backup", r, 1, l.batches))
				_ = r.Close()
			}
			vs = append(vs, optVariants("one-batch+", path, 1, l.batches)...)
			// the canonical build answers the same with scoring turned off
			vs = append(vs, variant{name: "one-batch", class: "score-none", got: live, onlyNone: true, segments: l.segments})
		})
	} else {
		canon = canonicalOf(corpus, nil)
	}
	res := &explore.Result{Counts: vd.counts}
	if canon.failure != "" {
		res.Failure = fmt.Sprintf("the canonical build of corpus %s failed: %s", corpusString(corpus), canon.failure)
		res.Key = "canonical:" + corpusString(corpus)
		return res
	}
	if rc.run != nil {
		vs = rc.run(corpus)
	}
	compare(corpus, canon.as, vs, vd)
	res.Evals, res.Nontrivial = vd.evals, vd.nontrivial
	if res.Evals == 0 {
		res.Evals = 1
	}
	var names []string
	for _, v := range vs {
		names = append(names, v.name)
	}
	res.Outcome = fmt.Sprintf("%s|%s|%v|%v", corpusString(corpus), rc.name, vd.failure != "", vd.knownKey)
	switch {
	case vd.failure != "":
		res.Failure, res.Key = vd.failure, vd.key
	case vd.known != "":
		res.Failure, res.Key = vd.known, vd.knownKey
	}
	if res.Failure == "" && idx%37 == 5 {
		res.Sample = map[string]interface{}{"corpus": corpusString(corpus), "recipe": rc.name, "variants_compared": names,
			"example_query": queries[2].name, "canonical_answer": canon.as.scored[2].plain, "canonical_scores": canon.as.scored[2].scores}
	}
	return res
}

func main() {
	log.SetOutput(io.Discard)
	explore.RegisterEnum("c08-recipes", total, eval)
	explore.WorkerMain()
	c := checkmain.New("C08")
	if v := c.IsReplay(); v != nil {
		c.RunReplay(v)
	}
	letters, maxDocs := bounds(c.Tier)
	c.Rule = fmt.Sprintf("every multiset of <=%d documents over a %d-document alphabet (%d corpora, the empty one and equal content under different ids included) x %d build recipes (each yielding 1-8 compared variants: reader from the writer, reopened, Backup+OpenReader, each DisableOptimize* switch and all three, offline writer with batch size 0/1/2/1000, InMemoryOnlyConfig directory, ice v2, forced merges safe/unsafe/v2, MultiSearch over 2 and 3 partitions) x %d queries (one per query type + %d boolean shapes), each searched with a field sort (k,_id / -n,_id), a terms aggregation, count and four metric aggregations, scored and with score mode none; an inner case (variant, query, mode) is non-trivial when the query matches a non-empty proper subset of the corpus", maxDocs, letters, len(corporaOf(c.Tier)), len(recipes), len(queries), 22)
	c.Explanation = "differential oracle, no hand-written expected values: for every corpus the canonical build (all documents in one batch, FileSystemDirectory, ice v1, defaults, searched through a reader of the writer) is compared with every variant: hits in sort order with stored fields and sort keys and all aggregation results must be identical; scores (bit patterns per hit, max_score) must be identical whenever neither build contains a merged segment (merging switched off through the index configuration); for builds with a merged segment a score difference is reported as the designated known finding score-after-merge:<recipe class> and nothing else is excused by it. Writers run under the controlled scheduler's default schedule; offline writer, OpenReader, Backup and searches run natively"
	c.Assumptions = []string{
		"MultiSearch partitions are compared without scores: each index scores with its own collection statistics, and the property lists this recipe under a field sort only",
		"with score mode none the scores are not compared (scoring is turned off); whether they agree with the canonical score-none run is only counted",
		"the order of terms-aggregation buckets with equal counts is not compared (buckets are compared as a name->count map; it is checked that they are ordered by count)",
		"the empty corpus is built with one empty batch by the writer recipes, so that a snapshot exists to reopen",
	}
	st := explore.Enumerate(explore.EnumConfig{Name: "c08-recipes", Param: c.Tier, Budget: c.PickD(50*time.Second, 8*time.Minute), MaxViol: 100000, CrashIsViolation: true})
	// report everything that is not a designated known finding first
	designated := func(k string) bool {
		return k == "offline-empty-close" || strings.HasPrefix(k, "score-after-merge:")
	}
	sort.SliceStable(st.Violations, func(i, j int) bool {
		return !designated(st.Violations[i].Key) && designated(st.Violations[j].Key)
	})
	onlyDesignated := true
	for _, v := range st.Violations {
		if !designated(v.Key) {
			onlyDesignated = false
		}
	}
	if onlyDesignated && st.Cases == st.Total && len(st.Errors) == 0 {
		st.Exhaustive = true // every case was evaluated; the only deviations are the designated known findings
	}
	c.AddEnum(st)
	_ = os.RemoveAll(scratchRoot())
	c.Finish()
}

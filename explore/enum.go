package explore

import (
	"fmt"
	"sync"
	"time"
)

// EnumFunc evaluates case number idx of a finite, totally ordered case space.
// One call may cover a whole inner loop (Result.Evals / Result.Nontrivial).
type EnumFunc func(idx int64, param string) *Result

type enumDef struct {
	total func(param string) int64
	f     EnumFunc
}

var enums = map[string]enumDef{}

// RegisterEnum makes an enumeration available to driver and workers.
func RegisterEnum(name string, total func(param string) int64, f EnumFunc) {
	enums[name] = enumDef{total, f}
}

type enumJob struct {
	Kind     string `json:"kind"`
	Name     string `json:"name"`
	Param    string `json:"param"`
	Lo       int64  `json:"lo"`
	Hi       int64  `json:"hi"`
	Deadline int64  `json:"deadline"`
	MaxViol  int    `json:"max_viol"`
}

type enumResult struct {
	Cases      int64            `json:"cases"`
	Evals      int64            `json:"evals"`
	Nontrivial int64            `json:"nt"`
	Outcomes   map[string]int64 `json:"o"`
	Counts     map[string]int64 `json:"c"`
	Flags      map[string]bool  `json:"f"`
	Violations []Violation      `json:"v"`
	Errors     []string         `json:"err"`
	Samples    []interface{}    `json:"smp"`
	Done       int64            `json:"done"` // first index not evaluated
}

const maxOutcomeSet = 200000

func runEnumJob(j enumJob) (res enumResult) {
	d, ok := enums[j.Name]
	res.Outcomes, res.Counts, res.Flags = map[string]int64{}, map[string]int64{}, map[string]bool{}
	res.Done = j.Lo
	if !ok {
		res.Errors = append(res.Errors, "unknown enumeration "+j.Name)
		return
	}
	if j.MaxViol == 0 {
		j.MaxViol = 5
	}
	seen := map[string]bool{}
	for idx := j.Lo; idx < j.Hi; idx++ {
		if j.Deadline != 0 && idx&15 == 0 && time.Now().Unix() > j.Deadline {
			return
		}
		r := evalCase(d.f, idx, j.Param)
		res.Cases++
		res.Done = idx + 1
		if r == nil {
			res.Evals++
			continue
		}
		if r.Evals == 0 {
			r.Evals = 1
		}
		res.Evals += r.Evals
		res.Nontrivial += r.Nontrivial
		if r.Outcome != "" && len(res.Outcomes) < maxOutcomeSet {
			res.Outcomes[hashStr(r.Outcome)]++
		}
		for k, v := range r.Counts {
			res.Counts[k] += v
		}
		for k, v := range r.Flags {
			if v {
				res.Flags[k] = true
			}
		}
		if r.Sample != nil && len(res.Samples) < 2 {
			res.Samples = append(res.Samples, r.Sample)
		}
		if r.Failure != "" {
			// believed only if it fails again
			r2 := evalCase(d.f, idx, j.Param)
			if r2 == nil || r2.Failure == "" {
				res.Errors = append(res.Errors, fmt.Sprintf("NONDETERMINISM: enumeration %s case %d failed once (%s) and passed on re-evaluation", j.Name, idx, firstLine(r.Failure)))
				return
			}
			k := r2.Key + "|" + firstLine(r2.Failure)
			if r2.Key != "" {
				k = r2.Key
			}
			if !seen[k] {
				seen[k] = true
				res.Violations = append(res.Violations, Violation{Scenario: j.Name, Param: j.Param, Choices: []int{int(idx)}, Failure: r2.Failure, Key: r2.Key, Notes: r2.Notes})
			}
			if len(res.Violations) >= j.MaxViol {
				return
			}
		}
	}
	return
}

func evalCase(f EnumFunc, idx int64, param string) (r *Result) {
	defer func() {
		if p := recover(); p != nil {
			r = &Result{Failure: fmt.Sprintf("harness panic in case %d: %v", idx, p), Key: "harness-panic"}
		}
	}()
	return f(idx, param)
}

// EnumConfig of one enumeration.
type EnumConfig struct {
	Name    string
	Param   string
	Chunk   int64         // cases per job (0: total/(workers*8), at least 1)
	Budget  time.Duration // wall-clock cap; hitting it => Exhaustive=false
	MaxViol int
	InProc  bool
	// CrashIsViolation: a worker process that dies while evaluating a case (fatal
	// runtime error such as out of memory, unrecoverable fault) is reported as a
	// violation of that case instead of a harness error.
	CrashIsViolation bool
	// CrashKey names the finding class of a case that kills the evaluating process (default: the case index)
	CrashKey func(idx int64) string
	Limit    int64 // evaluate only the first Limit cases (0 = all); sets Exhaustive=false when it cuts
}

// EnumStats aggregates an enumeration.
type EnumStats struct {
	Name       string           `json:"name"`
	Param      string           `json:"param,omitempty"`
	Total      int64            `json:"total_cases"`
	Cases      int64            `json:"cases_evaluated"`
	Evals      int64            `json:"evaluations"`
	Nontrivial int64            `json:"nontrivial"`
	NOutcomes  int              `json:"distinct_outcomes"`
	Counts     map[string]int64 `json:"counts,omitempty"`
	Flags      map[string]bool  `json:"flags,omitempty"`
	Exhaustive bool             `json:"exhaustive"`
	WallS      float64          `json:"wall_s"`
	Violations []Violation      `json:"-"`
	Errors     []string         `json:"errors,omitempty"`
	Samples    []interface{}    `json:"-"`
	outcomes   map[string]int64
}

// Enumerate evaluates every case of the enumeration, sharded over workers.
func Enumerate(cfg EnumConfig) *EnumStats {
	t0 := time.Now()
	st := &EnumStats{Name: cfg.Name, Param: cfg.Param, Counts: map[string]int64{}, Flags: map[string]bool{}, outcomes: map[string]int64{}}
	d, ok := enums[cfg.Name]
	if !ok {
		st.Errors = append(st.Errors, "unknown enumeration "+cfg.Name)
		return st
	}
	total := d.total(cfg.Param)
	st.Total = total
	limit := total
	st.Exhaustive = true
	if cfg.Limit > 0 && cfg.Limit < total {
		limit = cfg.Limit
		st.Exhaustive = false
	}
	var deadline int64
	if cfg.Budget > 0 {
		deadline = t0.Add(cfg.Budget).Unix()
	}
	chunk := cfg.Chunk
	if chunk <= 0 {
		chunk = limit / int64(Workers()*8)
		if chunk < 1 {
			chunk = 1
		}
	}
	var jobs []enumJob
	for lo := int64(0); lo < limit; lo += chunk {
		hi := lo + chunk
		if hi > limit {
			hi = limit
		}
		jobs = append(jobs, enumJob{Kind: "enum", Name: cfg.Name, Param: cfg.Param, Lo: lo, Hi: hi, Deadline: deadline, MaxViol: cfg.MaxViol})
	}
	var mu sync.Mutex
	absorb := func(j enumJob, r enumResult) {
		mu.Lock()
		defer mu.Unlock()
		st.Cases += r.Cases
		st.Evals += r.Evals
		st.Nontrivial += r.Nontrivial
		for k, v := range r.Outcomes {
			st.outcomes[k] += v
		}
		for k, v := range r.Counts {
			st.Counts[k] += v
		}
		for k, v := range r.Flags {
			if v {
				st.Flags[k] = true
			}
		}
		st.Violations = append(st.Violations, r.Violations...)
		st.Errors = append(st.Errors, r.Errors...)
		if len(st.Samples) < 4 {
			st.Samples = append(st.Samples, r.Samples...)
		}
		if r.Done < j.Hi {
			st.Exhaustive = false
		}
	}
	if cfg.InProc {
		for _, j := range jobs {
			absorb(j, runEnumJob(j))
		}
	} else {
		err := parallel(len(jobs), func(w *workerProc, i int) error {
			if deadline != 0 && time.Now().Unix() > deadline {
				mu.Lock()
				st.Exhaustive = false
				mu.Unlock()
				return nil
			}
			j := jobs[i]
			for {
				var r enumResult
				err := w.call(j, &r)
				if err == nil {
					absorb(j, r)
					return nil
				}
				if !cfg.CrashIsViolation {
					return fmt.Errorf("enum job %d [%d,%d): %v", i, j.Lo, j.Hi, err)
				}
				// the worker died: find the case that kills it, report it, go on with the rest
				v := isolateCrash(j)
				if v == nil {
					return fmt.Errorf("enum job %d [%d,%d): %v (not reproducible)", i, j.Lo, j.Hi, err)
				}
				c := int64(v.Choices[0])
				if cfg.CrashKey != nil {
					v.Key = cfg.CrashKey(c)
				}
				mu.Lock()
				st.Violations = append(st.Violations, *v)
				nv := len(st.Violations)
				st.Cases++ // the killing case has its verdict
				st.Evals++
				mu.Unlock()
				w.stop()
				nw, serr := startWorker()
				if serr != nil {
					return serr
				}
				*w = *nw
				if c > j.Lo {
					sub := j
					sub.Hi = c
					var r2 enumResult
					if err := w.call(sub, &r2); err != nil {
						return fmt.Errorf("enum job [%d,%d) died again before the isolated case: %v", sub.Lo, sub.Hi, err)
					}
					absorb(sub, r2)
				}
				j.Lo = c + 1
				if j.Lo >= j.Hi || (cfg.MaxViol > 0 && nv >= cfg.MaxViol*4) {
					return nil
				}
			}
		})
		if err != nil && err != errWorkerRestart {
			st.Errors = append(st.Errors, "worker failure: "+err.Error())
			st.Exhaustive = false
		}
	}
	if len(st.Errors) > 0 {
		st.Exhaustive = false // (violations do not end the enumeration: every case is still evaluated unless MaxViol cut a job)
	}
	st.NOutcomes = len(st.outcomes)
	st.WallS = time.Since(t0).Seconds()
	return st
}

// ReplayEnum evaluates one recorded case again.
func ReplayEnum(v *Violation) string {
	d, ok := enums[v.Scenario]
	if !ok {
		return "unknown enumeration " + v.Scenario
	}
	if len(v.Choices) != 1 {
		return "bad replay file"
	}
	r := evalCase(d.f, int64(v.Choices[0]), v.Param)
	if r == nil {
		return ""
	}
	return r.Failure
}

// IsEnum reports whether name is a registered enumeration.
func IsEnum(name string) bool { _, ok := enums[name]; return ok }

var errWorkerRestart = fmt.Errorf("worker died on a case (reported as violation)")

// isolateCrash finds, by bisection in fresh worker processes, the first case
// of the job's range that kills the evaluating process, and confirms it.
func isolateCrash(j enumJob) *Violation {
	dies := func(lo, hi int64) bool {
		w, err := startWorker()
		if err != nil {
			return false
		}
		defer w.stop()
		var r enumResult
		jj := j
		jj.Lo, jj.Hi, jj.Deadline = lo, hi, 0
		return w.call(jj, &r) != nil
	}
	lo, hi := j.Lo, j.Hi
	if !dies(lo, hi) {
		return nil // not reproducible: leave it a harness error
	}
	for hi-lo > 1 {
		mid := lo + (hi-lo)/2
		if dies(lo, mid) {
			hi = mid
		} else {
			lo = mid
		}
	}
	if !dies(lo, lo+1) {
		return nil
	}
	return &Violation{Scenario: j.Name, Param: j.Param, Choices: []int{int(lo)},
		Failure: fmt.Sprintf("the process evaluating case %d died (fatal runtime error: out of memory, unrecoverable fault or exit); reproduced twice in fresh processes", lo),
		Key:     fmt.Sprintf("process-death:%s:%d", j.Name, lo)}
}

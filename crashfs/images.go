package crashfs

import (
	"crypto/sha256"
	"encoding/binary"
	"sort"
)

// Image is one possible on-disk state after a crash.
type Image struct {
	Files   map[string][]byte
	Events  int    // number of trace events that happened before the crash
	Variant string // "boundary" or a description of the torn in-flight persist
	Acked   []int  // batches acknowledged (nil error) strictly before the crash
	// SnapshotDone: some snapshot Persist had completed before the crash
	SnapshotDone bool
	// Structural: a boundary image, or a torn image whose length is in the structural set
	Structural bool
	Hash       [32]byte
}

// ImageOpts selects the torn variants that are generated.
type ImageOpts struct {
	// AllSegmentPrefixes: every prefix length of a torn segment file (else the
	// structural set {0, 1, every 64th, n-1}).
	AllSegmentPrefixes bool
	// Structural: only a structural subset of torn lengths for every file
	// ({0, 1, 2, n/2, n-5, n-4, n-1}); used for the second life of depth-2 runs.
	Structural bool
	// MaxRemoveBatch bounds the subset enumeration of one clean-up batch.
	MaxRemoveBatch int
}

func hashFiles(files map[string][]byte) [32]byte {
	names := make([]string, 0, len(files))
	for n := range files {
		names = append(names, n)
	}
	sort.Strings(names)
	h := sha256.New()
	var l [8]byte
	for _, n := range names {
		h.Write([]byte(n))
		binary.LittleEndian.PutUint64(l[:], uint64(len(files[n])))
		h.Write(l[:])
		h.Write(files[n])
	}
	var out [32]byte
	copy(out[:], h.Sum(nil))
	return out
}

func cloneFiles(files map[string][]byte) map[string][]byte {
	out := make(map[string][]byte, len(files))
	for k, v := range files {
		out[k] = v // contents are never mutated in place
	}
	return out
}

func isSnapshot(name string) bool { return len(name) > 4 && name[len(name)-4:] == ".snp" }

// prefixSet returns the torn lengths k (bytes of the new content that made it)
// to enumerate for an item of n bytes.
func prefixSet(n int, all bool) []int {
	if all || n <= 96 {
		out := make([]int, 0, n)
		for k := 0; k < n; k++ {
			out = append(out, k)
		}
		return out
	}
	seen := map[int]bool{}
	var out []int
	add := func(k int) {
		if k >= 0 && k < n && !seen[k] {
			seen[k] = true
			out = append(out, k)
		}
	}
	add(0)
	add(1)
	for k := 64; k < n; k += 64 {
		add(k)
	}
	add(n - 17) // inside a typical footer
	add(n - 4)
	add(n - 1)
	sort.Ints(out)
	return out
}

func structuralSet(n int) []int {
	seen := map[int]bool{}
	var out []int
	for _, k := range []int{0, 1, 2, n / 2, n - 5, n - 4, n - 1} {
		if k >= 0 && k < n && !seen[k] {
			seen[k] = true
			out = append(out, k)
		}
	}
	sort.Ints(out)
	return out
}

// EnumerateImages calls fn for every crash image of the trace, starting from
// the files in initial.  Images are generated in time order; for each point
// the set of acknowledged batches is the one that holds at that point.
// ackKinds lists the trace event kinds that acknowledge a batch when their Err
// is empty ("ret" for safe batches, "callback" for persisted-callbacks).
// fn returns false to stop.
func EnumerateImages(initial map[string][]byte, trace []Event, opts ImageOpts, ackKinds map[string]bool, fn func(img *Image) bool) {
	if opts.MaxRemoveBatch == 0 {
		opts.MaxRemoveBatch = 6
	}
	files := cloneFiles(initial)
	var acked []int
	snapDone := false
	for name := range files {
		if isSnapshot(name) {
			snapDone = true // a previous life completed it (or left it torn: then recovery already coped)
		}
	}
	structural := true
	emit := func(f map[string][]byte, events int, variant string) bool {
		img := &Image{Files: cloneFiles(f), Events: events, Variant: variant, Acked: append([]int(nil), acked...), SnapshotDone: snapDone, Structural: structural}
		img.Hash = hashFiles(img.Files)
		return fn(img)
	}
	if !emit(files, 0, "boundary") {
		return
	}
	i := 0
	for i < len(trace) {
		e := trace[i]
		switch {
		case ackKinds[e.Kind] && e.Err == "":
			acked = append(acked, e.Batch)
			i++
		case e.Kind == "persist" && e.Err != "locked":
			// the operation in flight: torn variants over the state before it
			n := len(e.Data)
			limit := n
			if e.Err != "" {
				limit = e.Wrote // a failing persist never wrote more than this
			}
			allPrefixes := isSnapshot(e.Name) || opts.AllSegmentPrefixes
			ks := prefixSet(n, allPrefixes)
			if opts.Structural {
				ks = structuralSet(n)
			}
			sset := map[int]bool{}
			for _, k := range structuralSet(n) {
				sset[k] = true
			}
			for _, k := range ks {
				if k > limit {
					break
				}
				structural = sset[k]
				torn := cloneFiles(files)
				// (1) plain prefix (file created or truncated, k bytes arrived)
				torn[e.Name] = e.Data[:k]
				if !emit(torn, i, "torn-prefix") {
					return
				}
				// (2) zero-filled to full length
				if k < n {
					z := make([]byte, n)
					copy(z, e.Data[:k])
					torn2 := cloneFiles(files)
					torn2[e.Name] = z
					if !emit(torn2, i, "torn-zero-filled") {
						return
					}
				}
				// (3) prefix followed by the stale tail of the previous file of that name
				if e.HadOld && len(e.Old) > k {
					st := make([]byte, 0, len(e.Old))
					st = append(st, e.Data[:k]...)
					st = append(st, e.Old[k:]...)
					torn3 := cloneFiles(files)
					torn3[e.Name] = st
					if !emit(torn3, i, "torn-stale-tail") {
						return
					}
				}
			}
			structural = true
			if e.Err == "" || e.Wrote == n {
				// (4) completely written but not yet acknowledged / synced
				full := cloneFiles(files)
				full[e.Name] = e.Data
				if e.HadOld && len(e.Old) > n {
					st := append(append([]byte(nil), e.Data...), e.Old[n:]...)
					f5 := cloneFiles(files)
					f5[e.Name] = st
					if !emit(f5, i, "torn-stale-tail-full") {
						return
					}
				}
				if !emit(full, i, "written-unacknowledged") {
					return
				}
			}
			// apply
			if e.Err == "" {
				files[e.Name] = e.Data
				if isSnapshot(e.Name) {
					snapDone = true
				}
			} else {
				delete(files, e.Name)
			}
			i++
			if !emit(files, i, "boundary") {
				return
			}
		case e.Kind == "remove" && e.Err == "":
			// a batch of removals by the same thread (interleaved stamps of other
			// threads allowed): every subset may have taken effect
			var names []string
			j := i
			for j < len(trace) {
				x := trace[j]
				if x.Kind == "remove" && x.Thread == e.Thread {
					if x.Err == "" {
						names = append(names, x.Name)
					}
					j++
					continue
				}
				if x.Kind == "persist" || x.Kind == "remove" || x.Kind == "lock" || x.Kind == "unlock" {
					break
				}
				if x.Thread == e.Thread && (x.Kind == "load" || x.Kind == "list") {
					break
				}
				j++
			}
			if len(names) <= opts.MaxRemoveBatch {
				for mask := 1; mask < (1<<len(names))-1; mask++ {
					sub := cloneFiles(files)
					for b, n := range names {
						if mask&(1<<b) != 0 {
							delete(sub, n)
						}
					}
					if !emit(sub, i, "partial-cleanup") {
						return
					}
				}
			}
			for _, n := range names {
				delete(files, n)
			}
			// events between i and j that are neither removes nor relevant are skipped over
			for k := i; k < j; k++ {
				if ackKinds[trace[k].Kind] && trace[k].Err == "" {
					acked = append(acked, trace[k].Batch)
				}
			}
			i = j
			if !emit(files, i, "boundary") {
				return
			}
		default:
			i++
		}
	}
	emit(files, len(trace), "boundary")
}

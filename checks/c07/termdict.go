package main

// Term-dictionary queries: term, prefix, wildcard, regexp, fuzzy, term range
// over a keyword field holding strings over {a, b} of length 1-3 plus "",
// "\xff", "a\xff".

import (
	"fmt"
	"regexp"
	"sort"
	"strings"
	"unicode/utf8"

	"github.com/blugelabs/bluge"

	"verif/explore"
)

var tdVocab []string // simplest first

func initVocab() {
	tdVocab = []string{""}
	for l := 1; l <= 3; l++ {
		n := 1 << uint(l)
		for k := 0; k < n; k++ {
			b := make([]byte, l)
			for i := 0; i < l; i++ {
				if k&(1<<uint(l-1-i)) != 0 {
					b[i] = 'b'
				} else {
					b[i] = 'a'
				}
			}
			tdVocab = append(tdVocab, string(b))
		}
	}
	tdVocab = append(tdVocab, "\xff", "a\xff")
}

// tdDocT is one document of a term-dictionary corpus.
type tdDocT struct {
	id      string
	term    string
	deleted bool
}

type tdCorpus struct {
	name    string
	batches [][]wop
	docs    []tdDocT
	layout  string
}

func kwDoc(id, term string) *bluge.Document {
	return bluge.NewDocument(id).AddField(bluge.NewKeywordField("k", term))
}

// corpus "full": every vocabulary string is held by a live document except
// "bbb" (held only by a deleted document, so it stays in the dictionary);
// "a", "ab", "\xff" live in both segments; two pending deletions per segment.
// corpus "sparse": every second vocabulary string, one segment, one deletion.
func tdCorpora() []*tdCorpus {
	mk := func(name string, segs [][]tdDocT, layout string) *tdCorpus {
		c := &tdCorpus{name: name, layout: layout}
		var dels []wop
		for _, seg := range segs {
			var ops []wop
			for _, d := range seg {
				ops = append(ops, wop{doc: kwDoc(d.id, d.term)})
				if d.deleted {
					dels = append(dels, wop{del: true, id: d.id})
				}
				c.docs = append(c.docs, d)
			}
			c.batches = append(c.batches, ops)
		}
		c.batches = append(c.batches, dels)
		return c
	}
	var s1, s2 []tdDocT
	for i, t := range tdVocab {
		if t == "bbb" {
			continue
		}
		d := tdDocT{id: fmt.Sprintf("s%d:%x", 1+i%2, t), term: t}
		if i%2 == 0 {
			s1 = append(s1, d)
		} else {
			s2 = append(s2, d)
		}
	}
	// terms present in both segments, and the deleted documents in the middle
	s1 = append(s1[:3:3], append([]tdDocT{{id: "s1:del-ab", term: "ab", deleted: true}}, s1[3:]...)...)
	s1 = append(s1, tdDocT{id: "s1:dup-a", term: "a"}, tdDocT{id: "s1:del-bbb", term: "bbb", deleted: true}, tdDocT{id: "s1:dup-ff", term: "\xff"})
	s2 = append([]tdDocT{{id: "s2:del-a", term: "a", deleted: true}}, s2...)
	s2 = append(s2, tdDocT{id: "s2:dup-ab", term: "ab"}, tdDocT{id: "s2:del-bab", term: "bab", deleted: true}, tdDocT{id: "s2:dup-empty", term: ""})
	full := mk("full", [][]tdDocT{s1, s2}, "2segs/del=2+2")
	var sp []tdDocT
	for i, t := range tdVocab {
		if i%2 == 1 {
			sp = append(sp, tdDocT{id: fmt.Sprintf("p:%x", t), term: t})
		}
	}
	sp = append(sp, tdDocT{id: "p:del-b", term: "b", deleted: true})
	sparse := mk("sparse", [][]tdDocT{sp}, "1segs/del=1")
	// corpus "three": 3 unmerged segments, every vocabulary string (but "bbb") held by a live
	// document in EVERY segment, one pending deletion of a recurring term per segment, and
	// "bbb" held only by a deleted document of every segment.
	// corpus "four": 4 unmerged segments; string number i lives in every segment when i%3 == 0
	// and in the three segments k with (i+k)%4 != 0 otherwise; one pending deletion per segment.
	multi := func(name string, nseg int, in func(i, k int) bool) *tdCorpus {
		segs := make([][]tdDocT, nseg)
		delTerm := []string{"ab", "a", "bab", ""}
		for k := 0; k < nseg; k++ {
			for i, t := range tdVocab {
				if t == "bbb" || !in(i, k) {
					continue
				}
				segs[k] = append(segs[k], tdDocT{id: fmt.Sprintf("s%d:%x", k+1, t), term: t})
			}
			at := (k + 1) * len(segs[k]) / (nseg + 1)
			d := tdDocT{id: fmt.Sprintf("s%d:del-%x", k+1, delTerm[k]), term: delTerm[k], deleted: true}
			segs[k] = append(segs[k][:at:at], append([]tdDocT{d}, segs[k][at:]...)...)
			segs[k] = append(segs[k], tdDocT{id: fmt.Sprintf("s%d:del-bbb", k+1), term: "bbb", deleted: true})
		}
		lay := fmt.Sprintf("%dsegs/del=2", nseg) + strings.Repeat("+2", nseg-1)
		return mk(name, segs, lay)
	}
	three := multi("three", 3, func(i, k int) bool { return true })
	four := multi("four", 4, func(i, k int) bool { return i%3 == 0 || (i+k)%4 != 0 })
	return []*tdCorpus{full, sparse, three, four}
}

// tdQuery is one dictionary query with its meaning as a predicate on a term.
type tdQuery struct {
	text    string                 // stable description
	build   func() bluge.Query     //
	match   func(term string) bool // documented meaning
	class   string                 // known-defect class this query can hit ("" = none)
	defect  func(term string) bool // ... the answer that defect produces (nil: the defect is a panic)
	skip    func(term string) bool // terms on which the meaning is not defined (not judged)
	invalid string                 // non-empty: the whole query is not judged, for this reason
}

var tdQueries []*tdQuery

const (
	keyFuzzy0       = "fuzzy:fuzziness=0"
	keyPrefixFF     = "prefix:last-byte-0xff"
	keyRangeEmpty   = "termrange:empty-interval-returns-max-term"
	keyRangeOpenMin = "termrange:unbounded-exclusive-min-drops-empty-term"
)

func levenshtein(a, b []string) int {
	prev := make([]int, len(b)+1)
	for j := range prev {
		prev[j] = j
	}
	for i := 1; i <= len(a); i++ {
		cur := make([]int, len(b)+1)
		cur[0] = i
		for j := 1; j <= len(b); j++ {
			c := prev[j-1]
			if a[i-1] != b[j-1] {
				c++
			}
			if prev[j]+1 < c {
				c = prev[j] + 1
			}
			if cur[j-1]+1 < c {
				c = cur[j-1] + 1
			}
			cur[j] = c
		}
		prev = cur
	}
	return prev[len(b)]
}

// damerau is the unrestricted Damerau-Levenshtein distance (adjacent
// transposition = one edit), the lower bound of the readings of "edit distance".
func damerau(a, b []string) int {
	da := map[string]int{}
	maxd := len(a) + len(b)
	d := make([][]int, len(a)+2)
	for i := range d {
		d[i] = make([]int, len(b)+2)
	}
	d[0][0] = maxd
	for i := 0; i <= len(a); i++ {
		d[i+1][0] = maxd
		d[i+1][1] = i
	}
	for j := 0; j <= len(b); j++ {
		d[0][j+1] = maxd
		d[1][j+1] = j
	}
	for i := 1; i <= len(a); i++ {
		db := 0
		for j := 1; j <= len(b); j++ {
			i1 := da[b[j-1]]
			j1 := db
			cost := 1
			if a[i-1] == b[j-1] {
				cost = 0
				db = j
			}
			v := d[i][j] + cost
			if x := d[i+1][j] + 1; x < v {
				v = x
			}
			if x := d[i][j+1] + 1; x < v {
				v = x
			}
			if x := d[i1][j1] + (i - i1 - 1) + 1 + (j - j1 - 1); x < v {
				v = x
			}
			d[i+1][j+1] = v
		}
		da[a[i-1]] = i
	}
	return d[len(a)+1][len(b)+1]
}

// wrapInc is the byte-wise increment with wrap-around (0xff -> 0x00 with carry)
// that the known prefix defect uses as the exclusive end of its scan.
func wrapInc(p string) string {
	b := []byte(p)
	for i := len(b) - 1; i >= 0; i-- {
		b[i]++
		if b[i] != 0 {
			break
		}
	}
	return string(b)
}

func chars(s string) []string {
	var out []string
	for _, r := range s {
		out = append(out, string(r))
	}
	return out
}

var regexpGrammar = []string{
	"a", "b", "ab", "a.", ".a", ".", "..", "...", ".*", ".+", "a*", "a+", "a?", "a?b", "a*b", "ab*", "(ab)*", "(a|b)", "a|b", "a|ab",
	"ab|ba", "[ab]", "[ab]b", "[^a]", "[^a]*", "a.*b", "a{2}", "a{1,2}", "(a|b){2}", "b.*", "(a*)(b*)", "",
}

func initTDQueries() {
	// built per kind, then ordered: term, prefix, term range, wildcard, regexp, fuzzy
	var groups [6][]*tdQuery
	cur := 0
	add := func(q *tdQuery) { groups[cur] = append(groups[cur], q) }
	defer func() {
		for _, g := range []int{0, 1, 5, 2, 3, 4} {
			tdQueries = append(tdQueries, groups[g]...)
		}
	}()
	// term
	for _, t := range tdVocab {
		t := t
		add(&tdQuery{text: "term " + q(t), build: func() bluge.Query { return bluge.NewTermQuery(t).SetField("k") },
			match: func(s string) bool { return s == t }})
	}
	// prefix: every non-empty vocabulary string and a few more ending in 0xff
	cur = 1
	for _, p := range append(append([]string(nil), tdVocab[1:]...), "b\xff", "\xff\xff", "a\xff\xff", "ab\xff") {
		p := p
		tq := &tdQuery{text: "prefix " + q(p), build: func() bluge.Query { return bluge.NewPrefixQuery(p).SetField("k") },
			match: func(s string) bool { return strings.HasPrefix(s, p) }}
		if p[len(p)-1] == 0xff {
			// the known defect scans [p, p+1) with p+1 computed by a wrapping byte increment
			tq.class = keyPrefixFF
			end := wrapInc(p)
			tq.defect = func(s string) bool { return s >= p && s < end }
		}
		add(tq)
	}
	// wildcard: every string over {a, b, ?, *} of length 0..3
	cur = 2
	alpha := "ab?*"
	var wilds []string
	var gen func(pre string, l int)
	gen = func(pre string, l int) {
		if len(pre) == l {
			wilds = append(wilds, pre)
			return
		}
		for i := 0; i < len(alpha); i++ {
			gen(pre+string(alpha[i]), l)
		}
	}
	for l := 0; l <= 3; l++ {
		gen("", l)
	}
	notUTF8 := func(s string) bool { return !utf8.ValidString(s) }
	for _, w := range wilds {
		w := w
		var sb strings.Builder
		sb.WriteString(`^(?s:`)
		for i := 0; i < len(w); i++ {
			switch w[i] {
			case '*':
				sb.WriteString(".*")
			case '?':
				sb.WriteString(".")
			default:
				sb.WriteString(regexp.QuoteMeta(string(w[i])))
			}
		}
		sb.WriteString(`)$`)
		re := regexp.MustCompile(sb.String())
		add(&tdQuery{text: "wildcard " + q(w), build: func() bluge.Query { return bluge.NewWildcardQuery(w).SetField("k") },
			match: func(s string) bool { return re.MatchString(s) }, skip: notUTF8})
	}
	// regexp: whole-term match
	cur = 3
	for _, p := range regexpGrammar {
		p := p
		re := regexp.MustCompile(`^(?:` + p + `)$`)
		add(&tdQuery{text: "regexp " + q(p), build: func() bluge.Query { return bluge.NewRegexpQuery(p).SetField("k") },
			match: func(s string) bool { return re.MatchString(s) }, skip: notUTF8})
	}
	// fuzzy: Levenshtein distance <= fuzziness and the first `prefix` characters equal
	cur = 4
	for _, t := range tdVocab {
		for fz := 0; fz <= 2; fz++ {
			for pl := 0; pl <= 2; pl++ {
				t, fz, pl := t, fz, pl
				tc := chars(t)
				tq := &tdQuery{text: fmt.Sprintf("fuzzy %s fuzziness=%d prefix=%d", q(t), fz, pl),
					build: func() bluge.Query {
						return bluge.NewFuzzyQuery(t).SetFuzziness(fz).SetPrefix(pl).SetField("k")
					},
					match: func(s string) bool {
						sc := chars(s)
						n := pl
						if n > len(tc) {
							n = len(tc)
						}
						if len(sc) < n {
							return false
						}
						for i := 0; i < n; i++ {
							if sc[i] != tc[i] {
								return false
							}
						}
						return levenshtein(tc, sc) <= fz
					},
					// not judged: terms that are not valid UTF-8, and terms that are within the
					// fuzziness only if a transposition of two adjacent characters counts as one edit
					skip: func(s string) bool {
						if notUTF8(s) {
							return true
						}
						sc := chars(s)
						return levenshtein(tc, sc) > fz && damerau(tc, sc) <= fz
					}}
				if notUTF8(t) {
					tq.invalid = "fuzzy term is not valid UTF-8 (edit distance over characters is undefined)"
				}
				if fz == 0 {
					tq.class = keyFuzzy0
				}
				add(tq)
			}
		}
	}
	// term range: both ends from the vocabulary, "" = unbounded
	cur = 5
	for _, lo := range tdVocab {
		for _, hi := range tdVocab {
			for fl := 0; fl < 4; fl++ {
				lo, hi := lo, hi
				incLo, incHi := fl&1 == 0, fl&2 != 0
				br := [2]string{"(", "["}
				bl := [2]string{")", "]"}
				b2i := func(b bool) int {
					if b {
						return 1
					}
					return 0
				}
				los, his := q(lo), q(hi)
				if lo == "" {
					los = "unbounded"
				}
				if hi == "" {
					his = "unbounded"
				}
				tq := &tdQuery{text: fmt.Sprintf("termrange %s%s,%s%s", br[b2i(incLo)], los, his, bl[b2i(incHi)]),
					build: func() bluge.Query {
						return bluge.NewTermRangeInclusiveQuery(lo, hi, incLo, incHi).SetField("k")
					},
					match: func(s string) bool {
						if lo != "" {
							if s < lo || (s == lo && !incLo) {
								return false
							}
						}
						if hi != "" {
							if s > hi || (s == hi && !incHi) {
								return false
							}
						}
						return true
					}}
				if lo != "" && hi != "" && (lo > hi || (lo == hi && !(incLo && incHi))) {
					// the interval is empty; the known defect returns the documents of the max term
					tq.class = keyRangeEmpty
					tq.defect = func(s string) bool { return s == hi }
				}
				if lo == "" && !incLo {
					tq.class = keyRangeOpenMin
					m := tq.match
					tq.defect = func(s string) bool { return s != "" && m(s) }
				}
				add(tq)
			}
		}
	}
}

var tdCorp []*tdCorpus
var tdReaders = map[string]*bluge.Reader{}

var tdModes = []searchMode{modeAll, modeTopN, modeNone}

func tdTotal(param string) int64 { return int64(len(tdCorp) * len(tdQueries)) }

func tdEval(idx int64, param string) *explore.Result {
	corp := tdCorp[idx%int64(len(tdCorp))]
	tq := tdQueries[idx/int64(len(tdCorp))]
	res := &explore.Result{Counts: map[string]int64{}, Key: "termdict[" + corp.name + "]:" + tq.text}
	r := tdReaders[corp.name]
	if r == nil {
		var err error
		r, err = buildIndex(corp.batches)
		if err == nil && layoutOf(r) != corp.layout {
			err = fmt.Errorf("unexpected layout %s", layoutOf(r))
		}
		if err != nil {
			res.Failure, res.Key = "harness: "+err.Error(), "harness-build"
			return res
		}
		tdReaders[corp.name] = r
	}
	if tq.invalid != "" {
		res.Counts["unjudged_queries_invalid_utf8"]++
		res.Outcome = "unjudged"
		return res
	}
	var want []string
	dontCare := map[string]bool{}
	termOf := map[string]string{}
	live := 0
	for _, d := range corp.docs {
		termOf[d.id] = d.term
		if d.deleted {
			continue
		}
		live++
		if tq.skip != nil && tq.skip(d.term) {
			dontCare[d.id] = true
			res.Counts["unjudged_documents"]++
			continue
		}
		if tq.match(d.term) {
			want = append(want, d.id)
		}
	}
	sort.Strings(want)
	res.Outcome = corp.name + ":" + strings.Join(want, ",")
	if len(want) > 0 && len(want) < live {
		res.Nontrivial = int64(len(tdModes))
	}
	for _, mode := range tdModes {
		res.Evals++
		ids, err := runSearch(r, mode.mk(tq.build(), 200))
		fail := ""
		if err != nil {
			fail = "error: " + err.Error()
		} else {
			fail = judge(ids, want, dontCare)
		}
		if fail == "" {
			continue
		}
		res.Failure = fmt.Sprintf("%s on corpus %q [%s]: %s (document ids are segment:hex-of-term)", tq.text, corp.name, mode.name, fail)
		// does the failure have exactly the form of the known defect class of this query?
		if tq.class != "" {
			if tq.defect == nil {
				if err != nil && strings.Contains(err.Error(), "PANIC") {
					res.Key = tq.class
				}
			} else if err == nil {
				var dw []string
				for _, d := range corp.docs {
					if !d.deleted && !dontCare[d.id] && tq.defect(d.term) {
						dw = append(dw, d.id)
					}
				}
				sort.Strings(dw)
				if judge(ids, dw, dontCare) == "" {
					res.Key = tq.class
				}
			}
		}
		return res
	}
	if idx%701 == 0 {
		res.Sample = map[string]interface{}{"enumeration": "c07-termdict", "corpus": corp.name, "query": tq.text, "expected_ids": want}
	}
	return res
}

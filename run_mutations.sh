#!/bin/bash
# Runs every deliberate property-breaking patch under mutations/ (and seeded/*/patch.diff) against the
# check of its property (quick tier unless the patch name is listed in mutations/THOROUGH) and prints a table.
cd "$(dirname "$0")"
out=${1:-build/mutations.log}
mkdir -p build
: > $out
for p in mutations/*.diff seeded/*/patch.diff; do
  [ -f "$p" ] || continue
  if [[ $p == seeded/* ]]; then
    d=$(dirname $p); id=$(python3 -c "import json;print(json.load(open('$d/meta.json'))['property'])")
    name=$(basename $d)
  else
    name=$(basename $p .diff); id=$(echo $name | cut -d- -f1 | tr a-z A-Z)
  fi
  tier=quick
  grep -qx "$name" mutations/THOROUGH 2>/dev/null && tier=thorough
  res=$(./mutate.sh $p $id $tier 2>&1 | tail -1)
  echo "$name | $id | $tier | $res" | tee -a $out
done

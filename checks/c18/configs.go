package main

import (
	"fmt"
	"regexp"
	"strings"
	"unicode"
	"unicode/utf8"

	"github.com/blugelabs/bluge/analysis"
	"github.com/blugelabs/bluge/analysis/analyzer"
	"github.com/blugelabs/bluge/analysis/char"
	"github.com/blugelabs/bluge/analysis/lang/ar"
	"github.com/blugelabs/bluge/analysis/lang/bg"
	"github.com/blugelabs/bluge/analysis/lang/ca"
	"github.com/blugelabs/bluge/analysis/lang/cjk"
	"github.com/blugelabs/bluge/analysis/lang/ckb"
	"github.com/blugelabs/bluge/analysis/lang/cs"
	"github.com/blugelabs/bluge/analysis/lang/da"
	"github.com/blugelabs/bluge/analysis/lang/de"
	"github.com/blugelabs/bluge/analysis/lang/el"
	"github.com/blugelabs/bluge/analysis/lang/en"
	"github.com/blugelabs/bluge/analysis/lang/es"
	"github.com/blugelabs/bluge/analysis/lang/eu"
	"github.com/blugelabs/bluge/analysis/lang/fa"
	"github.com/blugelabs/bluge/analysis/lang/fi"
	"github.com/blugelabs/bluge/analysis/lang/fr"
	"github.com/blugelabs/bluge/analysis/lang/ga"
	"github.com/blugelabs/bluge/analysis/lang/gl"
	"github.com/blugelabs/bluge/analysis/lang/hi"
	"github.com/blugelabs/bluge/analysis/lang/hu"
	"github.com/blugelabs/bluge/analysis/lang/hy"
	"github.com/blugelabs/bluge/analysis/lang/id"
	"github.com/blugelabs/bluge/analysis/lang/in"
	"github.com/blugelabs/bluge/analysis/lang/it"
	"github.com/blugelabs/bluge/analysis/lang/nl"
	"github.com/blugelabs/bluge/analysis/lang/no"
	"github.com/blugelabs/bluge/analysis/lang/pt"
	"github.com/blugelabs/bluge/analysis/lang/ro"
	"github.com/blugelabs/bluge/analysis/lang/ru"
	"github.com/blugelabs/bluge/analysis/lang/sv"
	"github.com/blugelabs/bluge/analysis/lang/tr"
	"github.com/blugelabs/bluge/analysis/token"
	"github.com/blugelabs/bluge/analysis/tokenizer"
	"golang.org/x/text/unicode/norm"
)

// A config is one thing under test wrapped as an *analysis.Analyzer.
type config struct {
	name   string // stable: goes into the Key
	class  string // analyzer | tokenizer | charfilter | filter | langfilter
	build  func() *analysis.Analyzer
	alphas [][]string
	tables []string // rule string tables (whole-word inputs)
	fill   [2]string
	extra  []string // further whole inputs (long texts)
	pure   bool     // a tokenizer alone: term == input[start:end]
	// ref, for tokenizers whose meaning is documented completely: the expected
	// tokens (term, byte offsets) of a valid UTF-8 input; ok=false: not judged
	ref func(in string) (want []tok, ok bool)
}

const (
	bad1 = "\xe4" // truncated multi-byte lead
	bad2 = "\x80" // stray continuation
)

// Alphabets, simplest symbol first.
var (
	aGeneric = []string{"a", " ", "B", "é", "世", "1", bad1, bad2}
	aPunct   = []string{"a", " ", "'", ".", "1", "é", bad1, bad2}
	aWeb     = []string{"a", " ", "@", ".", ":", "#", "w", bad2}
	aGram    = []string{"a", " ", "b", "é", "世", "\u0301", bad1, bad2}
	aCamel   = []string{"a", "B", " ", "1", "-", "É", bad1, bad2}
	aLower   = []string{"a", "B", " ", "İ", "Σ", "Ⱥ", bad1, bad2}
	aElide   = []string{"a", "l", " ", "'", "’", "é", bad1, bad2}
	aDict    = []string{"a", "b", " ", "é", "1", "世", bad1, bad2}
	aNorm    = []string{"a", " ", "e", "é", "\u0301", "ﬁ", bad1, bad2}
	aPorter  = []string{"a", "s", " ", "e", "i", "y", bad1, bad2}
	aFold    = []string{"a", " ", "é", "Æ", "⑽", "1", bad1, bad2}
	aHTML    = []string{"a", " ", "<", ">", "/", "é", bad1, bad2}
	aHTML2   = []string{"a", " ", "<", ">", "=", "\"", "!", bad2}
	aZwnj    = []string{"a", " ", "\u200c", "ه", "1", "'", bad1, bad2}
)

func only(t analysis.Tokenizer, fs ...analysis.TokenFilter) func() *analysis.Analyzer {
	return func() *analysis.Analyzer { return &analysis.Analyzer{Tokenizer: t, TokenFilters: fs} }
}

func tmap(words ...string) analysis.TokenMap {
	m := analysis.NewTokenMap()
	for _, w := range words {
		m.AddToken(w)
	}
	return m
}

type langSpec struct {
	code    string
	an      func() *analysis.Analyzer
	primary []string
	second  []string
	tables  []string
	fill    [2]string
}

// The 20 language analyzers.  primary = {two letters of the script that
// trigger normaliser/stemmer rules, ASCII letter, digit, space, apostrophe or
// script joiner, e4, 80}; second = more letters of the rule tables.
var langs = []langSpec{
	{"ar", ar.Analyzer, []string{"a", " ", "ا", "ل", "1", "\u0640", bad1, bad2}, []string{"و", "ا", "ل", "ه", "ي", "ة", " ", "\u0651"}, []string{"ar-light"}, [2]string{"ب", "ر"}},
	{"cjk", cjk.Analyzer, []string{"a", " ", "世", "ｶ", "1", "\uff9e", bad1, bad2}, []string{"世", "界", "あ", "Ａ", "ｶ", "\uff9e", " ", "한"}, nil, [2]string{}},
	{"ckb", ckb.Analyzer, []string{"a", " ", "ه", "ی", "1", "\u200c", bad1, bad2}, []string{"ە", "ک", "ا", "ن", "ر", "ي", " ", "\u0640"}, []string{"ckb-light"}, [2]string{"ب", "ر"}},
	{"da", da.Analyzer, []string{"a", " ", "e", "ø", "1", "'", bad1, bad2}, []string{"e", "r", "s", "n", "d", "t", "ø", " "}, []string{"danish"}, [2]string{"t", "a"}},
	{"de", de.Analyzer, []string{"a", " ", "ä", "ß", "1", "'", bad1, bad2}, []string{"e", "n", "r", "s", "t", "ü", "u", " "}, []string{"german"}, [2]string{"t", "a"}},
	{"en", en.NewAnalyzer, []string{"a", " ", "s", "e", "1", "'", bad1, bad2}, []string{"i", "n", "g", "e", "d", "s", "y", "’"}, []string{"english", "porter"}, [2]string{"t", "a"}},
	{"es", es.Analyzer, []string{"a", " ", "s", "á", "1", "'", bad1, bad2}, []string{"e", "s", "c", "a", "o", "ó", "n", " "}, []string{"spanish"}, [2]string{"t", "a"}},
	{"fa", fa.Analyzer, []string{"a", " ", "ی", "ک", "1", "\u200c", bad1, bad2}, []string{"ه", "\u0654", "ۀ", "ی", "ا", "\u200c", " ", "ے"}, nil, [2]string{}},
	{"fi", fi.Analyzer, []string{"a", " ", "ä", "n", "1", "'", bad1, bad2}, []string{"a", "ä", "i", "n", "s", "t", "k", " "}, []string{"finnish"}, [2]string{"t", "a"}},
	{"fr", fr.Analyzer, []string{"a", " ", "é", "x", "1", "'", bad1, bad2}, []string{"a", "u", "x", "e", "s", "l", "’", " "}, []string{"fr-light", "french"}, [2]string{"t", "a"}},
	{"hi", hi.Analyzer, []string{"a", " ", "न", "\u093e", "1", "\u094d", bad1, bad2}, []string{"अ", "\u093e", "\u0945", "\u0940", "\u0902", "\u200d", "\u093c", " "}, []string{"hi-light"}, [2]string{"क", "म"}},
	{"hu", hu.Analyzer, []string{"a", " ", "á", "k", "1", "'", bad1, bad2}, []string{"a", "á", "k", "t", "n", "e", "é", " "}, []string{"hungarian"}, [2]string{"t", "a"}},
	{"it", it.Analyzer, []string{"a", " ", "e", "ì", "1", "'", bad1, bad2}, []string{"l", "’", "i", "e", "h", "o", "à", " "}, []string{"italian"}, [2]string{"t", "a"}},
	{"nl", nl.Analyzer, []string{"a", " ", "e", "ë", "1", "'", bad1, bad2}, []string{"a", "e", "n", "d", "h", "i", "ë", " "}, []string{"dutch"}, [2]string{"t", "a"}},
	{"no", no.Analyzer, []string{"a", " ", "e", "å", "1", "'", bad1, bad2}, []string{"e", "r", "t", "s", "n", "k", "å", " "}, []string{"norwegian"}, [2]string{"t", "a"}},
	{"pt", pt.Analyzer, []string{"a", " ", "s", "ã", "1", "'", bad1, bad2}, []string{"õ", "e", "s", "a", "n", "i", "l", " "}, []string{"pt-light"}, [2]string{"t", "a"}},
	{"ro", ro.Analyzer, []string{"a", " ", "i", "ă", "1", "'", bad1, bad2}, []string{"a", "ă", "e", "i", "l", "u", "ţ", " "}, []string{"romanian"}, [2]string{"t", "a"}},
	{"ru", ru.Analyzer, []string{"a", " ", "и", "в", "1", "'", bad1, bad2}, []string{"а", "я", "и", "в", "ш", "ь", "с", " "}, []string{"russian"}, [2]string{"т", "а"}},
	{"sv", sv.Analyzer, []string{"a", " ", "r", "ö", "1", "'", bad1, bad2}, []string{"a", "r", "e", "n", "s", "t", "ö", " "}, []string{"swedish"}, [2]string{"t", "a"}},
	{"tr", tr.Analyzer, []string{"a", " ", "ı", "İ", "1", "'", bad1, bad2}, []string{"I", "ı", "l", "a", "r", "d", "’", " "}, []string{"turkish"}, [2]string{"t", "a"}},
}

type filterSpec struct {
	name   string
	class  string
	fs     func() []analysis.TokenFilter
	alphas [][]string
	bases  []string // tokenizers the filter is run behind
	tables []string
	fill   [2]string
}

func one(f func() analysis.TokenFilter) func() []analysis.TokenFilter {
	return func() []analysis.TokenFilter { return []analysis.TokenFilter{f()} }
}

var baseTokenizers = map[string]func() analysis.Tokenizer{
	"single":     func() analysis.Tokenizer { return tokenizer.NewSingleTokenTokenizer() },
	"unicode":    func() analysis.Tokenizer { return tokenizer.NewUnicodeTokenizer() },
	"whitespace": func() analysis.Tokenizer { return tokenizer.NewWhitespaceTokenizer() },
}

var defaultBases = []string{"single", "unicode"}

func filterSpecs() []filterSpec {
	var out []filterSpec
	add := func(name string, alphas [][]string, bases []string, fs func() []analysis.TokenFilter) {
		if bases == nil {
			bases = defaultBases
		}
		out = append(out, filterSpec{name: name, class: "filter", fs: fs, alphas: alphas, bases: bases})
	}
	gram := [][]string{aGram}
	for min := 1; min <= 3; min++ {
		for max := 1; max <= 3; max++ {
			min, max := min, max
			add(fmt.Sprintf("ngram(%d,%d)", min, max), gram, nil, one(func() analysis.TokenFilter { return token.NewNgramFilter(min, max) }))
			add(fmt.Sprintf("edgengram(front,%d,%d)", min, max), gram, nil, one(func() analysis.TokenFilter { return token.NewEdgeNgramFilter(token.FRONT, min, max) }))
			add(fmt.Sprintf("edgengram(back,%d,%d)", min, max), gram, nil, one(func() analysis.TokenFilter { return token.NewEdgeNgramFilter(token.BACK, min, max) }))
		}
	}
	for min := 2; min <= 3; min++ {
		for max := 2; max <= 3; max++ {
			for _, orig := range []bool{false, true} {
				min, max, orig := min, max, orig
				add(fmt.Sprintf("shingle(%d,%d,orig=%v)", min, max, orig), gram, []string{"unicode", "whitespace"},
					one(func() analysis.TokenFilter { return token.NewShingleFilter(min, max, orig, " ", "_") }))
				// behind a stop filter: position gaps => filler tokens
				add(fmt.Sprintf("stop(b)+shingle(%d,%d,orig=%v)", min, max, orig), gram, []string{"unicode"},
					func() []analysis.TokenFilter {
						return []analysis.TokenFilter{token.NewStopTokensFilter(tmap("b")), token.NewShingleFilter(min, max, orig, " ", "_")}
					})
			}
		}
	}
	for n := 0; n <= 3; n++ {
		n := n
		add(fmt.Sprintf("truncate(%d)", n), gram, nil, one(func() analysis.TokenFilter { return token.NewTruncateTokenFilter(n) }))
	}
	for min := 0; min <= 3; min++ {
		for max := 0; max <= 3; max++ {
			min, max := min, max
			add(fmt.Sprintf("length(%d,%d)", min, max), gram, nil, one(func() analysis.TokenFilter { return token.NewLengthFilter(min, max) }))
		}
	}
	add("camelcase", [][]string{aCamel}, []string{"single", "whitespace"}, one(func() analysis.TokenFilter { return token.NewCamelCaseFilter() }))
	elide := [][]string{aElide}
	eb := []string{"single", "unicode", "whitespace"}
	add("elision(l,a)", elide, eb, one(func() analysis.TokenFilter { return token.NewElisionFilter(tmap("l", "a")) }))
	add("elision(ca)", elide, eb, one(func() analysis.TokenFilter { return ca.ElisionFilter() }))
	add("elision(fr)", elide, eb, one(func() analysis.TokenFilter { return fr.ElisionFilter() }))
	add("elision(ga)", [][]string{{"a", "b", " ", "'", "’", "m", bad1, bad2}}, eb, one(func() analysis.TokenFilter { return ga.ElisionFilter() }))
	add("elision(it)", elide, eb, one(func() analysis.TokenFilter { return it.ElisionFilter() }))
	add("apostrophe", elide, eb, one(func() analysis.TokenFilter { return token.NewApostropheFilter() }))
	for _, minWord := range []int{0, 3} {
		for minSub := 1; minSub <= 2; minSub++ {
			for maxSub := 1; maxSub <= 3; maxSub++ {
				for _, longest := range []bool{false, true} {
					minWord, minSub, maxSub, longest := minWord, minSub, maxSub, longest
					add(fmt.Sprintf("dictcompound(ab|b|éa,%d,%d,%d,longest=%v)", minWord, minSub, maxSub, longest), [][]string{aDict}, nil,
						one(func() analysis.TokenFilter {
							return token.NewDictionaryCompoundFilter(tmap("ab", "b", "éa"), minWord, minSub, maxSub, longest)
						}))
				}
			}
		}
	}
	add("unique", gram, nil, one(func() analysis.TokenFilter { return token.NewUniqueTermFilter() }))
	add("reverse", gram, nil, one(func() analysis.TokenFilter { return token.NewReverseFilter() }))
	add("lowercase", [][]string{aLower}, nil, one(func() analysis.TokenFilter { return token.NewLowerCaseFilter() }))
	add("stop(a|b|éa)", [][]string{aDict}, nil, one(func() analysis.TokenFilter { return token.NewStopTokensFilter(tmap("a", "b", "éa")) }))
	add("keywordmarker(as|ies)+porter", [][]string{aPorter}, nil, func() []analysis.TokenFilter {
		return []analysis.TokenFilter{token.NewKeyWordMarkerFilter(tmap("as", "ies")), token.NewPorterStemmer()}
	})
	out = append(out, filterSpec{name: "porter", class: "filter", fs: one(func() analysis.TokenFilter { return token.NewPorterStemmer() }),
		alphas: [][]string{aPorter}, bases: defaultBases, tables: []string{"porter", "english"}, fill: [2]string{"t", "a"}})
	for _, f := range []struct {
		n string
		f norm.Form
	}{{"nfc", norm.NFC}, {"nfd", norm.NFD}, {"nfkc", norm.NFKC}, {"nfkd", norm.NFKD}} {
		f := f
		add("unicodenorm("+f.n+")", [][]string{aNorm}, nil, one(func() analysis.TokenFilter { return token.NewUnicodeNormalizeFilter(f.f) }))
	}

	// language-specific filters on their own (with the lower-case filter in
	// front where the analyzers have it), over both alphabets of the language
	lang := map[string]langSpec{}
	for _, l := range langs {
		lang[l.code] = l
	}
	addLang := func(name, code string, lower bool, tables []string, mk func() analysis.TokenFilter) {
		l := lang[code]
		fs := func() []analysis.TokenFilter {
			if lower {
				return []analysis.TokenFilter{token.NewLowerCaseFilter(), mk()}
			}
			return []analysis.TokenFilter{mk()}
		}
		out = append(out, filterSpec{name: name, class: "langfilter", fs: fs, alphas: [][]string{l.primary, l.second}, bases: defaultBases, tables: tables, fill: l.fill})
	}
	addLang("ar.normalize", "ar", false, nil, func() analysis.TokenFilter { return ar.NormalizeFilter() })
	addLang("ar.stemmer", "ar", false, []string{"ar-light"}, func() analysis.TokenFilter { return ar.StemmerFilter() })
	addLang("ckb.normalize", "ckb", false, nil, func() analysis.TokenFilter { return ckb.NormalizeFilter() })
	addLang("ckb.stemmer", "ckb", false, []string{"ckb-light"}, func() analysis.TokenFilter { return ckb.StemmerFilter() })
	addLang("fa.normalize", "fa", false, nil, func() analysis.TokenFilter { return fa.NormalizeFilter() })
	addLang("hi.normalize", "hi", false, nil, func() analysis.TokenFilter { return hi.NormalizeFilter() })
	addLang("hi.stemmer", "hi", false, []string{"hi-light"}, func() analysis.TokenFilter { return hi.StemmerFilter() })
	addLang("in.normalize", "hi", false, nil, func() analysis.TokenFilter { return in.NormalizeFilter() })
	addLang("de.normalize", "de", true, nil, func() analysis.TokenFilter { return de.NormalizeFilter() })
	addLang("de.lightstemmer", "de", true, []string{"german"}, func() analysis.TokenFilter { return de.LightStemmerFilter() })
	addLang("de.stemmer", "de", true, []string{"german"}, func() analysis.TokenFilter { return de.StemmerFilter() })
	addLang("es.lightstemmer", "es", true, []string{"spanish"}, func() analysis.TokenFilter { return es.LightStemmerFilter() })
	addLang("es.stemmer", "es", true, []string{"spanish"}, func() analysis.TokenFilter { return es.StemmerFilter() })
	addLang("fr.lightstemmer", "fr", true, []string{"fr-light", "french"}, func() analysis.TokenFilter { return fr.LightStemmerFilter() })
	addLang("fr.minimalstemmer", "fr", true, []string{"fr-light"}, func() analysis.TokenFilter { return fr.MinimalStemmerFilter() })
	addLang("fr.stemmer", "fr", true, []string{"french"}, func() analysis.TokenFilter { return fr.StemmerFilter() })
	addLang("it.lightstemmer", "it", true, []string{"italian"}, func() analysis.TokenFilter { return it.LightStemmerFilter() })
	addLang("it.stemmer", "it", true, []string{"italian"}, func() analysis.TokenFilter { return it.StemmerFilter() })
	addLang("pt.lightstemmer", "pt", true, []string{"pt-light"}, func() analysis.TokenFilter { return pt.LightStemmerFilter() })
	addLang("cjk.width", "cjk", false, nil, func() analysis.TokenFilter { return cjk.NewWidthFilter() })
	addLang("cjk.bigram(unigram=false)", "cjk", false, nil, func() analysis.TokenFilter { return cjk.NewBigramFilter(false) })
	addLang("cjk.bigram(unigram=true)", "cjk", false, nil, func() analysis.TokenFilter { return cjk.NewBigramFilter(true) })
	addLang("en.possessive", "en", false, nil, func() analysis.TokenFilter { return en.NewPossessiveFilter() })
	addLang("en.stemmer", "en", true, []string{"english"}, func() analysis.TokenFilter { return en.StemmerFilter() })
	addLang("da.stemmer", "da", true, []string{"danish"}, func() analysis.TokenFilter { return da.StemmerFilter() })
	addLang("fi.stemmer", "fi", true, []string{"finnish"}, func() analysis.TokenFilter { return fi.StemmerFilter() })
	addLang("hu.stemmer", "hu", true, []string{"hungarian"}, func() analysis.TokenFilter { return hu.StemmerFilter() })
	addLang("nl.stemmer", "nl", true, []string{"dutch"}, func() analysis.TokenFilter { return nl.StemmerFilter() })
	addLang("no.stemmer", "no", true, []string{"norwegian"}, func() analysis.TokenFilter { return no.StemmerFilter() })
	addLang("ro.stemmer", "ro", true, []string{"romanian"}, func() analysis.TokenFilter { return ro.StemmerFilter() })
	addLang("ru.stemmer", "ru", true, []string{"russian"}, func() analysis.TokenFilter { return ru.StemmerFilter() })
	addLang("sv.stemmer", "sv", true, []string{"swedish"}, func() analysis.TokenFilter { return sv.StemmerFilter() })
	addLang("tr.stemmer", "tr", true, []string{"turkish"}, func() analysis.TokenFilter { return tr.StemmerFilter() })

	// stop-word filters of the languages that have no analyzer (the others
	// are inside their analyzers): one representative letter pair each
	stops := []struct {
		code string
		mk   func() *token.StopTokensFilter
		al   []string
	}{
		{"bg", bg.StopWordsFilter, []string{"a", " ", "а", "з", "1", "'", bad1, bad2}}, // "а", "аз"
		{"ca", ca.StopWordsFilter, []string{"a", " ", "e", "l", "1", "'", bad1, bad2}}, // "a", "el", "la"
		{"cs", cs.StopWordsFilter, []string{"a", " ", "s", "e", "1", "'", bad1, bad2}}, // "a", "se"
		{"el", el.StopWordsFilter, []string{"a", " ", "ο", "η", "1", "'", bad1, bad2}}, // "ο", "η"
		{"eu", eu.StopWordsFilter, []string{"a", " ", "l", "e", "1", "'", bad1, bad2}}, // "al", "ala"
		{"ga", ga.StopWordsFilter, []string{"a", " ", "n", "g", "1", "'", bad1, bad2}}, // "a", "an", "ag"
		{"gl", gl.StopWordsFilter, []string{"a", " ", "o", "s", "1", "'", bad1, bad2}}, // "a", "o", "os"
		{"hy", hy.StopWordsFilter, []string{"a", " ", "է", "ի", "1", "'", bad1, bad2}}, // "է", "ի"
		{"id", id.StopWordsFilter, []string{"a", " ", "d", "i", "1", "'", bad1, bad2}}, // "di", "ada"
	}
	for _, s := range stops {
		s := s
		out = append(out, filterSpec{name: s.code + ".stop", class: "langfilter", alphas: [][]string{s.al}, bases: []string{"unicode"},
			fs: func() []analysis.TokenFilter { return []analysis.TokenFilter{token.NewLowerCaseFilter(), s.mk()} }})
	}
	return out
}

func isDigit(r rune) bool { return unicode.IsDigit(r) }

func prefixesAndDamage(sample string) []string {
	var out []string
	for i := 1; i <= len(sample); i++ {
		out = append(out, sample[:i])
	}
	for i := 0; i < len(sample); i++ {
		out = append(out, sample[:i]+"\x80"+sample[i+1:])
	}
	return out
}

// longInputs cross the buffer sizes of the unicode tokenizer (token arrays of
// 1..256 entries, estimates capped at 1000 segments).
func longInputs() []string {
	var out []string
	for _, unit := range []string{"a ", "é世 "} {
		for _, n := range []int{2, 255, 256, 257, 1000, 1001, 1025} {
			out = append(out, strings.Repeat(unit, n))
		}
	}
	return out
}

// runsOf is the documented meaning of the character tokenizer: the maximal
// runs of runes satisfying the predicate, with byte offsets.  Only valid
// UTF-8 without U+FFFD is judged (the code stops at the first rune that
// decodes to U+FFFD; that is not the subject of this law).
func runsOf(pred func(rune) bool) func(string) ([]tok, bool) {
	return func(in string) ([]tok, bool) {
		if !utf8.ValidString(in) || strings.ContainsRune(in, utf8.RuneError) {
			return nil, false
		}
		var out []tok
		start := -1
		for i, r := range in {
			if pred(r) {
				if start < 0 {
					start = i
				}
			} else if start >= 0 {
				out = append(out, tok{term: in[start:i], start: start, end: i, incr: 1})
				start = -1
			}
		}
		if start >= 0 {
			out = append(out, tok{term: in[start:], start: start, end: len(in), incr: 1})
		}
		return out, true
	}
}

func buildConfigs() []config {
	var cs []config
	// ---- the 24 bundled analyzers
	gen := [][]string{aGeneric, aPunct}
	cs = append(cs,
		config{name: "analyzer=keyword", class: "analyzer", build: analyzer.NewKeywordAnalyzer, alphas: gen},
		config{name: "analyzer=simple", class: "analyzer", build: analyzer.NewSimpleAnalyzer, alphas: gen},
		config{name: "analyzer=standard", class: "analyzer", build: analyzer.NewStandardAnalyzer, alphas: gen},
		config{name: "analyzer=web", class: "analyzer", build: analyzer.NewWebAnalyzer, alphas: [][]string{aGeneric, aWeb}},
	)
	for _, l := range langs {
		cs = append(cs, config{name: "analyzer=" + l.code, class: "analyzer", build: l.an, alphas: [][]string{l.primary, l.second}, tables: l.tables, fill: l.fill})
	}
	// ---- every tokenizer alone
	addTok := func(name string, t analysis.Tokenizer, alphas ...[]string) {
		cs = append(cs, config{name: "tokenizer=" + name, class: "tokenizer", build: only(t), alphas: alphas, pure: true})
	}
	addTok("single", tokenizer.NewSingleTokenTokenizer(), aGeneric)
	cs[len(cs)-1].ref = func(in string) ([]tok, bool) { return []tok{{term: in, start: 0, end: len(in), incr: 1}}, true }
	addTok("letter", tokenizer.NewLetterTokenizer(), aGeneric, aPunct)
	cs[len(cs)-1].ref = runsOf(unicode.IsLetter)
	addTok("whitespace", tokenizer.NewWhitespaceTokenizer(), aGeneric, aPunct)
	cs[len(cs)-1].ref = runsOf(func(r rune) bool { return !unicode.IsSpace(r) })
	addTok("character(isdigit)", tokenizer.NewCharacterTokenizer(isDigit), aGeneric)
	cs[len(cs)-1].ref = runsOf(unicode.IsDigit)
	addTok("unicode", tokenizer.NewUnicodeTokenizer(), aGeneric, aPunct, langs[1].second)
	addTok("web", tokenizer.NewWebTokenizer(), aGeneric, aWeb)
	addTok(`regexp([\p{L}\p{N}]+)`, tokenizer.NewRegexpTokenizer(regexp.MustCompile(`[\p{L}\p{N}]+`)), aGeneric)
	addTok(`regexp(a*)`, tokenizer.NewRegexpTokenizer(regexp.MustCompile(`a*`)), aGeneric)
	addTok(`regexp(\S+)`, tokenizer.NewRegexpTokenizer(regexp.MustCompile(`\S+`)), aGeneric)
	addTok(`regexp(.)`, tokenizer.NewRegexpTokenizer(regexp.MustCompile(`.`)), aGeneric)
	addTok(`exception(1+|é,unicode)`, tokenizer.NewExceptionsTokenizer(regexp.MustCompile(`1+|é`), tokenizer.NewUnicodeTokenizer()), aGeneric)
	addTok(`exception(a*,whitespace)`, tokenizer.NewExceptionsTokenizer(regexp.MustCompile(`a*`), tokenizer.NewWhitespaceTokenizer()), aGeneric)
	for i := range cs {
		switch cs[i].name {
		case "analyzer=standard", "analyzer=web", "analyzer=simple", "tokenizer=unicode", "tokenizer=web", "tokenizer=whitespace", "tokenizer=letter",
			`tokenizer=regexp(\S+)`, `tokenizer=exception(1+|é,unicode)`:
			cs[i].extra = longInputs()
		}
	}
	// ---- every char filter alone, followed by a simple tokenizer
	cf := func(name string, f analysis.CharFilter, alphas ...[]string) {
		for _, b := range []string{"unicode", "whitespace"} {
			b := b
			cs = append(cs, config{name: "charfilter=" + name + " tok=" + b, class: "charfilter", alphas: alphas,
				build: func() *analysis.Analyzer {
					return &analysis.Analyzer{CharFilters: []analysis.CharFilter{f}, Tokenizer: baseTokenizers[b]()}
				}})
		}
	}
	cf("asciifolding", char.NewASCIIFoldingFilter(), aFold)
	cf("html", char.NewHTMLCharFilter(), aHTML, aHTML2)
	cf("zerowidthnonjoiner", char.NewZeroWidthNonJoinerCharFilter(), aZwnj)
	cf(`regexp(a+->)`, char.NewRegexpCharFilter(regexp.MustCompile(`a+`), []byte("")), aGeneric)
	cf(`regexp(1->é1)`, char.NewRegexpCharFilter(regexp.MustCompile(`1`), []byte("é1")), aGeneric)
	cf(`regexp(é->e)`, char.NewRegexpCharFilter(regexp.MustCompile(`é`), []byte("e")), aGeneric)
	// texts that need more than L symbols to reach the deeper alternatives of
	// the HTML and web regular expressions: every prefix of a sample and every
	// variant of it with one byte replaced by a stray continuation byte
	for i := range cs {
		switch {
		case strings.HasPrefix(cs[i].name, "charfilter=html"):
			cs[i].extra = append(cs[i].extra, prefixesAndDamage(`x<a b="é" c='d' e=f/>y</a><!doctype q>`)...)
		case cs[i].name == "analyzer=web" || cs[i].name == "tokenizer=web":
			cs[i].extra = append(cs[i].extra, prefixesAndDamage(`é a@b.co http://www.a.co/x?y=(z) www.a.co @us_1 #tag "q"@[1.2.3.4]`)...)
		}
	}
	// ---- token filters over their parameter grids behind simple tokenizers
	for _, f := range filterSpecs() {
		for _, b := range f.bases {
			f, b := f, b
			cs = append(cs, config{name: "filter=" + f.name + " tok=" + b, class: f.class, alphas: f.alphas, tables: f.tables, fill: f.fill,
				build: func() *analysis.Analyzer {
					return &analysis.Analyzer{Tokenizer: baseTokenizers[b](), TokenFilters: f.fs()}
				}})
		}
	}
	return cs
}

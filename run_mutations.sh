#!/bin/bash
# Runs every deliberate property-breaking patch under mutations/ and every independently seeded
# change under seeded/*/patch.diff against the check of its property (quick tier unless the name is
# listed in mutations/THOROUGH), plus the cross-checks of seeded/CROSS, and prints one line each:
#   name | check | tier | DETECTED/MISSED
# run_mutations.sh [log] [k n]   k n: run only every n-th entry starting with the k-th (parallel streams;
#   each stream uses its own scratch-worktree slot, and VERIF_WORKERS can be lowered to share the cores)
# ONLY=<regex>: run only the entries whose name matches (used to add new seeds to an existing log)
cd "$(dirname "$0")"
out=${1:-build/mutations.log}
k=${2:-0}; n=${3:-1}
export MUTATE_SLOT=slot$k
mkdir -p build
: > $out
i=0
one() { # name patch id tier
  if [ -n "${ONLY:-}" ] && ! echo "$1" | grep -Eq "$ONLY"; then return; fi
  if [ $((i % n)) -eq $k ]; then
    res=$(./mutate.sh $2 $3 $4 2>&1 | tail -1 | awk '{print $1}')
    echo "$1 | $3 | $4 | $res" | tee -a $out
  fi
  i=$((i+1))
}
for p in mutations/*.diff; do
  name=$(basename $p .diff); id=$(echo $name | cut -d- -f1 | tr a-z A-Z)
  tier=quick; grep -qx "$name" mutations/THOROUGH 2>/dev/null && tier=thorough
  one $name $p $id $tier
done
for d in seeded/*/; do
  name=$(basename $d); id=$(python3 -c "import json;print(json.load(open('$d/meta.json'))['property'])")
  tier=quick; grep -qx "$name" mutations/THOROUGH 2>/dev/null && tier=thorough
  one $name $d/patch.diff $id $tier
done
while read name chk; do
  [ -z "$name" ] && continue
  id=${chk%%:*}; tier=quick; [[ $chk == *:thorough ]] && tier=thorough
  one $name seeded/$name/patch.diff $id $tier
done < <(grep -v '^#' seeded/CROSS)

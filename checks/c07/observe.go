package main

import (
	"fmt"
	"math"
	"strings"

	"github.com/blugelabs/bluge"
)

// observations probes the inputs whose meaning the documentation leaves open;
// the answers are recorded in the evidence and are NOT judged.
func observations() map[string]string {
	out := map[string]string{}
	mk := func(id, text, kw string, n float64) *bluge.Document {
		d := bluge.NewDocument(id)
		d.AddField(bluge.NewTextField("f", text).WithAnalyzer(simpleAnalyzer))
		d.AddField(bluge.NewKeywordField("k", kw))
		d.AddField(bluge.NewNumericField("n", n))
		return d
	}
	r, err := buildIndex([][]wop{
		{{doc: mk("d0", "x y", "ab", 0)}, {doc: mk("d1", "y", "ba", math.Copysign(0, -1))}},
		{{doc: mk("d2", "x", "\xff", 1)}, {doc: mk("d3", "", "", math.Inf(1))}},
	})
	if err != nil {
		out["error"] = err.Error()
		return out
	}
	defer r.Close()
	show := func(name string, q bluge.Query) {
		ids, err := runSearch(r, bluge.NewAllMatches(q))
		s := "[" + strings.Join(ids, " ") + "]"
		if err != nil {
			s += " error: " + err.Error()
		}
		out[name] = s
	}
	f := func(t string) bluge.Query { return bluge.NewTermQuery(t).SetField("f") }
	show("bool +y minShould=1 without should clauses (docs: d0={x y} d1={y} d2={x} d3={})", bluge.NewBooleanQuery().AddMust(f("y")).SetMinShould(1))
	show("bool +y [x]~2 (one should clause, minShould=2)", bluge.NewBooleanQuery().AddMust(f("y")).AddShould(f("x")).SetMinShould(2))
	show("fuzzy k:\"ab\" fuzziness=1 (keywords: d0=ab d1=ba d2=\\xff d3=\"\"; ab->ba is 2 Levenshtein edits, 1 transposition)", bluge.NewFuzzyQuery("ab").SetFuzziness(1).SetField("k"))
	show("fuzzy k:\"\\xff\" fuzziness=1 (the term \\xff itself is indexed in d2)", bluge.NewFuzzyQuery("\xff").SetFuzziness(1).SetField("k"))
	show("wildcard k:\"?\" (d2 holds the single byte \\xff)", bluge.NewWildcardQuery("?").SetField("k"))
	show("regexp k:\"^ab$\"", bluge.NewRegexpQuery("^ab$").SetField("k"))
	show("numrange n:[0, 1) (values: d0=+0 d1=-0 d2=1 d3=+Inf)", bluge.NewNumericRangeQuery(0, 1).SetField("n"))
	show("numrange n:[-0, 1)", bluge.NewNumericRangeQuery(math.Copysign(0, -1), 1).SetField("n"))
	show("numrange n:[1, +Inf) max exclusive", bluge.NewNumericRangeQuery(1, math.Inf(1)).SetField("n"))
	show("prefix k:\"\" (empty prefix, outside the domain)", bluge.NewPrefixQuery("").SetField("k"))
	_ = fmt.Sprint
	return out
}

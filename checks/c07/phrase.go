package main

// Phrases / multi-phrases with slop, match and match-phrase queries over short
// documents, and boolean combinations of leaves of every query kind ("mixed").

import (
	"fmt"
	"math"
	"sort"
	"strings"

	"github.com/blugelabs/bluge"

	"verif/explore"
)

// pDoc is the analysed form of one document of the phrase corpus.
type pDoc struct {
	id      string
	deleted bool
	field   string   // "f" (one value) or "g" (two values of a multi-valued field)
	values  []string // the text values
	toks    []pTok   // term and position, as the documented analysis yields them
	n       float64  // numeric field: number of tokens
	lon     float64  // geo field
	lat     float64
}

type pTok struct {
	term string
	pos  int
}

const positionGap = 100 // documented default position increment gap between values of one field

func mkPDoc(id, field string, values []string, deleted bool) *pDoc {
	d := &pDoc{id: id, field: field, values: values, deleted: deleted}
	pos := 0
	na := 0
	for vi, v := range values {
		if vi > 0 && pos > 0 {
			pos += positionGap
		}
		for _, t := range strings.Fields(v) {
			pos++
			d.toks = append(d.toks, pTok{t, pos})
			if t == "a" {
				na++
			}
		}
	}
	d.n = float64(len(d.toks))
	d.lon = 10 * float64(len(d.toks))
	d.lat = 5 * float64(na)
	return d
}

func (d *pDoc) build() *bluge.Document {
	doc := bluge.NewDocument(d.id)
	for _, v := range d.values {
		doc.AddField(bluge.NewTextField(d.field, v).WithAnalyzer(simpleAnalyzer).SearchTermPositions())
	}
	doc.AddField(bluge.NewNumericField("n", d.n))
	doc.AddField(bluge.NewGeoPointField("p", d.lon, d.lat))
	return doc
}

var pDocs []*pDoc
var pBatches [][]wop
var pReader *bluge.Reader
var pLive int

const pLayout = "2segs/del=2+2"

func initPhraseCorpus() {
	var seqs []string
	var gen func(pre []string, l int)
	gen = func(pre []string, l int) {
		if len(pre) == l {
			seqs = append(seqs, strings.Join(pre, " "))
			return
		}
		for _, t := range []string{"a", "b", "c"} {
			gen(append(append([]string(nil), pre...), t), l)
		}
	}
	for l := 0; l <= 4; l++ {
		gen(nil, l)
	}
	var all []*pDoc
	for _, s := range seqs {
		all = append(all, mkPDoc("f:"+strings.ReplaceAll(s, " ", ""), "f", []string{s}, false))
	}
	for _, s := range seqs {
		ts := strings.Fields(s)
		for cut := 1; cut < len(ts); cut++ {
			u, v := strings.Join(ts[:cut], " "), strings.Join(ts[cut:], " ")
			all = append(all, mkPDoc("g:"+strings.Join(ts[:cut], "")+"|"+strings.Join(ts[cut:], ""), "g", []string{u, v}, false))
		}
	}
	// alternate the documents over two segments; deleted documents in the middle and at the ends
	var seg [2][]*pDoc
	for i, d := range all {
		seg[i%2] = append(seg[i%2], d)
	}
	ins := func(s []*pDoc, at int, d *pDoc) []*pDoc {
		return append(s[:at:at], append([]*pDoc{d}, s[at:]...)...)
	}
	seg[0] = ins(seg[0], 0, mkPDoc("del:1", "f", []string{"a b c a"}, true))
	seg[0] = ins(seg[0], len(seg[0])/2, mkPDoc("del:2", "g", []string{"a b", "c a"}, true))
	seg[1] = ins(seg[1], len(seg[1])/3, mkPDoc("del:3", "f", []string{"c b a b"}, true))
	seg[1] = append(seg[1], mkPDoc("del:4", "g", []string{"b", "a c"}, true))
	var dels []wop
	for _, s := range seg {
		var ops []wop
		for _, d := range s {
			ops = append(ops, wop{doc: d.build()})
			if d.deleted {
				dels = append(dels, wop{del: true, id: d.id})
			} else {
				pLive++
			}
			pDocs = append(pDocs, d)
		}
		pBatches = append(pBatches, ops)
	}
	pBatches = append(pBatches, dels)
}

func phraseReader() (*bluge.Reader, error) {
	if pReader != nil {
		return pReader, nil
	}
	r, err := buildIndex(pBatches)
	if err == nil && layoutOf(r) != pLayout {
		err = fmt.Errorf("unexpected layout %s", layoutOf(r))
	}
	if err != nil {
		return nil, err
	}
	pReader = r
	return r, nil
}

// phraseMatch: is there an assignment of one token per phrase slot (the token's
// term being one of the slot's terms), no token used twice, with
// sum |previous position + 1 - position| <= slop ?
func phraseMatch(toks []pTok, phrase [][]string, slop int) bool {
	used := make([]bool, len(toks))
	var rec func(slot, prev, left int) bool
	rec = func(slot, prev, left int) bool {
		if slot == len(phrase) {
			return true
		}
		for i, tk := range toks {
			if used[i] {
				continue
			}
			ok := false
			for _, t := range phrase[slot] {
				if t == tk.term {
					ok = true
				}
			}
			if !ok {
				continue
			}
			cost := 0
			if slot > 0 {
				cost = prev + 1 - tk.pos
				if cost < 0 {
					cost = -cost
				}
			}
			if cost > left {
				continue
			}
			used[i] = true
			r := rec(slot+1, tk.pos, left-cost)
			used[i] = false
			if r {
				return true
			}
		}
		return false
	}
	return rec(0, 0, slop)
}

func hasTerm(d *pDoc, field, term string) bool {
	if d.field != field {
		return false
	}
	for _, tk := range d.toks {
		if tk.term == term {
			return true
		}
	}
	return false
}

// pQuery is a query on the phrase corpus with its documented meaning.
type pQuery struct {
	text  string
	build func() bluge.Query
	match func(d *pDoc) bool
	// unsure: documents on which the answer is not judged (geo points close to the threshold)
	unsure func(d *pDoc) bool
	// defectNone: the answer under the known Score=none defect (nil: same as match)
	defectNone func(d *pDoc) bool
}

func (p *pQuery) dn(d *pDoc) bool {
	if p.defectNone != nil {
		return p.defectNone(d)
	}
	return p.match(d)
}

var phraseQueries []*pQuery

func phraseText(ph [][]string) string {
	var parts []string
	for _, s := range ph {
		parts = append(parts, strings.Join(s, "|"))
	}
	return strings.Join(parts, " ")
}

func multiPhraseQ(field string, ph [][]string, slop int) *pQuery {
	return &pQuery{
		text:  fmt.Sprintf("multiphrase %s:%q~%d", field, phraseText(ph), slop),
		build: func() bluge.Query { return bluge.NewMultiPhraseQuery(ph).SetField(field).SetSlop(slop) },
		match: func(d *pDoc) bool { return d.field == field && phraseMatch(d.toks, ph, slop) },
	}
}

func initPhraseQueries() {
	sets := [][]string{{"a"}, {"b"}, {"c"}, {"a", "b"}, {"a", "c"}, {"b", "c"}}
	var phrases [][][]string
	var gen func(pre [][]string, l int)
	gen = func(pre [][]string, l int) {
		if len(pre) == l {
			phrases = append(phrases, pre)
			return
		}
		for _, s := range sets {
			gen(append(append([][]string(nil), pre...), s), l)
		}
	}
	for l := 1; l <= 3; l++ {
		gen(nil, l)
	}
	for _, field := range []string{"f", "g"} {
		for _, ph := range phrases {
			for slop := 0; slop <= 2; slop++ {
				phraseQueries = append(phraseQueries, multiPhraseQ(field, ph, slop))
			}
		}
	}
	// match-phrase and match over texts of 1..3 single terms
	for _, field := range []string{"f", "g"} {
		for _, ph := range phrases {
			single := true
			var words []string
			for _, s := range ph {
				if len(s) != 1 {
					single = false
				}
				words = append(words, s[0])
			}
			if !single {
				continue
			}
			field, ph, text := field, ph, strings.Join(words, " ")
			for slop := 0; slop <= 2; slop++ {
				slop := slop
				phraseQueries = append(phraseQueries, &pQuery{
					text: fmt.Sprintf("matchphrase %s:%q~%d", field, text, slop),
					build: func() bluge.Query {
						return bluge.NewMatchPhraseQuery(text).SetField(field).SetSlop(slop).SetAnalyzer(simpleAnalyzer)
					},
					match: func(d *pDoc) bool { return d.field == field && phraseMatch(d.toks, ph, slop) },
				})
			}
			for _, and := range []bool{false, true} {
				and := and
				op := "or"
				if and {
					op = "and"
				}
				phraseQueries = append(phraseQueries, &pQuery{
					text: fmt.Sprintf("match(%s) %s:%q", op, field, text),
					build: func() bluge.Query {
						mq := bluge.NewMatchQuery(text).SetField(field).SetAnalyzer(simpleAnalyzer)
						if and {
							mq.SetOperator(bluge.MatchQueryOperatorAnd)
						}
						return mq
					},
					match: func(d *pDoc) bool {
						n := 0
						for _, w := range words {
							if hasTerm(d, field, w) {
								n++
							}
						}
						if and {
							return n == len(words)
						}
						return n > 0
					},
				})
			}
		}
	}
}

var pModes = []searchMode{modeAll, modeLoc, modeTopN, modeNone}

func runPQuery(pq *pQuery, keyPrefix string, res *explore.Result) {
	r, err := phraseReader()
	if err != nil {
		res.Failure, res.Key = "harness: "+err.Error(), "harness-build"
		return
	}
	var want []string
	dontCare := map[string]bool{}
	for _, d := range pDocs {
		if d.deleted {
			continue
		}
		if pq.unsure != nil && pq.unsure(d) {
			dontCare[d.id] = true
			res.Counts["unjudged_documents_near_geo_threshold"]++
			continue
		}
		if pq.match(d) {
			want = append(want, d.id)
		}
	}
	sort.Strings(want)
	res.Outcome = fmt.Sprintf("%d:%s", len(want), hash64(strings.Join(want, ",")))
	if len(want) > 0 && len(want) < pLive {
		res.Nontrivial = int64(len(pModes))
	}
	res.Key = keyPrefix + pq.text
	for _, mode := range pModes {
		res.Evals++
		ids, err := runSearch(r, mode.mk(pq.build(), 600))
		fail := ""
		if err != nil {
			fail = "error: " + err.Error()
		} else {
			fail = judge(ids, want, dontCare)
		}
		if fail != "" {
			if len(fail) > 600 {
				fail = fail[:600] + "..."
			}
			res.Failure = fmt.Sprintf("%s [%s]: %s (ids: f:<tokens> one value, g:<tokens>|<tokens> two values of one field)", pq.text, mode.name, fail)
			if err == nil && mode.name == modeNone.name && pq.defectNone != nil {
				var dw []string
				for _, d := range pDocs {
					if !d.deleted && !dontCare[d.id] && pq.defectNone(d) {
						dw = append(dw, d.id)
					}
				}
				sort.Strings(dw)
				if judge(ids, dw, dontCare) == "" {
					res.Key = keyNoneMinShould
				}
			}
			return
		}
	}
}

func phraseTotal(param string) int64 { return int64(len(phraseQueries)) }

func phraseEval(idx int64, param string) *explore.Result {
	res := &explore.Result{Counts: map[string]int64{}}
	pq := phraseQueries[idx]
	runPQuery(pq, "phrase:", res)
	if res.Failure == "" && idx%500 == 0 {
		res.Sample = map[string]interface{}{"enumeration": "c07-phrase", "query": pq.text, "expected_matches": res.Outcome, "live_documents": pLive}
	}
	return res
}

// ---------------------------------------------------------------- mixed leaves

var mixLeaves []*pQuery
var mixQueries []*pQuery

func sphereAngle(lon1, lat1, lon2, lat2 float64) float64 {
	r := math.Pi / 180
	s1 := math.Sin((lat2 - lat1) * r / 2)
	s2 := math.Sin((lon2 - lon1) * r / 2)
	h := s1*s1 + math.Cos(lat1*r)*math.Cos(lat2*r)*s2*s2
	if h > 1 {
		h = 1
	}
	return 2 * math.Asin(math.Sqrt(h))
}

// radii of curvature of the Earth lie between these bounds (metres): a distance
// is certainly <= d if angle*maxR <= d and certainly > d if angle*minR > d.
const (
	earthMinR = 6335000.0
	earthMaxR = 6400000.0
)

// distVerdict: +1 certainly within, -1 certainly outside, 0 not judged (within a
// relative 1e-3 of the threshold, or depending on the model of the Earth).
func distVerdict(lon1, lat1, lon2, lat2, meters float64) int {
	a := sphereAngle(lon1, lat1, lon2, lat2)
	if a*earthMaxR <= meters*(1-1e-3) {
		return 1
	}
	if a*earthMinR >= meters*(1+1e-3) {
		return -1
	}
	return 0
}

func initMix() {
	leaf := func(text string, build func() bluge.Query, match func(d *pDoc) bool) *pQuery {
		return &pQuery{text: text, build: build, match: match}
	}
	term := func(f, t string) *pQuery {
		return leaf("term "+f+":"+t, func() bluge.Query { return bluge.NewTermQuery(t).SetField(f) },
			func(d *pDoc) bool { return hasTerm(d, f, t) })
	}
	anyTerm := func(d *pDoc, f string, pred func(string) bool) bool {
		if d.field != f {
			return false
		}
		for _, tk := range d.toks {
			if pred(tk.term) {
				return true
			}
		}
		return false
	}
	geoLeaf := leaf("geodistance p:(20,5) 600km", func() bluge.Query { return bluge.NewGeoDistanceQuery(20, 5, "600km").SetField("p") },
		func(d *pDoc) bool { return distVerdict(20, 5, d.lon, d.lat, 600000) > 0 })
	geoLeaf.unsure = func(d *pDoc) bool { return distVerdict(20, 5, d.lon, d.lat, 600000) == 0 }
	mixLeaves = []*pQuery{
		term("f", "a"),
		term("g", "b"),
		multiPhraseQ("f", [][]string{{"a"}, {"b"}}, 0),
		multiPhraseQ("f", [][]string{{"b"}, {"a"}}, 1),
		multiPhraseQ("g", [][]string{{"a", "b"}, {"c"}}, 0),
		leaf("prefix f:a", func() bluge.Query { return bluge.NewPrefixQuery("a").SetField("f") },
			func(d *pDoc) bool { return hasTerm(d, "f", "a") }),
		leaf("wildcard g:?", func() bluge.Query { return bluge.NewWildcardQuery("?").SetField("g") },
			func(d *pDoc) bool { return anyTerm(d, "g", func(string) bool { return true }) }),
		leaf("regexp f:b|c", func() bluge.Query { return bluge.NewRegexpQuery("b|c").SetField("f") },
			func(d *pDoc) bool { return anyTerm(d, "f", func(t string) bool { return t == "b" || t == "c" }) }),
		leaf("fuzzy f:a fuzziness=1", func() bluge.Query { return bluge.NewFuzzyQuery("a").SetFuzziness(1).SetField("f") },
			func(d *pDoc) bool { return anyTerm(d, "f", func(string) bool { return true }) }),
		leaf("termrange f:[b,c)", func() bluge.Query { return bluge.NewTermRangeQuery("b", "c").SetField("f") },
			func(d *pDoc) bool { return hasTerm(d, "f", "b") }),
		leaf("numrange n:[2,4)", func() bluge.Query { return bluge.NewNumericRangeQuery(2, 4).SetField("n") },
			func(d *pDoc) bool { return d.n >= 2 && d.n < 4 }),
		leaf("geobox p:(15,12)-(35,-1)", func() bluge.Query { return bluge.NewGeoBoundingBoxQuery(15, 12, 35, -1).SetField("p") },
			func(d *pDoc) bool { return d.lon >= 15 && d.lon <= 35 && d.lat >= -1 && d.lat <= 12 }),
		geoLeaf,
		leaf("matchall", func() bluge.Query { return bluge.NewMatchAllQuery() }, func(d *pDoc) bool { return true }),
		leaf("matchnone", func() bluge.Query { return bluge.NewMatchNoneQuery() }, func(d *pDoc) bool { return false }),
		leaf("match(and) f:\"a c\"", func() bluge.Query {
			return bluge.NewMatchQuery("a c").SetField("f").SetAnalyzer(simpleAnalyzer).SetOperator(bluge.MatchQueryOperatorAnd)
		}, func(d *pDoc) bool { return hasTerm(d, "f", "a") && hasTerm(d, "f", "c") }),
		leaf("bool(-f:a)", func() bluge.Query { return bluge.NewBooleanQuery().AddMustNot(bluge.NewTermQuery("a").SetField("f")) },
			func(d *pDoc) bool { return !hasTerm(d, "f", "a") }),
		leaf("bool(+n:[1,3] [f:b g:b]~1)", func() bluge.Query {
			return bluge.NewBooleanQuery().AddMust(bluge.NewNumericRangeInclusiveQuery(1, 3, true, true).SetField("n")).
				AddShould(bluge.NewTermQuery("b").SetField("f"), bluge.NewTermQuery("b").SetField("g")).SetMinShould(1)
		}, func(d *pDoc) bool { return d.n >= 1 && d.n <= 3 && (hasTerm(d, "f", "b") || hasTerm(d, "g", "b")) }),
	}
	// the last leaf has the form of the known Score=none defect (must + two plain term shoulds, minShould=1)
	mixLeaves[len(mixLeaves)-1].defectNone = func(d *pDoc) bool { return d.n >= 1 && d.n <= 3 }
	dnOf := func(a, b *pQuery, f func(x, y bool) bool) func(d *pDoc) bool {
		if a.defectNone == nil && b.defectNone == nil {
			return nil
		}
		return func(d *pDoc) bool { return f(a.dn(d), b.dn(d)) }
	}
	and := func(x, y bool) bool { return x && y }
	andNot := func(x, y bool) bool { return x && !y }
	or := func(x, y bool) bool { return x || y }
	un := func(a, b *pQuery) func(d *pDoc) bool {
		if a.unsure == nil && b.unsure == nil {
			return nil
		}
		return func(d *pDoc) bool {
			return (a.unsure != nil && a.unsure(d)) || (b.unsure != nil && b.unsure(d))
		}
	}
	for _, l := range mixLeaves {
		mixQueries = append(mixQueries, l)
	}
	for _, a := range mixLeaves {
		for _, b := range mixLeaves {
			a, b := a, b
			mixQueries = append(mixQueries,
				&pQuery{text: "+(" + a.text + ") +(" + b.text + ")", unsure: un(a, b), defectNone: dnOf(a, b, and),
					build: func() bluge.Query { return bluge.NewBooleanQuery().AddMust(a.build(), b.build()) },
					match: func(d *pDoc) bool { return a.match(d) && b.match(d) }},
				&pQuery{text: "+(" + a.text + ") -(" + b.text + ")", unsure: un(a, b), defectNone: dnOf(a, b, andNot),
					build: func() bluge.Query { return bluge.NewBooleanQuery().AddMust(a.build()).AddMustNot(b.build()) },
					match: func(d *pDoc) bool { return a.match(d) && !b.match(d) }},
				&pQuery{text: "[(" + a.text + ") (" + b.text + ")]~2", unsure: un(a, b), defectNone: dnOf(a, b, and),
					build: func() bluge.Query { return bluge.NewBooleanQuery().AddShould(a.build(), b.build()).SetMinShould(2) },
					match: func(d *pDoc) bool { return a.match(d) && b.match(d) }},
				&pQuery{text: "[(" + a.text + ") (" + b.text + ")]~0", unsure: un(a, b), defectNone: dnOf(a, b, or),
					build: func() bluge.Query { return bluge.NewBooleanQuery().AddShould(a.build(), b.build()) },
					match: func(d *pDoc) bool { return a.match(d) || b.match(d) }},
				&pQuery{text: "+(" + a.text + ") [(" + b.text + ")]~1", unsure: un(a, b), defectNone: dnOf(a, b, and),
					build: func() bluge.Query {
						return bluge.NewBooleanQuery().AddMust(a.build()).AddShould(b.build()).SetMinShould(1)
					},
					match: func(d *pDoc) bool { return a.match(d) && b.match(d) }},
			)
		}
	}
}

func mixTotal(param string) int64 { return int64(len(mixQueries)) }

func mixEval(idx int64, param string) *explore.Result {
	res := &explore.Result{Counts: map[string]int64{}}
	pq := mixQueries[idx]
	runPQuery(pq, "mixed:", res)
	if res.Failure == "" && idx%400 == 0 {
		res.Sample = map[string]interface{}{"enumeration": "c07-mixed", "query": pq.text, "expected_matches": res.Outcome}
	}
	return res
}

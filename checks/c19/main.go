// C19: merge plans are well-formed and keep the segment count bounded.
//
//	c19-plan  mergeplan.Plan on every multiset of segments (length <= 6, thorough <= 7)
//	          over a (full, live) alphabet around the structural sizes x the options grid:
//	          terminates (step cap on the planner's size queries), tasks are subsets of the
//	          input, pairwise disjoint, within the size bounds, and the same for the same
//	          input (called twice, and with the input reversed).
//	c19-bfs   explicit-state breadth-first search over sorted multisets of (full, live):
//	          arrival of a segment of size 1 or 2, deletion of one live unit, execution of
//	          the whole current plan; in every reachable state the plan-only chain reaches
//	          an empty plan within 16 steps and there the number of eligible segments is
//	          within the staircase budget.
//
// The oracle is written from the documented meaning of the options (sums, comparisons, a
// reference staircase); it never asks the planner what it should have done.
package main

import (
	"fmt"
	"io"
	"log"
	"math"
	"os"
	"runtime"
	"sort"
	"strconv"
	"strings"
	"sync"
	"time"

	"github.com/blugelabs/bluge/index/mergeplan"

	"verif/checkmain"
	"verif/explore"
)

// ---------------------------------------------------------------- segments with a step cap

// planCtx counts the size queries of one Plan call: the planner's loops query
// LiveSize in every iteration, so a cap on the queries is a deterministic cap
// on its running time.
type planCtx struct{ calls int }

const stepCap = 200000

type stepCapExceeded struct{}

type seg struct {
	id         uint64
	full, live int64
	ctx        *planCtx
}

func (s *seg) ID() uint64      { return s.id }
func (s *seg) FullSize() int64 { return s.full }
func (s *seg) LiveSize() int64 {
	s.ctx.calls++
	if s.ctx.calls > stepCap {
		panic(stepCapExceeded{})
	}
	return s.live
}

type pair struct{ full, live int64 }

func (p pair) String() string { return fmt.Sprintf("%d/%d", p.full, p.live) }

func pairsString(ps []pair) string {
	parts := make([]string, len(ps))
	for i, p := range ps {
		parts[i] = p.String()
	}
	return "[" + strings.Join(parts, " ") + "]"
}

func mkSegs(ps []pair, ctx *planCtx) []mergeplan.Segment {
	out := make([]mergeplan.Segment, len(ps))
	for i, p := range ps {
		out[i] = &seg{id: uint64(i + 1), full: p.full, live: p.live, ctx: ctx}
	}
	return out
}

// callPlan runs Plan under the step cap; the result is the list of tasks as
// lists of indexes into the input (-1 for a segment that is not one of the
// input segments).
func callPlan(segs []mergeplan.Segment, o *mergeplan.Options, ctx *planCtx) (tasks [][]int, isNil bool, failure string) {
	ctx.calls = 0
	defer func() {
		if p := recover(); p != nil {
			if _, ok := p.(stepCapExceeded); ok {
				failure = fmt.Sprintf("does not terminate: more than %d size queries for %d segments", stepCap, len(segs))
				return
			}
			failure = fmt.Sprintf("panics: %v", p)
		}
	}()
	plan, err := mergeplan.Plan(segs, o)
	if err != nil {
		return nil, false, "returns an error: " + err.Error()
	}
	if plan == nil {
		return nil, true, ""
	}
	index := make(map[mergeplan.Segment]int, len(segs))
	for i, s := range segs {
		index[s] = i
	}
	for _, t := range plan.Tasks {
		if t == nil {
			return nil, false, "returns a nil task"
		}
		var ids []int
		for _, s := range t.Segments {
			i, ok := index[s]
			if !ok {
				i = -1
			}
			ids = append(ids, i)
		}
		tasks = append(tasks, ids)
	}
	return tasks, false, ""
}

// ---------------------------------------------------------------- options

type opts struct {
	M, F       int64
	T, S       int
	G, R       float64
	budgetOnly bool
}

func (o opts) String() string {
	return fmt.Sprintf("MaxSegmentSize=%d,Floor=%d,PerTier=%d,PerTask=%d,Growth=%g,Reclaim=%g", o.M, o.F, o.T, o.S, o.G, o.R)
}

func (o opts) options() *mergeplan.Options {
	return &mergeplan.Options{MaxSegmentsPerTier: o.T, MaxSegmentSize: o.M, TierGrowth: o.G, SegmentsPerMergeTask: o.S, FloorSegmentSize: o.F, ReclaimDeletesWeight: o.R}
}

var gridM = []int64{20, 100}
var gridF = []int64{1, 5}
var gridT = []int{2, 3, 10}
var gridS = []int{2, 3, 10}

// (TierGrowth, ReclaimDeletesWeight): the full 2x2 grid of the integer growth
// values, and the non-integer / unit growth values with one weight each
// (growth only enters the budget, the weight only the roster score)
var gridGR = [][2]float64{{2, 0}, {2, 2}, {10, 0}, {10, 2}, {1.5, 2}, {2.5, 0}, {1, 2}}

func innerOpts(M, F int64) []opts {
	var out []opts
	for _, t := range gridT {
		for _, s := range gridS {
			for _, gr := range gridGR {
				out = append(out, opts{M: M, F: F, T: t, S: s, G: gr[0], R: gr[1]})
			}
		}
	}
	return out
}

// ---------------------------------------------------------------- (a) every segment list

// the (full, live) alphabet for one (MaxSegmentSize, FloorSegmentSize)
func alphabet(M, F int64, thorough bool) []pair {
	h := M / 2
	seen := map[pair]bool{}
	var out []pair
	add := func(full, live int64) {
		p := pair{full, live}
		if live < 0 || live > full || seen[p] {
			return
		}
		seen[p] = true
		out = append(out, p)
	}
	f2 := F
	if f2 < 2 {
		f2 = 2
	}
	if !thorough {
		for _, l := range []int64{0, 1, f2, h - 1, h, M - 1, M + 1} {
			add(l, l)
		}
		add(M+1, 0)
		add(3, 1)
		add(2*f2+1, f2)
		add(M, h-1)
		add(M+1, h-1)
		add(M+1, h)
		return out
	}
	grid := []int64{0, 1, F - 1, F, F + 1, h - 1, h, h + 1, M - 1, M, M + 1}
	for _, l := range grid {
		add(l, l)
	}
	for _, l := range []int64{0, 1, f2, h - 1, h} {
		add(2*l+1, l)
		add(M+1, l)
	}
	add(M, h-1)
	return out
}

// number of multisets of size k over n symbols
func multisets(n, k int) int64 {
	// C(n+k-1, k)
	if k == 0 {
		return 1
	}
	if n == 0 {
		return 0
	}
	r := int64(1)
	for i := 1; i <= k; i++ {
		r = r * int64(n+k-i) / int64(i)
	}
	return r
}

// multiset number r (0-based, shortest first, then lexicographic) of size <= L over n symbols
func unrank(n, L int, r int64) []int {
	k := 0
	for ; k <= L; k++ {
		c := multisets(n, k)
		if r < c {
			break
		}
		r -= c
	}
	out := make([]int, 0, k)
	lo := 0
	for rem := k; rem > 0; rem-- {
		for a := lo; a < n; a++ {
			c := multisets(n-a, rem-1) // the rest is drawn from a..n-1
			if r < c {
				out = append(out, a)
				lo = a
				break
			}
			r -= c
		}
	}
	return out
}

func listsUpTo(n, L int) int64 {
	var t int64
	for k := 0; k <= L; k++ {
		t += multisets(n, k)
	}
	return t
}

type planSpace struct {
	M, F  int64
	alpha []pair
	n     int64
	inner []opts
}

var planSpaces = map[string][]planSpace{}

func spaces(param string) []planSpace {
	if s, ok := planSpaces[param]; ok {
		return s
	}
	th := param == "thorough"
	L := 6
	if th {
		L = 7
	}
	var out []planSpace
	for _, M := range gridM {
		for _, F := range gridF {
			a := alphabet(M, F, th)
			out = append(out, planSpace{M: M, F: F, alpha: a, n: listsUpTo(len(a), L), inner: innerOpts(M, F)})
		}
	}
	planSpaces[param] = out
	return out
}

func maxLen(param string) int {
	if param == "thorough" {
		return 7
	}
	return 6
}

func planTotal(param string) int64 {
	var t int64
	for _, s := range spaces(param) {
		t += s.n
	}
	return t
}

func equalTasks(a, b [][]int) bool {
	if len(a) != len(b) {
		return false
	}
	for i := range a {
		if len(a[i]) != len(b[i]) {
			return false
		}
		for j := range a[i] {
			if a[i][j] != b[i][j] {
				return false
			}
		}
	}
	return true
}

func tasksString(ps []pair, tasks [][]int) string {
	var parts []string
	for _, t := range tasks {
		var m []string
		for _, i := range t {
			if i < 0 {
				m = append(m, "?")
			} else {
				m = append(m, fmt.Sprintf("#%d:%s", i+1, ps[i]))
			}
		}
		parts = append(parts, "{"+strings.Join(m, " ")+"}")
	}
	return strings.Join(parts, " ")
}

// wellFormed judges one plan against the statement; "" = fine
func wellFormed(ps []pair, o opts, tasks [][]int) (what, detail string) {
	used := make([]int, len(ps))
	for ti, t := range tasks {
		var sum int64
		for _, i := range t {
			if i < 0 {
				return "foreign-segment", fmt.Sprintf("task %d contains a segment that is not part of the input", ti)
			}
			used[i]++
			if used[i] > 1 {
				return "segment-twice", fmt.Sprintf("segment #%d (%s) is placed in two tasks (or twice in one)", i+1, ps[i])
			}
			sum += ps[i].live
			if 2*ps[i].live > o.M {
				return "member-above-half", fmt.Sprintf("task %d touches segment #%d (%s) whose live size is above half of MaxSegmentSize %d", ti, i+1, ps[i], o.M)
			}
		}
		if sum > o.M {
			return "task-over-max", fmt.Sprintf("task %d combines %d live units, more than MaxSegmentSize %d", ti, sum, o.M)
		}
	}
	return "", ""
}

func planEval(idx int64, param string) *explore.Result {
	var sp planSpace
	for _, s := range spaces(param) {
		if idx < s.n {
			sp = s
			break
		}
		idx -= s.n
	}
	sel := unrank(len(sp.alpha), maxLen(param), idx)
	ps := make([]pair, len(sel))
	for i, a := range sel {
		ps[i] = sp.alpha[a]
	}
	res := &explore.Result{Counts: map[string]int64{}}
	ctx := &planCtx{}
	segs := mkSegs(ps, ctx)
	rev := make([]mergeplan.Segment, len(segs))
	for i, s := range segs {
		rev[len(segs)-1-i] = s
	}
	revIndex := func(tasks [][]int) [][]int { // indexes of rev back to indexes of segs
		out := make([][]int, len(tasks))
		for i, t := range tasks {
			for _, j := range t {
				if j >= 0 {
					j = len(segs) - 1 - j
				}
				out[i] = append(out[i], j)
			}
		}
		return out
	}
	var outcome strings.Builder
	for _, o := range sp.inner {
		res.Evals++
		fail := func(what, f string, a ...interface{}) *explore.Result {
			res.Key = fmt.Sprintf("plan:%s:segs=%s:%s", o, pairsString(ps), what)
			res.Failure = fmt.Sprintf("Plan(%s, %s) ", pairsString(ps), o) + fmt.Sprintf(f, a...)
			return res
		}
		mo := o.options()
		t1, nil1, f1 := callPlan(segs, mo, ctx)
		if f1 != "" {
			return fail("plan-call", "%s", f1)
		}
		if what, detail := wellFormed(ps, o, t1); what != "" {
			return fail(what, "= %s: %s", tasksString(ps, t1), detail)
		}
		t2, nil2, f2 := callPlan(segs, mo, ctx)
		if f2 != "" {
			return fail("plan-call-2", "(second call) %s", f2)
		}
		if nil1 != nil2 || !equalTasks(t1, t2) {
			return fail("not-deterministic", "gives %s and then %s for the same input", tasksString(ps, t1), tasksString(ps, t2))
		}
		t3, nil3, f3 := callPlan(rev, mo, ctx)
		if f3 != "" {
			return fail("plan-call-reversed", "(input reversed) %s", f3)
		}
		t3 = revIndex(t3)
		if nil1 != nil3 || !equalTasks(t1, t3) {
			return fail("order-dependent", "gives %s, but %s when the same segments are passed in reverse order", tasksString(ps, t1), tasksString(ps, t3))
		}
		// applying the plans alone comes to rest within the budget
		if v := judgeState(state(ps), o, ctx); v.failure != "" {
			return fail(v.what, "and the plans that follow: %s", v.failure)
		} else if v.chain >= 3 {
			res.Counts["chains_of_3_or_more_plans"]++
		}
		for i, s := range segs { // the input slice itself is left alone
			if s.(*seg).id != uint64(i+1) {
				return fail("input-reordered", "reorders its input slice")
			}
		}
		if len(t1) > 0 {
			res.Nontrivial++
			res.Counts["plans_with_tasks"]++
			res.Counts["tasks"] += int64(len(t1))
			for _, t := range t1 {
				if len(t) == 1 {
					res.Counts["single_segment_tasks"]++
					if p := ps[t[0]]; p.live == p.full && p.live > 0 {
						res.Counts["single_segment_tasks_without_deletions"]++ // rewrites a segment into an identical one
					}
				}
				if len(t) > o.S {
					res.Counts["tasks_longer_than_SegmentsPerMergeTask"]++
				}
				var sum int64
				for _, i := range t {
					sum += ps[i].live
				}
				if sum == o.M-1 {
					res.Counts["tasks_at_MaxSegmentSize_minus_1"]++
				}
			}
		}
		outcome.WriteString(strconv.Itoa(len(t1)))
		for _, t := range t1 {
			outcome.WriteByte(':')
			outcome.WriteString(strconv.Itoa(len(t)))
		}
		outcome.WriteByte(' ')
		if idx%4999 == 7 && len(t1) > 0 && o.T == 2 && o.S == 3 && o.G == 2 && o.R == 2 {
			res.Sample = map[string]interface{}{"segments(full/live)": pairsString(ps), "options": o.String(), "plan": tasksString(ps, t1)}
		}
	}
	res.Outcome = fmt.Sprintf("%d/%d %s|%s", sp.M, sp.F, pairsString(ps), outcome.String())
	return res
}

// ---------------------------------------------------------------- reference budget

// refBudget climbs the staircase the options describe: tiers of segment size
// first, first*growth, first*growth^2, ..., at most perTier segments on each,
// until totalSize is covered; the last, partly filled tier counts the segments
// it needs.
func refBudget(totalSize, first int64, o opts) int {
	tier := first
	if tier < 1 {
		tier = 1
	}
	perTier := o.T
	if perTier < 1 {
		perTier = 1
	}
	growth := o.G
	if growth < 1 {
		growth = 1
	}
	n := 0
	for totalSize > 0 {
		need := float64(totalSize) / float64(tier)
		if need < float64(perTier) {
			n += int(math.Ceil(need))
			break
		}
		n += perTier
		totalSize -= int64(perTier) * tier
		tier = int64(float64(tier) * growth)
	}
	return n
}

// ---------------------------------------------------------------- CalcBudget itself

var budFirst = []int64{1, 2, 3, 5, 7, 2000}
var budT = []int{1, 2, 3, 10}
var budG = []float64{1, 1.25, 1.5, 2, 2.5, 3, 10}

func budgetTotal(string) int64 { return int64(len(budFirst) * len(budT) * len(budG)) }

// budgetEval: for one (first tier size, MaxSegmentsPerTier, TierGrowth), CalcBudget
// over every total 0..400*first-ish must be the staircase of the options, and for
// a growth factor above 1 the staircase must actually grow: 16 full first tiers of
// data need fewer than 16 tiers' worth of segments.
func budgetEval(idx int64, _ string) *explore.Result {
	i := int(idx)
	g := budG[i%len(budG)]
	i /= len(budG)
	t := budT[i%len(budT)]
	i /= len(budT)
	first := budFirst[i]
	o := opts{M: 1 << 30, F: first, T: t, S: 2, G: g}
	mo := o.options()
	res := &explore.Result{Outcome: fmt.Sprintf("first=%d,T=%d,G=%g", first, t, g)}
	var totals []int64
	for k := int64(0); k <= 64; k++ {
		totals = append(totals, k, k*first, k*first+1, k*first*int64(t), k*first*int64(t)-1, k*k*first*int64(t)+k)
	}
	last := -1
	sort.Slice(totals, func(a, b int) bool { return totals[a] < totals[b] })
	for _, total := range totals {
		if total < 0 {
			continue
		}
		res.Evals++
		got := mergeplan.CalcBudget(total, first, mo)
		want := refBudget(total, first, o)
		if got != want {
			res.Key = fmt.Sprintf("budget:total=%d,firstTier=%d,PerTier=%d,Growth=%g:not-the-staircase", total, first, t, g)
			res.Failure = fmt.Sprintf("CalcBudget(total=%d, firstTier=%d, MaxSegmentsPerTier=%d, TierGrowth=%g) = %d but the staircase the options describe needs %d segments", total, first, t, g, got, want)
			return res
		}
		if got < last {
			res.Key = fmt.Sprintf("budget:total=%d,firstTier=%d,PerTier=%d,Growth=%g:not-monotone", total, first, t, g)
			res.Failure = fmt.Sprintf("CalcBudget(total=%d, firstTier=%d, MaxSegmentsPerTier=%d, TierGrowth=%g) = %d is smaller than the budget %d of a smaller total", total, first, t, g, got, last)
			return res
		}
		last = got
		if got > 0 {
			res.Nontrivial++
		}
	}
	if g > 1 {
		res.Evals++
		total := 16 * int64(t) * first
		got := mergeplan.CalcBudget(total, first, mo)
		if got >= 16*t {
			res.Key = fmt.Sprintf("budget:firstTier=%d,Growth=%g:tiers-never-grow", first, g)
			res.Failure = fmt.Sprintf("CalcBudget(total=%d, firstTier=%d, MaxSegmentsPerTier=%d, TierGrowth=%g) = %d = total/firstTier: with a growth factor of %g every tier still has the size of the first one, the budget is linear in the data size instead of logarithmic (segments of the first tier size are never merged however many arrive)", total, first, t, g, got, g)
			return res
		}
	}
	return res
}

// ---------------------------------------------------------------- (b) explicit-state search

type state []pair // sorted by (live, full)

func (s state) key() string {
	b := make([]byte, 0, 2*len(s))
	for _, p := range s {
		b = append(b, byte(p.full), byte(p.live))
	}
	return string(b)
}

func stateOf(key string) state {
	s := make(state, 0, len(key)/2)
	for i := 0; i+1 < len(key); i += 2 {
		s = append(s, pair{int64(key[i]), int64(key[i+1])})
	}
	return s
}

func (s state) canon() state {
	sort.Slice(s, func(i, j int) bool {
		if s[i].live != s[j].live {
			return s[i].live < s[j].live
		}
		return s[i].full < s[j].full
	})
	return s
}

func (s state) with(p pair) state {
	out := make(state, 0, len(s)+1)
	out = append(out, s...)
	out = append(out, p)
	return out.canon()
}

// execute a whole plan: every task becomes one segment of the summed live size
// (nothing if that is zero: empty segments are dropped by the merger)
func (s state) exec(tasks [][]int) state {
	gone := make([]bool, len(s))
	var out state
	for _, t := range tasks {
		var sum int64
		for _, i := range t {
			gone[i] = true
			sum += s[i].live
		}
		if sum > 0 {
			out = append(out, pair{sum, sum})
		}
	}
	for i, p := range s {
		if !gone[i] {
			out = append(out, p)
		}
	}
	return out.canon()
}

var bfsOpts = []opts{
	{M: 20, F: 1, T: 2, S: 2, G: 2, R: 2},
	{M: 20, F: 5, T: 3, S: 3, G: 2, R: 0},
	{M: 20, F: 1, T: 3, S: 10, G: 10, R: 2},
	{M: 20, F: 2, T: 2, S: 2, G: 1.5, R: 2}, // non-integer growth: tiers 2, 3, 4, 6, 9, ...
	{M: 20, F: 1, T: 3, S: 3, G: 2.5, R: 0}, // tiers 1, 2, 5, 12, ...
	{M: 20, F: 5, T: 10, S: 10, G: 10, R: 2},
	{M: 20, F: 1, T: 2, S: 3, G: 10, R: 0},
}

const chainBound = 16

type stateVerdict struct {
	failure, what string
	chain         int
	planned       bool
	next          string // plan successor ("" if the plan is empty)
	eligibleFix   int
}

// judgeState: the plan-only chain from s must reach an empty plan within
// chainBound steps; at that fixpoint #eligible <= budget.
func judgeState(s state, o opts, ctx *planCtx) stateVerdict {
	mo := o.options()
	var v stateVerdict
	cur := s
	seen := map[string]int{cur.key(): 0}
	for step := 0; ; step++ {
		tasks, _, f := callPlan(mkSegs(cur, ctx), mo, ctx)
		if f != "" {
			v.what, v.failure = "plan-call", fmt.Sprintf("Plan(%s) %s", pairsString(cur), f)
			return v
		}
		if what, detail := wellFormed(cur, o, tasks); what != "" {
			v.what, v.failure = what, fmt.Sprintf("Plan(%s) = %s: %s", pairsString(cur), tasksString(cur, tasks), detail)
			return v
		}
		if len(tasks) == 0 {
			v.chain = step
			break
		}
		if step == 0 {
			v.planned = true
		}
		if step >= chainBound {
			v.what, v.failure = "chain-too-long", fmt.Sprintf("applying the plans alone does not reach a state without further work within %d steps (now at %s)", chainBound, pairsString(cur))
			return v
		}
		nxt := cur.exec(tasks)
		if step == 0 {
			v.next = nxt.key()
		}
		if at, dup := seen[nxt.key()]; dup {
			v.what = "plan-cycle"
			v.failure = fmt.Sprintf("applying the plans alone never comes to rest: after %d steps the state %s is reached again (first seen after %d steps); the plan there is %s", step+1, pairsString(nxt), at, tasksString(cur, tasks))
			return v
		}
		seen[nxt.key()] = step + 1
		cur = nxt
	}
	// fixpoint: count the eligible segments as the planner defines eligibility
	var eligible int
	var total int64
	minLive := int64(math.MaxInt64)
	for _, p := range cur {
		if p.live < minLive {
			minLive = p.live
		}
		if p.live < o.M/2 {
			eligible++
			total += p.live
		}
	}
	v.eligibleFix = eligible
	if len(cur) == 0 {
		return v
	}
	first := minLive
	if first < o.F {
		first = o.F
	}
	want := refBudget(total, first, o)
	if got := mergeplan.CalcBudget(total, first, mo); got != want {
		v.what = "budget-not-the-staircase"
		v.failure = fmt.Sprintf("CalcBudget(total=%d, firstTier=%d) = %d but the staircase the options describe needs %d segments (state %s)", total, first, got, want, pairsString(cur))
		return v
	}
	bound := want
	if bound < 1 {
		bound = 1 // a single segment is never planned
	}
	if eligible > bound {
		v.what = "over-budget-at-rest"
		v.failure = fmt.Sprintf("at rest in %s (reached from %s by plans alone) %d segments are eligible for merging but the budget for %d live units on a first tier of %d is %d", pairsString(cur), pairsString(s), eligible, total, first, want)
	}
	return v
}

func bfsDepth(param string) int {
	if v := os.Getenv("C19_DEPTH"); v != "" { // development aid
		n, _ := strconv.Atoi(v)
		return n
	}
	if param == "thorough" {
		return 20
	}
	return 14
}

func bfsTotal(param string) int64 {
	if param == "thorough" {
		return int64(len(bfsOpts))
	}
	return 5
}

var bfsBudget time.Duration // per option set; 0 = unlimited

func bfsEval(idx int64, param string) *explore.Result {
	o := bfsOpts[idx]
	depth := bfsDepth(param)
	res := &explore.Result{Counts: map[string]int64{}, Flags: map[string]bool{}}
	workers := runtime.NumCPU()
	if v := os.Getenv("VERIF_WORKERS"); v != "" {
		if n, err := strconv.Atoi(v); err == nil && n > 0 {
			workers = n
		}
	}
	if workers > 16 {
		workers = 16
	}
	var bfsDeadline time.Time
	if bfsBudget > 0 {
		bfsDeadline = time.Now().Add(bfsBudget)
	}
	visited := map[string]bool{"": true}
	frontier := []string{""}
	var states, transitions, planned, maxChain, maxEligible, maxSegs int64
	var longest string
	type out struct {
		v    stateVerdict
		succ []string
	}
	for d := 0; d <= depth && len(frontier) > 0; d++ {
		if !bfsDeadline.IsZero() && time.Now().After(bfsDeadline) {
			res.Flags["bfs_cut_by_time_budget"] = true
			res.Counts["bfs_depth_completed"] = int64(d - 1)
			break
		}
		outs := make([]out, len(frontier))
		var wg sync.WaitGroup
		chunk := (len(frontier) + workers - 1) / workers
		for w := 0; w < workers; w++ {
			lo, hi := w*chunk, (w+1)*chunk
			if hi > len(frontier) {
				hi = len(frontier)
			}
			if lo >= hi {
				break
			}
			wg.Add(1)
			go func(lo, hi int) {
				defer wg.Done()
				ctx := &planCtx{}
				for i := lo; i < hi; i++ {
					s := stateOf(frontier[i])
					v := judgeState(s, o, ctx)
					outs[i].v = v
					if v.failure != "" || d == depth {
						continue
					}
					var succ []string
					succ = append(succ, s.with(pair{1, 1}).key(), s.with(pair{2, 2}).key())
					for j, p := range s {
						if p.live == 0 || (j > 0 && s[j-1] == p) {
							continue
						}
						t := append(state(nil), s...)
						t[j].live--
						succ = append(succ, t.canon().key())
					}
					if v.next != "" {
						succ = append(succ, v.next)
					}
					outs[i].succ = succ
				}
			}(lo, hi)
		}
		wg.Wait()
		var next []string
		for i, k := range frontier {
			states++
			v := outs[i].v
			if v.failure != "" {
				s := stateOf(k)
				res.Key = fmt.Sprintf("bfs:%s:state=%s:%s", o, pairsString(s), v.what)
				res.Failure = fmt.Sprintf("%s, state %s reached after %d transitions: %s", o, pairsString(s), d, v.failure)
				res.Evals = states
				return res
			}
			if v.planned {
				planned++
			}
			if int64(v.chain) > maxChain {
				maxChain = int64(v.chain)
				longest = k
			}
			if int64(v.eligibleFix) > maxEligible {
				maxEligible = int64(v.eligibleFix)
			}
			if int64(len(k)/2) > maxSegs {
				maxSegs = int64(len(k) / 2)
			}
			transitions += int64(len(outs[i].succ))
			for _, sk := range outs[i].succ {
				if !visited[sk] {
					visited[sk] = true
					next = append(next, sk)
				}
			}
		}
		res.Counts["bfs_depth_completed"] = int64(d)
		sort.Strings(next)
		frontier = next
	}
	res.Evals = states
	res.Nontrivial = planned
	res.Counts["bfs_states"] = states
	res.Counts["bfs_transitions"] = transitions
	res.Counts["bfs_states_with_nonempty_plan"] = planned
	tag := fmt.Sprintf("[options %d]", idx)
	res.Counts["bfs_states"+tag] = states
	res.Counts["bfs_depth_completed"+tag] = res.Counts["bfs_depth_completed"]
	delete(res.Counts, "bfs_depth_completed")
	res.Counts["bfs_longest_plan_chain"+tag] = maxChain
	res.Counts["bfs_max_eligible_at_rest"+tag] = maxEligible
	res.Counts["bfs_max_segments_in_a_state"+tag] = maxSegs
	res.Outcome = fmt.Sprintf("%s states=%d transitions=%d chain=%d", o, states, transitions, maxChain)
	res.Sample = map[string]interface{}{"bfs_options": o.String(), "depth": depth, "states": states, "transitions": transitions,
		"longest_plan_chain": maxChain, "state_with_longest_chain(full/live)": pairsString(stateOf(longest)), "max_eligible_segments_at_rest": maxEligible}
	return res
}

// ---------------------------------------------------------------- main

var lastBeat = time.Now()

func main() {
	log.SetOutput(io.Discard)
	explore.RegisterEnum("c19-plan", planTotal, func(idx int64, param string) *explore.Result {
		lastBeat = time.Now()
		return planEval(idx, param)
	})
	explore.RegisterEnum("c19-bfs", bfsTotal, bfsEval)
	explore.RegisterEnum("c19-budget", budgetTotal, budgetEval)
	if os.Getenv("VERIF_WORKER") != "" {
		go func() { // a planner spinning without size queries would hang the worker: die instead, the driver isolates the case
			for {
				time.Sleep(5 * time.Second)
				if time.Since(lastBeat) > 120*time.Second {
					os.Exit(3)
				}
			}
		}()
	}
	explore.WorkerMain()
	c := checkmain.New("C19")
	if v := c.IsReplay(); v != nil {
		c.RunReplay(v)
	}
	param := "quick"
	if c.Thorough() {
		param = "thorough"
	}
	var alph []string
	for _, s := range spaces(param) {
		alph = append(alph, fmt.Sprintf("Max=%d,Floor=%d: %s (%d lists)", s.M, s.F, pairsString(s.alpha), s.n))
	}
	c.Rule = fmt.Sprintf("(a) every multiset of at most %d segments over the (full/live) alphabet of each (MaxSegmentSize, FloorSegmentSize) in {20,100}x{1,5} [%s] x MaxSegmentsPerTier {2,3,10} x SegmentsPerMergeTask {2,3,10} x (TierGrowth, ReclaimDeletesWeight) in {2,10}x{0,2} + {(1.5,2),(2.5,0),(1,2)}; each (list, options) is a distinct input, non-trivial when the plan has at least one task. "+
		"(b) breadth-first search to depth %d from the empty index for %d option sets with MaxSegmentSize 20: states are sorted multisets of (full, live); arrival of a segment of 1 or 2, deletion of one live unit of one segment, execution of the whole plan; every state is distinct (visited set), non-trivial when its plan is not empty",
		maxLen(param), strings.Join(alph, "; "), bfsDepth(param), bfsTotal(param))
	c.Explanation = "bounded-exhaustive enumeration of mergeplan.Plan inputs and an explicit-state search over size-only histories; oracle: membership/disjointness by segment identity, sums and comparisons of the sizes (sum of live <= MaxSegmentSize, no member with live above MaxSegmentSize/2), equality of repeated / reversed calls, termination by a cap on the planner's size queries, and at every plan fixpoint #eligible <= max(1, staircase budget) with a reference staircase written from the option documentation (CalcBudget must agree with it)"
	c.Assumptions = []string{
		"the bounds are those of the statement (no more live data than MaxSegmentSize in a task, no member above half of it, by live size); the implementation is stricter (sum < MaxSegmentSize, live < MaxSegmentSize/2), how often it reaches its own bound is in the counts",
		"termination is judged by a cap of 200000 LiveSize queries per Plan call (every loop of the planner queries sizes); a watchdog ends a worker that makes no progress for 120 s",
		"in the search the segment ids are assigned in canonical (live, full) order, i.e. ties between equal live sizes are broken in one fixed way; sizes are document counts as in index.segmentSnapshot; an all-empty task produces no segment",
		"a single remaining segment is never planned (Plan returns nil for fewer than two segments), so the bound at rest is max(1, budget)",
	}
	st := explore.Enumerate(explore.EnumConfig{Name: "c19-plan", Param: param, Budget: c.PickD(40*time.Second, 8*time.Minute), CrashIsViolation: true})
	c.AddEnum(st)
	c.AddEnum(explore.Enumerate(explore.EnumConfig{Name: "c19-budget", Param: param, InProc: true}))
	bfsBudget = c.PickD(40*time.Second, 6*time.Minute) / time.Duration(bfsTotal(param))
	sb := explore.Enumerate(explore.EnumConfig{Name: "c19-bfs", Param: param, InProc: true, Chunk: 1})
	c.AddEnum(sb)
	if sb.Flags["bfs_cut_by_time_budget"] {
		c.NotExhaustive()
	}
	// the search's own states and transitions (AddEnum counted the option sets as states)
	c.AddCounts(sb.Counts["bfs_states"], sb.Counts["bfs_transitions"], 0, 0, 0)
	c.Finish()
}

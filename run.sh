#!/bin/bash
# run.sh <ID> quick|thorough            run the check of one property
# run.sh <ID> replay <file>             re-execute one recorded violation
# Rebuilds the check binary from the repository's working tree every time; the generated overlay is
# reused only when the digest of all its inputs is unchanged (VERIF_FORCE_REWRITE=1 regenerates anyway).
# VERIF_REPO=<dir>  check that tree instead of /repo (used by mutate.sh on scratch worktrees);
#                   evidence and replays then go to build/alt/<name>/ instead of /verif.
set -u
cd "$(dirname "$0")"
V=$(pwd)
ID=${1:?usage: run.sh <ID> quick|thorough|replay [file]}
TIER=${2:-${VERIF_TIER:-quick}}
shift; shift || true
export GOFLAGS=-mod=mod GOPROXY=off GOSUMDB=off GOTOOLCHAIN=local
export GOCACHE=$V/build/gocache
export VERIF_ROOT=$V
REPO=${VERIF_REPO:-/repo}
id=$(echo "$ID" | tr 'A-Z' 'a-z')
mkdir -p build/bin build/ov evidence
OVDIR=build/ov
BIN=build/bin/$id
MODFLAG=""
if [ "$REPO" != "/repo" ]; then
  name=$(echo "$REPO" | tr -c 'A-Za-z0-9' '_')
  ALT=build/alt/$name
  mkdir -p $ALT/ov $ALT/out
  sed "s#=> /repo#=> $REPO#" go.mod > $ALT/go.mod
  cp $REPO/go.sum $ALT/go.sum
  OVDIR=$ALT/ov
  BIN=$ALT/$id
  MODFLAG="-modfile=$ALT/go.mod"
  export VERIF_OUT=$V/$ALT/out
else
  cp /repo/go.sum go.sum 2>/dev/null
fi
LOCK=$OVDIR/.build.lock
(
  flock 9
  if [ ! -x build/bin/mcrewrite ] || [ cmd/mcrewrite/main.go -nt build/bin/mcrewrite ]; then
    go build -o build/bin/mcrewrite ./cmd/mcrewrite || exit 2
  fi
  # the overlay is a pure function of: the non-test sources of package index and the packages below it,
  # go.mod/go.sum, the shim, the hook files and the generator; it is regenerated whenever the digest of
  # those inputs (for this tree, at this path) differs from the one it was generated from
  KEY=$( { echo "$REPO"; sha256sum build/bin/mcrewrite $REPO/go.mod $REPO/go.sum; find $REPO/index mc hooks -type f -name '*.go' ! -name '*_test.go' | LC_ALL=C sort | xargs sha256sum; } 2>&1 | sha256sum | cut -d' ' -f1)
  if [ ! -f $OVDIR/overlay.json ] || [ ! -f $OVDIR/overlay_os.json ] || [ "$(cat $OVDIR/.key 2>/dev/null)" != "$KEY" ] || [ -n "${VERIF_FORCE_REWRITE:-}" ]; then
    rm -f $OVDIR/.key
    build/bin/mcrewrite -repo $REPO -out $OVDIR -shim mc -hooks hooks >$OVDIR/rewrite.log 2>&1 || { cat $OVDIR/rewrite.log; exit 2; }
    echo "$KEY" > $OVDIR/.key
  fi
  RACE=""
  [ -f checks/$id/RACE ] && RACE="-race"
  OV=$OVDIR/overlay.json
  [ -f checks/$id/OSHOOK ] && OV=$OVDIR/overlay_os.json
  go build $MODFLAG $RACE -overlay $OV -o $BIN ./checks/$id || exit 2
) 9>$LOCK
rc=$?
if [ $rc -ne 0 ]; then
  echo "BUILD-ERROR property=$ID (overlay or check binary did not build from the current tree)"
  exit 2
fi
if [ -f checks/$id/RACE ]; then
  # the driver process of a race build logs detector reports to its own file
  export VERIF_RACE_BUILD=1
  export VERIF_RACE_LOG=/dev/shm/verif-race-driver-$$
  export GORACE="log_path=$VERIF_RACE_LOG halt_on_error=0 exitcode=0"
  $BIN "$TIER" "$@"
  rc=$?
  rm -f $VERIF_RACE_LOG.*
  exit $rc
fi
exec $BIN "$TIER" "$@"

// C03: crash recovery is atomic, prefix-consistent and repeatable.
//
// Same runs as C02, judged with the recovery oracle: opening any crash image
// (all torn variants) never faults, succeeds whenever a snapshot had been
// completed, exposes the abstract index after SOME prefix of the batches; a
// writer opened on the image accepts a continuation whose own crash images
// (depth 2) are judged against the cumulative model.
package main

import (
	"io"
	"log"
	"os"
	"strings"
	"time"

	"github.com/blugelabs/bluge/verifmc"

	"verif/checkmain"
	"verif/crashcheck"
	"verif/explore"
	"verif/recovery"
)

var mode = crashcheck.Mode{CheckOpen: true, Depth: 2, Conformance: false, WriterOpen: true}

func run(opts verifmc.Options, param string) (*verifmc.Sched, *explore.Result) {
	sc := crashcheck.Scenarios[param]
	return crashcheck.Run("c03/"+param, sc, mode, opts, nil)
}

func main() {
	log.SetOutput(io.Discard)
	if os.Getenv("VERIF_TIER_INTERNAL") == "thorough" || (len(os.Args) > 1 && os.Args[1] == "thorough") {
		mode.NoMMapToo = true
	}
	explore.Register("c03", run)
	if os.Getenv("VERIF_WORKER") != "" {
		defer recovery.Cleanup()
	}
	explore.WorkerMain()
	c := checkmain.New("C03")
	if v := c.IsReplay(); v != nil {
		c.RunReplay(v)
	}
	defer recovery.Cleanup()
	c.Rule = "depth-2 crash/recover/continue/crash: every schedule within the deviation bound of 7 writer scenarios (safe / unsafe+callbacks, 1-2 clients, eager merges, retention 1 and 2) x every crash image of the recorded storage trace: all operation boundaries, every subset of a clean-up batch, and for the persist in flight every prefix length (all for snapshots, structural set for segments; thorough: all), zero-filled and stale-tail variants; distinct_nontrivial = distinct (schedule outcome) storage traces"
	c.Explanation = "stateless exploration of the real writer on the crashfs device; each distinct crash image is materialised on tmpfs and opened with the real FileSystemDirectory (mmap loader; thorough: both loaders); oracle: open never panics or faults, succeeds whenever some snapshot Persist had completed, recovered content = abstract index after some prefix of the batches (never part of a batch); on every distinct image a writer is also opened (crashfs copy, default schedule: oldest-to-newest snapshot walk, deletion policy, clean-up on open) and must show what OpenReader recovered, and the directory it leaves must still recover to the same content; on every structural image of the default schedule's trace (thorough: all schedules) a continuation batch is applied, and every crash image of that second life recovered and compared with recovered-content + prefix of the continuation containing its acknowledged batches"
	c.Assumptions = []string{
		"directory entries of files whose Persist returned are durable (the property only demands the file flush, C13)",
		"removals take effect in trace order, except that every subset of one clean-up batch is considered",
		"schedules beyond the deviation bound are not explored",
	}
	names := []string{"safe3", "unsafe3cb", "safe2x1", "safe2x2", "merge4", "safe3keep2", "unsafe4merge", "unsafe3del-cf", "unsafe3upd-cf", "merge-late", "safe2x1+rev", "safe2x2+rr"}
	if c.Thorough() {
		names = append(names, "safe2x1+rr", "merge-late+rr", "unsafe3cb+rr", "unsafe4merge+rr")
	}
	if os.Getenv("VERIF_ONLY") != "" {
		names = strings.Split(os.Getenv("VERIF_ONLY"), ",")
	}
	bound := c.Pick(1, 2)
	_ = bound
	budget := c.PickD(140*time.Second, 20*time.Minute)
	deadline := time.Now().Add(budget)
	for i, n := range names {
		// what is left of the budget is shared by the scenarios still to run
		per := 2 * time.Until(deadline) / time.Duration(len(names)-i) // twice the even share: most scenarios finish well below it, the deadline bounds the total
		if per > time.Until(deadline) {
			per = time.Until(deadline)
		}
		if per < 2*time.Second {
			per = 2 * time.Second
		}
		st := explore.Explore(explore.Config{Scenario: "c03", Param: n, Bound: bound, Budget: per})
		c.AddExplore(st)
		c.AddCounts(0, 0, st.Counts["traces_replayed_on_real_directory"], 0, 0)
		if c.Failed() {
			break
		}
	}
	c.Finish()
}

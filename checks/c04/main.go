// C04: a Reader is an immutable point-in-time view until it is closed.
package main

import (
	"time"

	"verif/livecheck"
)

func main() {
	all := []string{"rd-safe", "rd-safe-cf", "rd-unsafe", "rd-unsafe-cf", "rd-unsafe-cf-nomem", "rd-partial-ucf-nomem", "rd-partial-ucf-nomem-f1", "rd-late", "rd-safe+rev", "faulty/merge4", "faulty/merge4/settle", "faulty/safe3/sticky", "rd-late-ucf-nomem", "rd-nap-cf", "rd-keep2", "rd-late+rr"}
	thor := append(append([]string{}, all...), "rd-safe+rr", "rd-unsafe+rr", "rd-keep2+rr", "rd-unsafe-cf+rev")
	livecheck.Main(livecheck.Plan{
		ID:     "C04",
		Oracle: livecheck.Oracle{Immutable: true, Files: true},
		Quick:  all, QuickBound: 1, QuickDeep: []string{"rd-unsafe-cf", "rd-partial-ucf-nomem-f1"}, QuickBudget: 80 * time.Second,
		Thorough: thor, ThorBound: 2, ThorBudget: 20 * time.Minute,
		Rule:        "every schedule within the deviation bound of 5 scenarios: one client applying 3 batches (update and delete hitting segments the held readers reference; eager file merges, in-memory merges in the unsafe/clients-first variants, retention 1 and 2 so that superseded files are removed) next to a thread that acquires 3 readers at different moments, keeps all of them open and re-observes every one after each of its steps and after the writer was closed; distinct_nontrivial = distinct (storage trace, observations) outcomes",
		Explanation: "stateless exploration of the real writer/reader on the crashfs device (closed handles are poisoned with 0xDB so that a use after the last reference was dropped reads garbage and fails the comparison or the decoder). Observation = count, match-all with stored fields, field sort (document values), full dictionary scan, unscored conjunction and disjunction (bitmap paths), scored searches run twice (recycled postings iterators), lookups by id. Oracle: every observation equals the reader's first one; the first one equals the abstract index after j batches for some j between the batches returned and the batches called at acquisition",
		Assumptions: []string{
			"an observation is atomic with respect to writer activity (interleavings inside one search are C15's subject)",
			"schedules beyond the deviation bound are not explored",
		},
	})
}

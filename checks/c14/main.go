// C14: I/O failures are reported, contained and recovered from.
package main

import (
	"io"
	"log"
	"os"
	"strings"
	"time"

	"github.com/blugelabs/bluge/verifmc"

	"verif/checkmain"
	"verif/crashcheck"
	"verif/explore"
	"verif/recovery"
)

var mode = crashcheck.Mode{CheckAcked: true, CheckOpen: true, Depth: 1, Loader: 1}

func run(opts verifmc.Options, param string) (*verifmc.Sched, *explore.Result) {
	parts := strings.Split(param, "/")
	sc := crashcheck.Scenarios[parts[0]]
	if len(parts) > 1 && parts[1] == "open" {
		return crashcheck.RunFaultyOpen("c14/"+param, sc, opts)
	}
	plan := crashcheck.FaultPlan{Sticky: len(parts) > 1 && parts[1] == "sticky"}
	return crashcheck.RunFaulty("c14/"+param, sc, mode, plan, opts)
}

func main() {
	log.SetOutput(io.Discard)
	explore.Register("c14", run)
	if os.Getenv("VERIF_WORKER") != "" {
		defer recovery.Cleanup()
	}
	explore.WorkerMain()
	c := checkmain.New("C14")
	if v := c.IsReplay(); v != nil {
		c.RunReplay(v)
	}
	defer recovery.Cleanup()
	c.Rule = "every directory operation issued after the writer is open is an environment choice point: persist fails before any byte / after half the bytes / after the full write (at sync), load, list and remove fail; transient (that call) and, in the /sticky variants, sticky (every call of that kind until the error was reported twice). A fault costs one deviation like a scheduling deviation, so bound 1 = every single placement along the default schedule plus every single scheduling deviation, bound 2 = all pairs of placements and all (placement, scheduling deviation) pairs. Each faulty trace is then crash-enumerated like C02/C03. distinct_nontrivial = distinct (storage trace, returned errors, async errors) outcomes"
	c.Explanation = "stateless exploration of the real writer on the crashfs device with fault answers as explicit choices. Oracle per execution: no panic, no deadlock, comes to rest within the horizon; a fault on persist/load fires the asynchronous error callback and a batch that returns an error was preceded by it; after every batch (failed or not) a held reader answers as at acquisition and a fresh reader shows every batch applied so far; a later nil return makes every earlier batch durable on every crash image (cumulative acknowledgement); no crash image faults at open or shows a non-prefix"
	c.Assumptions = []string{
		"single sequential client in safe mode; in the /open scenarios the faults hit a second OpenWriter on a populated directory (list, load, clean-up removes), elsewhere they start after OpenWriter succeeded",
		"a sticky fault clears once the asynchronous error callback fired twice",
		"fault placements beyond the deviation bound are not explored",
	}
	names := []string{"safe3", "safe3/sticky", "merge4", "merge4/sticky", "safe3keep2", "safe3/open", "merge4/open"}
	if os.Getenv("VERIF_ONLY") != "" {
		names = strings.Split(os.Getenv("VERIF_ONLY"), ",")
	}
	bound := c.Pick(1, 2)
	budget := c.PickD(80*time.Second, 20*time.Minute)
	deadline := time.Now().Add(budget)
	for i, n := range names {
		// what is left of the budget is shared by the scenarios still to run
		per := time.Until(deadline) / time.Duration(len(names)-i)
		if per < 2*time.Second {
			per = 2 * time.Second
		}
		st := explore.Explore(explore.Config{Scenario: "c14", Param: n, Bound: bound, Budget: per})
		c.AddExplore(st)
		if c.Failed() {
			break
		}
	}
	c.Finish()
}

package main

import (
	"fmt"
	"math"
	"time"

	"github.com/blugelabs/bluge"
)

// probe prints the minimal reproduction of every defect class the check reports
// on the unchanged tree (`run.sh C07 probe`); it judges nothing.
func probe() {
	show := func(r *bluge.Reader, name string, req bluge.SearchRequest, expected string) {
		ids, err := runSearch(r, req)
		fmt.Printf("%-78s observed %v err=%v | expected %s\n", name, ids, err, expected)
	}
	txt := func(id, text string) *bluge.Document {
		return bluge.NewDocument(id).AddField(bluge.NewTextField("f", text).WithAnalyzer(simpleAnalyzer))
	}
	r, err := buildIndex([][]wop{{{doc: txt("d0", "x y")}, {doc: txt("d1", "y")}}})
	if err != nil {
		fmt.Println(err)
		return
	}
	f := func(t string) bluge.Query { return bluge.NewTermQuery(t).SetField("f") }
	bq := func() bluge.Query {
		return bluge.NewBooleanQuery().AddMust(f("y")).AddShould(f("x"), f("z")).SetMinShould(1)
	}
	show(r, "d0={x y} d1={y}: +y [x z]~1 TopN scored", bluge.NewTopNSearch(10, bq()), "[d0]")
	show(r, "d0={x y} d1={y}: +y [x z]~1 TopN SetScore(none)", bluge.NewTopNSearch(10, bq()).SetScore("none"), "[d0]")
	r.Close()

	kw := func(id, t string) *bluge.Document {
		return bluge.NewDocument(id).AddField(bluge.NewKeywordField("k", t))
	}
	r, _ = buildIndex([][]wop{{{doc: kw("e", "")}, {doc: kw("a", "a")}, {doc: kw("b", "b")}, {doc: kw("ffz", "\xffz")}, {doc: kw("aff", "a\xff")}}})
	show(r, `keywords "",a,b,\xffz,a\xff: fuzzy "a" fuzziness=0`, bluge.NewAllMatches(bluge.NewFuzzyQuery("a").SetFuzziness(0).SetField("k")), "[a]")
	show(r, `prefix "\xff"`, bluge.NewAllMatches(bluge.NewPrefixQuery("\xff").SetField("k")), "[ffz]")
	show(r, `prefix "a\xff"`, bluge.NewAllMatches(bluge.NewPrefixQuery("a\xff").SetField("k")), "[aff]")
	show(r, `termrange [b, a)  (inverted)`, bluge.NewAllMatches(bluge.NewTermRangeQuery("b", "a").SetField("k")), "[]")
	show(r, `termrange [a, a)  (degenerate)`, bluge.NewAllMatches(bluge.NewTermRangeQuery("a", "a").SetField("k")), "[]")
	show(r, `termrange (unbounded, b) min exclusive`, bluge.NewAllMatches(bluge.NewTermRangeInclusiveQuery("", "b", false, false).SetField("k")), "[e a aff]")
	show(r, `termrange [unbounded, b) min inclusive`, bluge.NewAllMatches(bluge.NewTermRangeInclusiveQuery("", "b", true, false).SetField("k")), "[e a aff]")
	r.Close()

	num := func(id string, v float64) *bluge.Document {
		return bluge.NewDocument(id).AddField(bluge.NewNumericField("n", v))
	}
	r, _ = buildIndex([][]wop{{{doc: num("one", 1)}, {doc: num("two", 2)}}})
	for _, eps := range []float64{1e-3, 1e-5, 1e-6, 1e-7, 1e-8, 0} {
		lo, hi := 1-eps, 1+eps
		if eps == 0 {
			lo, hi = math.Nextafter(1, 0), 1
		}
		t0 := time.Now()
		n, exceeded, _ := preflight(r, bluge.NewAllMatches(bluge.NewNumericRangeInclusiveQuery(lo, hi, true, true).SetField("n")))
		fmt.Printf("numrange [%v, %v] on values {1,2}: dictionary lookups while building the searcher: %d (aborted at the limit: %v) in %v | expected [one] after a few hundred lookups\n", lo, hi, n, exceeded, time.Since(t0))
	}
	t0 := time.Now()
	show(r, "numrange [0.999999, 1.000001] executed for real", bluge.NewAllMatches(bluge.NewNumericRangeInclusiveQuery(1-1e-6, 1+1e-6, true, true).SetField("n")), "[one]")
	fmt.Println("   took", time.Since(t0))
	for _, eps := range []float64{1e-7, 0} {
		lo, hi := 1-eps, 1+eps
		if eps == 0 {
			lo, hi = math.Nextafter(1, 0), 1
		}
		done := make(chan string, 1)
		t0 := time.Now()
		go func() {
			ids, err := runSearch(r, bluge.NewAllMatches(bluge.NewNumericRangeInclusiveQuery(lo, hi, true, true).SetField("n")))
			done <- fmt.Sprint(ids, err)
		}()
		select {
		case s := <-done:
			fmt.Printf("numrange [%v, %v] executed for real: %s after %v\n", lo, hi, s, time.Since(t0))
		case <-time.After(30 * time.Second):
			fmt.Printf("numrange [%v, %v] executed for real: no answer after 30s (the search goroutine is left running)\n", lo, hi)
		}
	}

	dt := func(id string, n int64) *bluge.Document {
		return bluge.NewDocument(id).AddField(bluge.NewDateTimeField("t", time.Unix(0, n)))
	}
	negInf := int64(-0x7ff0000000000001)
	r, _ = buildIndex([][]wop{{{doc: dt("min", math.MinInt64)}, {doc: dt("zero", 0)}, {doc: dt("max", math.MaxInt64)}}})
	show(r, "dates min(1677-09-21T00:12:43.145224192Z),0,max(2262-04-11T23:47:16.854775807Z): ["+time.Unix(0, negInf).UTC().Format(time.RFC3339Nano)+", unbounded]",
		bluge.NewAllMatches(bluge.NewDateRangeInclusiveQuery(time.Unix(0, negInf), time.Time{}, true, true).SetField("t")), "[zero max]")
	show(r, "daterange [1970-01-01, unbounded) (NewDateRangeQuery default flags)", bluge.NewAllMatches(bluge.NewDateRangeQuery(time.Unix(0, 0), time.Time{}).SetField("t")), "[zero max]")
	show(r, "daterange (unbounded, 1970-01-01] start exclusive", bluge.NewAllMatches(bluge.NewDateRangeInclusiveQuery(time.Time{}, time.Unix(0, 0), false, true).SetField("t")), "[min zero]")
	r.Close()
}

#!/bin/bash
# run.sh <ID> quick|thorough            run the check of one property
# run.sh <ID> replay <file>             re-execute one recorded violation
# Rebuilds the overlay from /repo's working tree and the check binary every time.
set -u
cd "$(dirname "$0")"
V=$(pwd)
ID=${1:?usage: run.sh <ID> quick|thorough|replay [file]}
TIER=${2:-${VERIF_TIER:-quick}}
shift; shift || true
export GOFLAGS=-mod=mod GOPROXY=off GOSUMDB=off GOTOOLCHAIN=local
export GOCACHE=$V/build/gocache
export VERIF_ROOT=$V
id=$(echo "$ID" | tr 'A-Z' 'a-z')
mkdir -p build/bin build/ov evidence
cp /repo/go.sum go.sum 2>/dev/null
LOCK=build/.build.lock
(
  flock 9
  if [ ! -x build/bin/mcrewrite ] || [ cmd/mcrewrite/main.go -nt build/bin/mcrewrite ]; then
    go build -o build/bin/mcrewrite ./cmd/mcrewrite || exit 2
  fi
  build/bin/mcrewrite -repo /repo -out build/ov -shim mc -hooks hooks >build/ov/rewrite.log 2>&1 || { cat build/ov/rewrite.log; exit 2; }
  RACE=""
  [ -f checks/$id/RACE ] && RACE="-race"
  OV=build/ov/overlay.json
  [ -f checks/$id/OSHOOK ] && OV=build/ov/overlay_os.json
  go build $RACE -overlay $OV -o build/bin/$id ./checks/$id || exit 2
) 9>$LOCK
rc=$?
if [ $rc -ne 0 ]; then
  echo "BUILD-ERROR property=$ID (overlay or check binary did not build from the current tree)"
  exit 2
fi
exec build/bin/$id "$TIER" "$@"

// C06: background merges and persists never change logical content.
package main

import (
	"time"

	"verif/livecheck"
)

func main() {
	livecheck.Main(livecheck.Plan{
		ID:     "C06",
		Oracle: livecheck.Oracle{Sequential: true},
		Quick:  []string{"mg-safe", "mg-unsafe", "mg-unsafe-cf", "mg-unsafe-cf-nomem", "mg-empty-ucf-nomem", "mg-partial-ucf-nomem", "mg-partial-ucf-nomem-f1", "mg-partial-unsafe", "mg-late", "mg-late+rev", "mg-safe+rev", "mg-late-unsafe", "mg-late-ucf-nomem", "mg-empty", "mg-empty-ucf", "mg-nap", "mg-late+rr"}, QuickBound: 1, QuickDeep: []string{"mg-unsafe-cf", "mg-partial-ucf-nomem-f1", "mg-late-ucf-nomem", "mg-empty-ucf"}, QuickBudget: 80 * time.Second,
		Thorough: []string{"mg-safe", "mg-unsafe", "mg-unsafe-cf", "mg-unsafe-cf-nomem", "mg-empty-ucf-nomem", "mg-partial-ucf-nomem", "mg-partial-ucf-nomem-f1", "mg-partial-unsafe", "mg-late", "mg-late+rev", "mg-safe+rev", "mg-late-unsafe", "mg-late-ucf-nomem", "mg-empty", "mg-empty-ucf", "mg-nap", "mg-late+rr", "mg-safe+rr", "mg-unsafe+rr", "mg-empty+rr", "mg-partial-unsafe+rr"}, ThorBound: 2, ThorBudget: 20 * time.Minute,
		Rule:        "every schedule within the deviation bound of 6 scenarios: one client whose updates/deletes hit documents living in segments under merge (merge plan scaled down so that any two small file segments merge; unsafe + clients-first variants pile up in-memory segments for in-memory merges; one variant deletes every document of the merge set before the merge is introduced; one runs with the persister nap timer); after EVERY batch a fresh reader is compared with the sequential model (count, match-all, stored fields, lookup by id), again at quiescence and after close + reopen; distinct_nontrivial = distinct (storage trace, observations) outcomes; the flag batch_inside_persist_or_merge_window shows that batches really landed between the load of a merged/persisted segment and its snapshot",
		Explanation: "stateless exploration of the real writer on the crashfs device; single client, so the expected content after each batch is unique",
		Assumptions: []string{"schedules beyond the deviation bound are not explored"},
	})
}

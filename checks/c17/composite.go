package main

import (
	"fmt"
	"math"
	"strings"

	"github.com/blugelabs/bluge"

	"verif/explore"
)

// (5) composite fields.  Every corpus of the corpora enumeration once more, the
// text of each document split over two (or three) source fields that a
// composite field "_all" consumes, with and without term positions on the source
// fields.  The composite field then holds exactly the tokens of the unsplit text,
// so a term query on "_all" must select the same documents and give each the
// score — and the explained statistics — that the same term query gives on the
// unsplit field t of the same documents (differential oracle; the unsplit field
// is what the corpora enumeration judges against the formula).
var compositeVariants = []struct {
	name      string
	parts     int
	positions bool
}{{"2 fields", 2, false}, {"2 fields with positions", 2, true}, {"3 fields", 3, false}, {"one field twice", -2, false}}

func compositeTotal(param string) int64 {
	return corporaTotal(param) * int64(len(compositeVariants))
}

func compositeEval(idx int64, param string) *explore.Result {
	v := compositeVariants[idx%int64(len(compositeVariants))]
	c := corpusOf(idx/int64(len(compositeVariants)), param)
	cdesc := fmt.Sprintf("docs=%q composite over %s", c.texts, v.name)
	res := &explore.Result{Counts: map[string]int64{}, Outcome: cdesc}
	var fs failures
	defer func() { fs.into(res) }()
	var docs []*bluge.Document
	for i, t := range c.texts {
		d := bluge.NewDocument(fmt.Sprintf("d%d", i))
		if t == noField {
			d.AddField(bluge.NewTextField("u", "x y")) // neither t nor _all
			docs = append(docs, d)
			continue
		}
		d.AddField(bluge.NewTextField("t", t))
		toks := c.tokens[i]
		n := v.parts
		names := []string{"a", "b", "c"}
		if n < 0 { // two values of ONE field
			n = -n
			names = []string{"a", "a"}
		}
		for p := 0; p < n; p++ {
			lo, hi := len(toks)*p/n, len(toks)*(p+1)/n
			f := bluge.NewTextField(names[p], strings.Join(toks[lo:hi], " "))
			if v.positions {
				f.SearchTermPositions()
			}
			d.AddField(f)
		}
		d.AddField(bluge.NewCompositeFieldIncluding("_all", []string{"a", "b", "c"}))
		docs = append(docs, d)
	}
	r, num2doc, err := buildIndex(docs)
	if err != nil {
		res.Failure = "harness: " + cdesc + ": " + err.Error()
		res.Key = "harness"
		return res
	}
	defer r.Close()
	for _, term := range []string{"x", "y", "z"} {
		term := term
		for _, explain := range []bool{false, true} {
			wheref := func() string { return fmt.Sprintf("%s term=%s explain=%v", cdesc, term, explain) }
			ref, err := runSearch(r, bluge.NewTermQuery(term).SetField("t"), explain, num2doc)
			if err != nil {
				fs.addw(rankOther, "search-error", wheref, "%v", err)
				continue
			}
			got, err := runSearch(r, bluge.NewTermQuery(term).SetField("_all"), explain, num2doc)
			if err != nil {
				fs.addw(rankOther, "search-error", wheref, "(composite) %v", err)
				continue
			}
			res.Evals++
			rs, gs := map[int]hit{}, map[int]hit{}
			for _, h := range ref {
				rs[h.doc] = h
			}
			for _, h := range got {
				gs[h.doc] = h
			}
			for d := 0; d < nDocs; d++ {
				d := d
				wf := func() string { return fmt.Sprintf("%s doc=%d", wheref(), d) }
				rh, rok := rs[d]
				gh, gok := gs[d]
				if rok != gok {
					fs.addw(rankOther, "composite:selection", wf, "matched on the unsplit field: %v, on the composite field: %v", rok, gok)
					continue
				}
				if !rok {
					continue
				}
				res.Nontrivial++
				if math.Float64bits(rh.score) != math.Float64bits(gh.score) {
					detail := ""
					if explain && gh.expl != nil && rh.expl != nil {
						detail = fmt.Sprintf("; composite: %s; unsplit: %s", render(gh.expl), render(rh.expl))
					}
					fs.addw(rankOther, "composite:score", wf, "the composite field holds the same tokens as the unsplit field but scores %v instead of %v (tf=%d dl=%d)%s",
						gh.score, rh.score, c.tf[d][term], len(c.tokens[d]), detail)
				}
			}
		}
	}
	return res
}

func init() {
	explore.RegisterEnum("c17-composite", compositeTotal, compositeEval)
}

// C14: I/O failures are reported, contained and recovered from.
package main

import (
	"fmt"
	"io"
	"log"
	"os"
	"strings"
	"time"

	"github.com/blugelabs/bluge/verifmc"

	"verif/checkmain"
	"verif/crashcheck"
	"verif/explore"
	"verif/recovery"
)

var mode = crashcheck.Mode{CheckAcked: true, CheckOpen: true, Depth: 1, Loader: 1}

func run(opts verifmc.Options, param string) (*verifmc.Sched, *explore.Result) {
	parts := strings.Split(param, "/")
	sc := crashcheck.Scenarios[parts[0]]
	if len(parts) > 1 && parts[1] == "open" {
		return crashcheck.RunFaultyOpen("c14/"+param, sc, opts)
	}
	if len(parts) > 1 && parts[1] == "conc" {
		return runConc(opts, param, sc)
	}
	plan := crashcheck.FaultPlan{}
	for _, f := range parts[1:] {
		switch f {
		case "sticky":
			plan.Sticky = true
		case "settle":
			plan.Settle = true
		case "closefault":
			plan.CloseFaults = true
		}
	}
	return crashcheck.RunFaulty("c14/"+param, sc, mode, plan, opts)
}

// runConc: the scenario's concurrent clients (or unsafe batches with persisted
// callbacks) while persist and load may fail: the persister's in-memory merge
// path and the overlap of batches with a failing persist.
func runConc(opts verifmc.Options, param string, sc crashcheck.Scenario) (*verifmc.Sched, *explore.Result) {
	loud := 0
	var injLog []string
	sticky := strings.HasSuffix(param, "/sticky")
	stickyOp, stickyLeft := "", 0 // a sticky fault: this call and the next one of the same kind fail
	faults := func(op, kind string, id uint64) int {
		n := 0
		switch op {
		case "persist":
			n = 4
		case "load":
			n = 2
		default:
			return 0
		}
		if stickyLeft > 0 && stickyOp == op {
			stickyLeft--
			injLog = append(injLog, fmt.Sprintf("sticky:%s%s#%d", op, kind, id))
			return 1
		}
		if sticky {
			n++
		}
		c := verifmc.Choose(n, "fault:"+op)
		if c != 0 {
			loud++
			injLog = append(injLog, fmt.Sprintf("%s%s#%d:%d", op, kind, id, c))
		}
		if sticky && c == n-1 {
			stickyOp, stickyLeft = op, 1
			return 1
		}
		return c
	}
	s, res := crashcheck.Run("c14/"+param, sc, modeConc, opts, faults)
	asyncErrs := res.Counts["async_errors_in_this_execution"]
	delete(res.Counts, "async_errors_in_this_execution")
	if loud > 0 {
		res.Counts["faults_injected"] += int64(loud)
	}
	if res.Failure != "" {
		res.Failure += fmt.Sprintf(" (faults injected: %v)", injLog)
		return s, res
	}
	if s != nil && s.Failure == "" && loud > 0 && asyncErrs == 0 {
		res.Failure = fmt.Sprintf("faults %v were injected on persist/load but the asynchronous error callback never fired", injLog)
	}
	res.Outcome += " | " + strings.Join(injLog, ",")
	return s, res
}

var modeConc = crashcheck.Mode{CheckAcked: true, CheckOpen: true, Depth: 1, Loader: 1}

func main() {
	log.SetOutput(io.Discard)
	explore.Register("c14", run)
	if os.Getenv("VERIF_WORKER") != "" {
		defer recovery.Cleanup()
	}
	explore.WorkerMain()
	c := checkmain.New("C14")
	if v := c.IsReplay(); v != nil {
		c.RunReplay(v)
	}
	defer recovery.Cleanup()
	c.Rule = "every directory operation issued after the writer is open is an environment choice point: persist fails before any byte / after half the bytes / after the full write (at sync), load, list and remove fail; transient (that call) and, in the /sticky variants, sticky (every call of that kind until the error was reported twice); in the /settle variants the background work comes to rest after every batch, so that the file merges run (and fail) between the batches instead of after the last one. A fault costs one deviation like a scheduling deviation, so bound 1 = every single placement along the default schedule plus every single scheduling deviation, bound 2 = all pairs of placements and all (placement, scheduling deviation) pairs. Each faulty trace is then crash-enumerated like C02/C03. distinct_nontrivial = distinct (storage trace, returned errors, async errors) outcomes"
	c.Explanation = "stateless exploration of the real writer on the crashfs device with fault answers as explicit choices. Oracle per execution: no panic, no deadlock, comes to rest within the horizon; a fault on persist/load fires the asynchronous error callback and a batch that returns an error was preceded by it; after every batch (failed or not) a held reader answers as at acquisition and a fresh reader shows every batch applied so far; a later nil return makes every earlier batch durable on every crash image (cumulative acknowledgement); no crash image faults at open or shows a non-prefix"
	c.Assumptions = []string{
		"single sequential client in safe mode, except the /conc scenarios (concurrent safe clients, or unsafe batches acknowledged by persisted callbacks, with transient persist/load faults; oracle: crash images as in C02 plus 'a fault is reported'); in the /open scenarios the faults hit a second OpenWriter on a populated directory (list, load, clean-up removes), elsewhere they start after OpenWriter succeeded",
		"a sticky fault clears once the asynchronous error callback fired twice",
		"fault placements beyond the deviation bound are not explored",
	}
	names := []string{"safe3", "safe3/sticky", "merge4", "merge4/sticky", "merge4/settle", "merge-late/settle", "unsafe3upd-cf/conc", "unsafe3upd-cf/conc/sticky", "unsafe3cb/conc/sticky", "unsafe2x1cb-cf/conc", "safe2x2/conc", "safe3keep2", "safe3/open", "merge4/open", "safe3keep2/open"}
	if c.Thorough() {
		names = append(names, "unsafe4merge/conc", "unsafe3del-cf/conc", "safe2x1-cf/conc")
	}
	if os.Getenv("VERIF_ONLY") != "" {
		names = strings.Split(os.Getenv("VERIF_ONLY"), ",")
	}
	bound := c.Pick(1, 2)
	budget := c.PickD(150*time.Second, 30*time.Minute)
	deadline := time.Now().Add(budget)
	for i, n := range names {
		// what is left of the budget is shared by the scenarios still to run
		per := time.Until(deadline) / time.Duration(len(names)-i)
		if per < 2*time.Second {
			per = 2 * time.Second
		}
		st := explore.Explore(explore.Config{Scenario: "c14", Param: n, Bound: bound, Budget: per})
		c.AddExplore(st)
		if c.Failed() {
			break
		}
	}
	c.Finish()
}

package main

// Numeric and date ranges on encoding-boundary values; geo bounding boxes and
// distances on a small grid.

import (
	"fmt"
	"hash/fnv"
	"math"
	"sort"
	"strings"
	"time"

	"github.com/blugelabs/bluge"

	"verif/explore"
)

func hash64(s string) string {
	h := fnv.New64a()
	h.Write([]byte(s))
	return fmt.Sprintf("%x", h.Sum64())
}

// ---------------------------------------------------------------- generic value corpus

// vDoc is a document holding one value (index into a value table).
type vDoc struct {
	id      string
	val     int
	deleted bool
}

type vCorpus struct {
	name    string
	docs    []vDoc
	batches [][]wop
	layout  string
	reader  *bluge.Reader
	live    int
	// preflight: construct the searcher over a lookup-counting reader first (range queries)
	preflight bool
}

// mkVCorpus spreads one document per value over two segments (even/odd index),
// duplicates every fifth value into the other segment and adds two deleted
// documents per segment (holding values that also live elsewhere).
func mkVCorpus(name string, n int, build func(id string, val int) *bluge.Document) *vCorpus {
	c := &vCorpus{name: name, layout: "2segs/del=2+2"}
	var seg [2][]vDoc
	for i := 0; i < n; i++ {
		seg[i%2] = append(seg[i%2], vDoc{id: fmt.Sprintf("v%d", i), val: i})
		if i%5 == 0 {
			seg[(i+1)%2] = append(seg[(i+1)%2], vDoc{id: fmt.Sprintf("v%d-dup", i), val: i})
		}
	}
	ins := func(s []vDoc, at int, d vDoc) []vDoc { return append(s[:at:at], append([]vDoc{d}, s[at:]...)...) }
	seg[0] = ins(seg[0], 1, vDoc{id: "del-a", val: n / 2, deleted: true})
	seg[0] = append(seg[0], vDoc{id: "del-b", val: 0, deleted: true})
	seg[1] = ins(seg[1], 0, vDoc{id: "del-c", val: n - 1, deleted: true})
	seg[1] = ins(seg[1], len(seg[1])/2, vDoc{id: "del-d", val: n / 3, deleted: true})
	var dels []wop
	for _, s := range seg {
		var ops []wop
		for _, d := range s {
			ops = append(ops, wop{doc: build(d.id, d.val)})
			if d.deleted {
				dels = append(dels, wop{del: true, id: d.id})
			} else {
				c.live++
			}
			c.docs = append(c.docs, d)
		}
		c.batches = append(c.batches, ops)
	}
	c.batches = append(c.batches, dels)
	return c
}

func (c *vCorpus) open() (*bluge.Reader, error) {
	if c.reader != nil {
		return c.reader, nil
	}
	r, err := buildIndex(c.batches)
	if err == nil && layoutOf(r) != c.layout {
		err = fmt.Errorf("unexpected layout %s", layoutOf(r))
	}
	if err != nil {
		return nil, err
	}
	c.reader = r
	return r, nil
}

var vModes = []searchMode{modeAll, modeTopN, modeNone}

// runVModes: the search modes runV uses (narrowed to one while the conjunction variants run)
var runVModes = vModes

// altModel is the answer a known defect produces; used only to give failures of
// exactly that form one stable key.
type altModel struct {
	key     string
	verdict func(val int) int
}

const keyRangeExplodes = "numrange:candidate-term-enumeration-explodes"

// runV judges one query over a value corpus.  verdict(val): +1 must match, -1
// must not match, 0 not judged.
func runV(c *vCorpus, res *explore.Result, text string, build func() bluge.Query, verdict func(val int) int, describe func(val int) string, alts ...altModel) {
	r, err := c.open()
	if err != nil {
		res.Failure, res.Key = "harness: "+err.Error(), "harness-build"
		return
	}
	var want []string
	dontCare := map[string]bool{}
	for _, d := range c.docs {
		if d.deleted {
			continue
		}
		switch verdict(d.val) {
		case 1:
			want = append(want, d.id)
		case 0:
			dontCare[d.id] = true
			res.Counts["unjudged_documents_near_edge"]++
		}
	}
	sort.Strings(want)
	res.Outcome = fmt.Sprintf("%s:%d:%s", c.name, len(want), hash64(strings.Join(want, ",")))
	if len(want) > 0 && len(want) < c.live {
		res.Nontrivial = int64(len(vModes))
	}
	// pre-flight: a range searcher whose construction does not end cannot be run
	if n, exceeded, _ := preflight(r, bluge.NewAllMatches(build())); exceeded && c.preflight {
		res.Evals++
		res.Failure = fmt.Sprintf("%s: the construction of the searcher asked the term dictionary about more than %d candidate terms and was aborted (the candidate enumeration walks every byte string between the two encoded ends; the search does not return in practice); the query was not executed", text, n-1)
		res.Key = keyRangeExplodes
		res.Counts["range_queries_aborted_in_preflight"]++
		return
	}
	for _, mode := range runVModes {
		res.Evals++
		ids, err := runSearch(r, mode.mk(build(), 200))
		fail := ""
		if err != nil {
			fail = "error: " + err.Error()
		} else {
			fail = judge(ids, want, dontCare)
		}
		if fail != "" {
			// name the values of the wrong documents
			var notes []string
			gs := map[string]bool{}
			for _, g := range ids {
				gs[g] = true
			}
			ws := map[string]bool{}
			for _, w := range want {
				ws[w] = true
			}
			for _, d := range c.docs {
				if dontCare[d.id] {
					continue
				}
				if gs[d.id] != ws[d.id] && len(notes) < 6 {
					notes = append(notes, d.id+"="+describe(d.val))
				}
			}
			if len(fail) > 500 {
				fail = fail[:500] + "..."
			}
			res.Failure = fmt.Sprintf("%s [%s]: %s; values of the wrong documents: %s", text, mode.name, fail, strings.Join(notes, ", "))
			// is the answer exactly the one a known defect produces?
			if err == nil {
				for _, alt := range alts {
					var aw []string
					for _, d := range c.docs {
						if !d.deleted && !dontCare[d.id] && alt.verdict(d.val) == 1 {
							aw = append(aw, d.id)
						}
					}
					sort.Strings(aw)
					if judge(ids, aw, dontCare) == "" {
						res.Key = alt.key
						break
					}
				}
			}
			return
		}
	}
}

// ---------------------------------------------------------------- numeric ranges

var numVals []float64
var numEnds []float64
var numCorpus *vCorpus

func fstr(f float64) string {
	return fmt.Sprintf("%v(bits %#x)", f, math.Float64bits(f))
}

// The sortable encoding of a non-negative float is its bit pattern, split into
// 4-bit steps by the numeric field: values are placed on both sides of nibble,
// byte, word and exponent boundaries of the bit pattern, for both signs.
func initNumeric(param string) {
	bits := []uint64{
		0x0, 0x1, 0xf, 0x10, 0x11, 0xff, 0x100, 0xffff, 0x10000, 0xffffffff, 0x100000000,
		0x000fffffffffffff, 0x0010000000000000, // largest denormal, smallest normal
		0x3fefffffffffffff, 0x3ff0000000000000, 0x3ff0000000000001, // around 1.0
		0x3fffffffffffffff, 0x4000000000000000, // around 2.0
		0x402fffffffffffff, 0x4030000000000000, // around 16.0
		0x433fffffffffffff, 0x4340000000000000, // around 2^53
		0x7fe0000000000000, 0x7feffffffffffff0, 0x7fefffffffffffff, // up to MaxFloat64
	}
	if param != "thorough" {
		bits = []uint64{0x0, 0x1, 0xf, 0x10, 0xffffffff, 0x100000000, 0x000fffffffffffff, 0x0010000000000000,
			0x3fefffffffffffff, 0x3ff0000000000000, 0x3ff0000000000001, 0x7fefffffffffffff}
	}
	numVals = nil
	for i := len(bits) - 1; i >= 1; i-- { // negative values, ascending; -0.0 is left out (see assumptions)
		numVals = append(numVals, -math.Float64frombits(bits[i]))
	}
	for _, b := range bits {
		numVals = append(numVals, math.Float64frombits(b))
	}
	numEnds = append([]float64{math.Inf(-1)}, numVals...)
	numEnds = append(numEnds, math.Inf(1))
	numCorpus = mkVCorpus("numeric", len(numVals), func(id string, v int) *bluge.Document {
		return bluge.NewDocument(id).AddField(bluge.NewNumericField("n", numVals[v]))
	})
	numCorpus.preflight = true
}

func numTotal(param string) int64 { return int64(len(numEnds) * len(numEnds) * 4) }

func numEval(idx int64, param string) *explore.Result {
	res := &explore.Result{Counts: map[string]int64{}}
	fl := int(idx % 4)
	k := idx / 4
	lo := numEnds[k%int64(len(numEnds))]
	hi := numEnds[k/int64(len(numEnds))]
	incLo, incHi := fl&1 == 0, fl&2 != 0
	br := map[bool]string{true: "[", false: "("}
	bl := map[bool]string{true: "]", false: ")"}
	text := fmt.Sprintf("numrange %s%s, %s%s", br[incLo], fstr(lo), fstr(hi), bl[incHi])
	res.Key = "numeric:" + text
	runV(numCorpus, res, text,
		func() bluge.Query { return bluge.NewNumericRangeInclusiveQuery(lo, hi, incLo, incHi).SetField("n") },
		func(v int) int {
			x := numVals[v]
			// an infinite end is "no bound" (bluge.MinNumeric / bluge.MaxNumeric)
			if !math.IsInf(lo, -1) && (x < lo || (x == lo && !incLo)) {
				return -1
			}
			if !math.IsInf(hi, 1) && (x > hi || (x == hi && !incHi)) {
				return -1
			}
			return 1
		},
		func(v int) string { return fstr(numVals[v]) })
	if res.Failure == "" && idx%3001 == 0 {
		res.Sample = map[string]interface{}{"enumeration": "c07-numeric", "query": text, "expected_matches": res.Outcome}
	}
	return res
}

// ---------------------------------------------------------------- date ranges

var dateVals []int64 // unix nanoseconds
var dateCorpus *vCorpus

func tstr(n int64) string {
	return fmt.Sprintf("%s(unixnano %d)", time.Unix(0, n).UTC().Format(time.RFC3339Nano), n)
}

func initDates(param string) {
	// int64 boundaries, and the two nanosecond counts whose order-preserving
	// float image is -Inf / +Inf (0x800fffffffffffff and 0x7ff0000000000000)
	negInf := int64(-0x7ff0000000000001)
	posInf := int64(0x7ff0000000000000)
	dateVals = []int64{
		math.MinInt64, math.MinInt64 + 1, negInf - 1, negInf, negInf + 1, -1 << 62, -1000000000000000000, -0x100000000, -0xffffffff,
		-256, -255, -17, -16, -15, -1, 0, 1, 15, 16, 17, 255, 256, 0xffffffff, 0x100000000, 1000000000, 1600000000000000000,
		1 << 62, posInf - 1, posInf, posInf + 1, math.MaxInt64 - 1, math.MaxInt64,
	}
	if param != "thorough" {
		dateVals = []int64{
			math.MinInt64, math.MinInt64 + 1, negInf - 1, negInf, negInf + 1, -16, -1, 0, 1, 15, 16,
			1600000000000000000, posInf - 1, posInf, posInf + 1, math.MaxInt64 - 1, math.MaxInt64,
		}
	}
	dateCorpus = mkVCorpus("date", len(dateVals), func(id string, v int) *bluge.Document {
		return bluge.NewDocument(id).AddField(bluge.NewDateTimeField("t", time.Unix(0, dateVals[v])))
	})
	dateCorpus.preflight = true
}

func dateTotal(param string) int64 { n := int64(len(dateVals) + 1); return n * n * 4 }

const keyDateInf = "daterange:end-whose-float-image-is-infinite-is-treated-as-unbounded"
const keyDateOpenExcl = "daterange:exclusive-end-at-the-extreme-instants"

func dateEval(idx int64, param string) *explore.Result {
	res := &explore.Result{Counts: map[string]int64{}}
	n := int64(len(dateVals) + 1)
	fl := int(idx % 4)
	k := idx / 4
	li, hi := int(k%n), int(k/n) // 0 = unbounded (zero time), i>0 = dateVals[i-1]
	incLo, incHi := fl&1 == 0, fl&2 != 0
	var lo, up time.Time
	los, ups := "unbounded", "unbounded"
	if li > 0 {
		lo = time.Unix(0, dateVals[li-1])
		los = tstr(dateVals[li-1])
	}
	if hi > 0 {
		up = time.Unix(0, dateVals[hi-1])
		ups = tstr(dateVals[hi-1])
	}
	br := map[bool]string{true: "[", false: "("}
	bl := map[bool]string{true: "]", false: ")"}
	text := fmt.Sprintf("daterange %s%s, %s%s", br[incLo], los, ups, bl[incHi])
	res.Key = "date:" + text
	meaning := func(loUnb, hiUnb bool) func(v int) int {
		return func(v int) int {
			x := dateVals[v]
			if !loUnb {
				b := dateVals[li-1]
				if x < b || (x == b && !incLo) {
					return -1
				}
			}
			if !hiUnb {
				b := dateVals[hi-1]
				if x > b || (x == b && !incHi) {
					return -1
				}
			}
			return 1
		}
	}
	// known defects, as models: (1) exclusiveness is applied by +-1 on the int64 bound, also to an
	// unbounded end (which then excludes the extreme instant) and not at the opposite extreme;
	// (2) an end whose order-preserving float image is -Inf / +Inf acts as unbounded
	negInf := int64(-0x7ff0000000000001)
	posInf := int64(0x7ff0000000000000)
	loInf := li > 0 && dateVals[li-1] == negInf
	hiInf := hi > 0 && dateVals[hi-1] == posInf
	quirk := func(infToo bool) func(v int) int {
		return func(v int) int {
			x := dateVals[v]
			loU, hiU := li == 0 || (infToo && loInf), hi == 0 || (infToo && hiInf)
			mn, mx := int64(math.MinInt64), int64(math.MaxInt64)
			if !loU {
				mn = dateVals[li-1]
			}
			if !hiU {
				mx = dateVals[hi-1]
			}
			if !incLo && mn != math.MaxInt64 {
				mn++
			}
			if !incHi && mx != math.MinInt64 {
				mx--
			}
			if x < mn || x > mx {
				return -1
			}
			return 1
		}
	}
	alts := []altModel{{keyDateOpenExcl, quirk(false)}}
	if loInf || hiInf {
		alts = append(alts, altModel{keyDateInf, quirk(true)})
	}
	runV(dateCorpus, res, text,
		func() bluge.Query { return bluge.NewDateRangeInclusiveQuery(lo, up, incLo, incHi).SetField("t") },
		meaning(li == 0, hi == 0),
		func(v int) string { return tstr(dateVals[v]) }, alts...)
	if res.Failure == "" && idx%1501 == 0 {
		res.Sample = map[string]interface{}{"enumeration": "c07-date", "query": text, "expected_matches": res.Outcome}
	}
	return res
}

// ---------------------------------------------------------------- geo

type geoPt struct{ lon, lat float64 }

var geoPts []geoPt
var geoCorpus *vCorpus

type geoBox struct{ tlLon, tlLat, brLon, brLat float64 }
type geoCircle struct {
	lon, lat float64
	dist     string
	meters   float64
}

var geoBoxes []geoBox
var geoCircles []geoCircle

func initGeo(param string) {
	// 7x7 world grid with the poles, +-180 and the date line, and a 5x5 cluster
	// finer than the cells the box searcher enumerates (0.022 x 0.011 degrees)
	for _, lon := range []float64{-180, -120, -60, 0, 60, 120, 180} {
		for _, lat := range []float64{-90, -60, -30, 0, 30, 60, 90} {
			geoPts = append(geoPts, geoPt{lon, lat})
		}
	}
	for i := -2; i <= 2; i++ {
		for j := -2; j <= 2; j++ {
			geoPts = append(geoPts, geoPt{10 + 0.013*float64(i), 20 + 0.013*float64(j)})
		}
	}
	geoCorpus = mkVCorpus("geo", len(geoPts), func(id string, v int) *bluge.Document {
		return bluge.NewDocument(id).AddField(bluge.NewGeoPointField("p", geoPts[v].lon, geoPts[v].lat)).
			AddField(bluge.NewKeywordField("t2", fmt.Sprint(v%2))).AddField(bluge.NewKeywordField("t3", fmt.Sprint(v%3)))
	})
	// boxes: every (top-left, bottom-right) over a corner grid, including
	// date-line crossing (left > right) and inverted (top < bottom: empty) ones
	lons := []float64{-180, -150, -90, -30, 30, 150, 180}
	lats := []float64{-90, -75, -15, 45, 75, 90}
	if param != "thorough" {
		lons = []float64{-180, -30, 150}
		lats = []float64{-90, -15, 45, 90}
	}
	for _, a := range lons {
		for _, b := range lats {
			for _, c := range lons {
				for _, d := range lats {
					geoBoxes = append(geoBoxes, geoBox{a, b, c, d})
				}
			}
		}
	}
	fl := []float64{9.97, 9.9805, 10.0065, 10.02, 10.04}
	fa := []float64{19.97, 19.9805, 20.0065, 20.02, 20.04}
	if param != "thorough" {
		fl = []float64{9.97, 10.0065, 10.04}
		fa = []float64{19.9805, 20.0065, 20.04}
	} else {
		fl = []float64{9.97, 9.9805, 10.0065, 10.04}
		fa = []float64{19.97, 19.9805, 20.0065, 20.04}
	}
	for _, a := range fl {
		for _, b := range fa {
			for _, c := range fl {
				for _, d := range fa {
					geoBoxes = append(geoBoxes, geoBox{a, b, c, d})
				}
			}
		}
	}
	// circles: every world-grid point and the cluster centre x radii
	type rad struct {
		s string
		m float64
	}
	rads := []rad{{"1m", 1}, {"2km", 2000}, {"500km", 500000}, {"3500km", 3500000}, {"7000km", 7000000}, {"10500km", 10500000}, {"20100km", 20100000}}
	if param != "thorough" {
		rads = []rad{{"1m", 1}, {"2km", 2000}, {"3500km", 3500000}, {"10500km", 10500000}}
	}
	for i, p := range geoPts {
		if i >= 49 && !(p.lon == 10 && p.lat == 20) {
			continue
		}
		if param != "thorough" && i < 49 && (i%4 != 0) {
			continue
		}
		for _, r := range rads {
			geoCircles = append(geoCircles, geoCircle{p.lon, p.lat, r.s, r.m})
		}
	}
}

func geoTotal(param string) int64 { return int64(len(geoBoxes) + len(geoCircles)) }

// lonDist is the distance between two longitudes on the circle.
func lonDist(a, b float64) float64 {
	d := math.Mod(math.Abs(a-b), 360)
	if d > 180 {
		d = 360 - d
	}
	return d
}

func boxVerdict(b geoBox, p geoPt) int {
	// latitude: top >= lat >= bottom; an inverted box is empty
	h := b.tlLat - b.brLat
	latIn := p.lat <= b.tlLat && p.lat >= b.brLat
	var w float64
	var lonIn bool
	if b.tlLon <= b.brLon {
		w = b.brLon - b.tlLon
		lonIn = p.lon >= b.tlLon && p.lon <= b.brLon
	} else { // crosses the date line
		w = 360 - (b.tlLon - b.brLon)
		lonIn = p.lon >= b.tlLon || p.lon <= b.brLon
	}
	// not judged: within a relative 1e-3 of an edge (plus the 1e-6 degree
	// quantisation/tolerance of the indexed point)
	tolLat := 1e-3*math.Abs(h) + 2e-6
	tolLon := 1e-3*w + 2e-6
	nearLat := math.Abs(p.lat-b.tlLat) <= tolLat || math.Abs(p.lat-b.brLat) <= tolLat
	nearLon := lonDist(p.lon, b.tlLon) <= tolLon || lonDist(p.lon, b.brLon) <= tolLon
	// at a pole every longitude is the same point: the longitude test is not judged there
	if math.Abs(p.lat) == 90 && latIn && !nearLat && !lonIn {
		return 0
	}
	if nearLat && (lonIn || nearLon) {
		return 0
	}
	if nearLon && (latIn || nearLat) {
		return 0
	}
	if latIn && lonIn {
		return 1
	}
	return -1
}

// geoConj runs the geo query once more as a clause of a conjunction, next to a
// term clause that selects every second / every third document, in both clause
// orders: the conjunction drives the geo clause with Advance onto candidates the
// exact check rejects.  Expected: the geo verdict restricted to the tagged documents.
func geoConj(res *explore.Result, text string, build func() bluge.Query, verdict func(v int) int, desc func(v int) string) {
	saved := runVModes
	defer func() { runVModes = saved }()
	runVModes = []searchMode{modeAll}
	for _, t := range []struct {
		field    string
		mod, rem int
	}{{"t3", 3, 0}, {"t2", 2, 1}} {
		for order := 0; order < 2; order++ {
			if res.Failure != "" {
				return
			}
			t, order := t, order
			out, nt := res.Outcome, res.Nontrivial
			term := func() bluge.Query { return bluge.NewTermQuery(fmt.Sprint(t.rem)).SetField(t.field) }
			runV(geoCorpus, res, fmt.Sprintf("%s AND %s:%d (clause order %d)", text, t.field, t.rem, order),
				func() bluge.Query {
					if order == 0 {
						return bluge.NewBooleanQuery().AddMust(term(), build())
					}
					return bluge.NewBooleanQuery().AddMust(build(), term())
				},
				func(v int) int {
					if v%t.mod != t.rem {
						return -1
					}
					return verdict(v)
				}, desc)
			res.Outcome = out + "|" + res.Outcome
			res.Nontrivial += nt
		}
	}
}

func geoEval(idx int64, param string) *explore.Result {
	res := &explore.Result{Counts: map[string]int64{}}
	desc := func(v int) string { return fmt.Sprintf("(lon %v, lat %v)", geoPts[v].lon, geoPts[v].lat) }
	if idx < int64(len(geoBoxes)) {
		b := geoBoxes[idx]
		text := fmt.Sprintf("geobox topleft=(lon %v, lat %v) bottomright=(lon %v, lat %v)", b.tlLon, b.tlLat, b.brLon, b.brLat)
		res.Key = "geo:" + text
		runV(geoCorpus, res, text,
			func() bluge.Query {
				return bluge.NewGeoBoundingBoxQuery(b.tlLon, b.tlLat, b.brLon, b.brLat).SetField("p")
			},
			func(v int) int { return boxVerdict(b, geoPts[v]) }, desc)
		if res.Failure == "" {
			geoConj(res, text, func() bluge.Query {
				return bluge.NewGeoBoundingBoxQuery(b.tlLon, b.tlLat, b.brLon, b.brLat).SetField("p")
			}, func(v int) int { return boxVerdict(b, geoPts[v]) }, desc)
		}
		if res.Failure == "" && idx%1000 == 0 {
			res.Sample = map[string]interface{}{"enumeration": "c07-geo", "query": text, "expected_matches": res.Outcome}
		}
		return res
	}
	c := geoCircles[idx-int64(len(geoBoxes))]
	text := fmt.Sprintf("geodistance centre=(lon %v, lat %v) distance=%s", c.lon, c.lat, c.dist)
	res.Key = "geo:" + text
	runV(geoCorpus, res, text,
		func() bluge.Query { return bluge.NewGeoDistanceQuery(c.lon, c.lat, c.dist).SetField("p") },
		func(v int) int { return distVerdict(c.lon, c.lat, geoPts[v].lon, geoPts[v].lat, c.meters) }, desc)
	if res.Failure == "" {
		geoConj(res, text, func() bluge.Query { return bluge.NewGeoDistanceQuery(c.lon, c.lat, c.dist).SetField("p") },
			func(v int) int { return distVerdict(c.lon, c.lat, geoPts[v].lon, geoPts[v].lat, c.meters) }, desc)
	}
	return res
}

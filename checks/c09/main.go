// C09: top-N, sorting and paging return the right slice of the full ranking.
//
// Layer (i): the TopN collector alone, fed by a stub searcher that hands out
// pool-allocated matches with prepared numbers, scores and document values
// (the way the real searchers do), over every match list of a stated alphabet,
// every sort order of up to three keys and a grid of (n, from).
// Layer (ii): end to end through Reader.Search on small corpora in one or two
// segments (with and without a pending deletion), including After / Before
// paging chains for every page size under orders made total by appending _id.
//
// The reference is written from the documented meaning only: a stable sort of
// the matches (index order) by the key list, where per key a missing value is
// placed first or last as requested regardless of the direction, present
// values compare naturally (numbers numerically, text bytewise, dates by
// instant) and the direction only flips the comparison of present values.
package main

import (
	"context"
	"fmt"
	"hash/fnv"
	"io"
	"log"
	"os"
	"runtime/debug"
	"sort"
	"strings"
	"time"

	"github.com/blugelabs/bluge"
	"github.com/blugelabs/bluge/numeric"
	"github.com/blugelabs/bluge/search"
	"github.com/blugelabs/bluge/search/collector"
	"github.com/blugelabs/bluge/verifmc"
	segment "github.com/blugelabs/bluge_segment_api"

	"verif/checkmain"
	"verif/crashfs"
	"verif/explore"
	"verif/harness"
)

// ---------------------------------------------------------------- orders

const (
	tScore = iota
	tText
	tNum
	tDate
	tID // only ever appended by the check itself to make an order total
	nTyp
)

var typName = []string{"score", "text", "num", "date", "_id"}

type keyT struct {
	typ   int
	desc  bool
	first bool
}

func (k keyT) String() string {
	s := typName[k.typ]
	if k.desc {
		s += ":desc"
	} else {
		s += ":asc"
	}
	if k.first {
		s += ":missing-first"
	} else {
		s += ":missing-last"
	}
	return s
}

func orderString(o []keyT) string {
	var p []string
	for _, k := range o {
		p = append(p, k.String())
	}
	return "[" + strings.Join(p, ", ") + "]"
}

// key code = typ*4 + desc*2 + first (ascending, missing-last first)
func keyOf(code int) keyT { return keyT{typ: code / 4, desc: code&2 != 0, first: code&1 != 0} }

func nOrders(ntypes, maxKeys int) int64 {
	c := int64(ntypes * 4)
	n, p := int64(0), int64(1)
	for k := 0; k <= maxKeys; k++ {
		n += p
		p *= c
	}
	return n
}

// orderOf decodes the idx-th order (shorter orders first).
func orderOf(idx int64, ntypes int) []keyT {
	c := int64(ntypes * 4)
	p := int64(1)
	k := 0
	for idx >= p {
		idx -= p
		p *= c
		k++
	}
	o := make([]keyT, k)
	for i := k - 1; i >= 0; i-- {
		o[i] = keyOf(int(idx % c))
		idx /= c
	}
	return o
}

// ---------------------------------------------------------------- reference

type val struct {
	missing bool
	f       float64 // score, num, date (unix nanos as float is exact for the alphabet)
	s       string  // text, _id
}

type row [nTyp]val

func cmpVal(a, b val, k keyT) int {
	if a.missing || b.missing {
		if a.missing && b.missing {
			return 0
		}
		// a missing value goes first or last as requested, whatever the direction
		if a.missing == k.first {
			return -1
		}
		return 1
	}
	c := 0
	if k.typ == tText || k.typ == tID {
		c = strings.Compare(a.s, b.s)
	} else if a.f < b.f {
		c = -1
	} else if a.f > b.f {
		c = 1
	}
	if k.desc {
		c = -c
	}
	return c
}

// refOrder: positions of rows (rows are given in index order) in result order.
func refOrder(rows []row, order []keyT) []int {
	idx := make([]int, len(rows))
	for i := range idx {
		idx[i] = i
	}
	sort.SliceStable(idx, func(i, j int) bool {
		for _, k := range order {
			if c := cmpVal(rows[idx[i]][k.typ], rows[idx[j]][k.typ], k); c != 0 {
				return c < 0
			}
		}
		return false
	})
	return idx
}

func window(full []int, n, from int) []int {
	if from >= len(full) {
		return nil
	}
	hi := from + n
	if hi > len(full) {
		hi = len(full)
	}
	return full[from:hi]
}

func sameInts(a, b []int) bool {
	if len(a) != len(b) {
		return false
	}
	for i := range a {
		if a[i] != b[i] {
			return false
		}
	}
	return true
}

func isPrefixOfArrival(w []int) bool {
	for i, v := range w {
		if v != i {
			return false
		}
	}
	return true
}

// ---------------------------------------------------------------- bluge sort order

const (
	fText = "t"
	fNum  = "n"
	fDate = "d"
)

func blugeOrder(o []keyT) search.SortOrder {
	so := search.SortOrder{}
	for _, k := range o {
		var s *search.Sort
		switch k.typ {
		case tScore:
			s = search.SortBy(search.DocumentScore())
		case tText:
			s = search.SortBy(search.Field(fText))
		case tNum:
			s = search.SortBy(search.Field(fNum))
		case tDate:
			s = search.SortBy(search.Field(fDate))
		case tID:
			s = search.SortBy(search.Field("_id"))
		}
		if k.desc {
			s.Desc()
		}
		if k.first {
			s.MissingFirst()
		}
		so = append(so, s)
	}
	return so
}

// ---------------------------------------------------------------- layer (i): stub searcher

// element of a match list
type elem struct {
	score float64
	text  int // 0 "x", 1 "y", 2 missing
	num   int // 0 -1.5, 1 2, 2 missing
}

var textVals = []string{"x", "y"}
var numVals = []float64{-1.5, 2}
var scoreVals = []float64{1, 2, 3}

func (e elem) String() string {
	t, n := "-", "-"
	if e.text < 2 {
		t = textVals[e.text]
	}
	if e.num < 2 {
		n = fmt.Sprint(numVals[e.num])
	}
	return fmt.Sprintf("(s=%v t=%s n=%s)", e.score, t, n)
}

func (e elem) row() row {
	var r row
	r[tScore] = val{f: e.score}
	if e.text < 2 {
		r[tText] = val{s: textVals[e.text]}
	} else {
		r[tText] = val{missing: true}
	}
	if e.num < 2 {
		r[tNum] = val{f: numVals[e.num]}
	} else {
		r[tNum] = val{missing: true}
	}
	r[tDate] = val{missing: true}
	return r
}

// the terms a numeric field puts into the document values: the full-precision
// term and shifted ones (the real field has one per 4 bits; three are enough
// for the collector, the end-to-end layer reads the real thing), in dictionary order
func numTerms(f float64) [][]byte {
	i := numeric.Float64ToInt64(f)
	var out [][]byte
	for _, shift := range []uint{0, 4, 60} {
		t, err := numeric.NewPrefixCodedInt64(i, shift)
		if err != nil {
			break
		}
		out = append(out, []byte(t))
	}
	sort.Slice(out, func(a, b int) bool { return string(out[a]) < string(out[b]) })
	return out
}

var numTermCache = map[float64][][]byte{}

func numTermsCached(f float64) [][]byte {
	if t, ok := numTermCache[f]; ok {
		return t
	}
	t := numTerms(f)
	numTermCache[f] = t
	return t
}

type stubReader struct {
	elems []elem
}

type stubDV struct {
	r      *stubReader
	fields []string
}

func (r *stubReader) DocumentValueReader(fields []string) (segment.DocumentValueReader, error) {
	return &stubDV{r: r, fields: fields}, nil
}

func (r *stubReader) VisitStoredFields(uint64, segment.StoredFieldVisitor) error { return nil }

func (d *stubDV) VisitDocumentValues(number uint64, visitor segment.DocumentValueVisitor) error {
	e := d.r.elems[number]
	seen := [2]bool{}
	for _, f := range d.fields {
		switch f {
		case fText:
			if !seen[0] && e.text < 2 {
				visitor(fText, []byte(textVals[e.text]))
			}
			seen[0] = true
		case fNum:
			if !seen[1] && e.num < 2 {
				for _, t := range numTermsCached(numVals[e.num]) {
					visitor(fNum, t)
				}
			}
			seen[1] = true
		}
	}
	return nil
}

type stubSearcher struct {
	elems []elem
	rd    *stubReader
	i     int
}

func (s *stubSearcher) Next(ctx *search.Context) (*search.DocumentMatch, error) {
	if s.i >= len(s.elems) {
		return nil, nil
	}
	m := ctx.DocumentMatchPool.Get()
	m.Number = uint64(s.i)
	m.Score = s.elems[s.i].score
	m.SetReader(s.rd)
	s.i++
	return m, nil
}
func (s *stubSearcher) DocumentMatchPoolSize() int { return 1 }
func (s *stubSearcher) Close() error               { return nil }

var bg = context.Background()

// runCollector returns the numbers of the hits in result order
func runCollector(n, from int, so search.SortOrder, elems []elem, rd *stubReader, buf []int) ([]int, string) {
	c := collector.NewTopNCollector(n, from, so)
	it, err := c.Collect(bg, nil, &stubSearcher{elems: elems, rd: rd})
	if err != nil {
		return nil, "Collect: " + err.Error()
	}
	out := buf[:0]
	for {
		m, err := it.Next()
		if err != nil {
			return nil, "Next: " + err.Error()
		}
		if m == nil {
			break
		}
		if m.Number >= uint64(len(elems)) {
			return nil, fmt.Sprintf("hit with number %d that the searcher never produced", m.Number)
		}
		if m.Score != elems[m.Number].score {
			return nil, fmt.Sprintf("hit %d carries score %v, the searcher gave it %v", m.Number, m.Score, elems[m.Number].score)
		}
		out = append(out, int(m.Number))
	}
	return out, ""
}

func listString(elems []elem) string {
	var p []string
	for _, e := range elems {
		p = append(p, e.String())
	}
	return "[" + strings.Join(p, " ") + "]"
}

// projected alphabet for the attributes an order looks at (bit 0 score, 1 text, 2 num)
func alphabetFor(mask int) []elem {
	sc := []float64{1}
	tx := []int{0}
	nm := []int{0}
	if mask&1 != 0 {
		sc = []float64{1, 2}
	}
	if mask&2 != 0 {
		tx = []int{0, 1, 2}
	}
	if mask&4 != 0 {
		nm = []int{0, 1, 2}
	}
	var out []elem
	for _, s := range sc {
		for _, t := range tx {
			for _, n := range nm {
				out = append(out, elem{s, t, n})
			}
		}
	}
	return out
}

func maskOf(o []keyT) int {
	m := 0
	for _, k := range o {
		m |= 1 << uint(k.typ)
	}
	return m
}

// list length bound by alphabet size and number of keys
func lenBound(a, nkeys int, param string) int {
	th := param == "thorough"
	if nkeys <= 2 {
		switch {
		case a <= 1:
			return pick(th, 8, 10)
		case a == 2:
			return pick(th, 6, 9)
		case a == 3:
			return pick(th, 5, 6)
		case a == 6:
			return pick(th, 3, 4)
		default: // 9
			return pick(th, 3, 3)
		}
	}
	switch {
	case a == 2:
		return pick(th, 6, 8)
	case a == 3:
		return pick(th, 4, 5)
	case a == 6:
		return pick(th, 2, 3)
	default: // 9, 18
		return pick(th, 2, 3)
	}
}

func pick(th bool, q, t int) int {
	if th {
		return t
	}
	return q
}

type nf struct{ n, from int }

var fullGrid = func() []nf {
	var g []nf
	for n := 0; n <= 13; n++ {
		for f := 0; f <= 13; f++ {
			g = append(g, nf{n, f})
		}
	}
	return g
}()

// quick grid for lists of at most L matches: everything up to L+1 and the
// settings around the slice/heap switch (size+skip > 10 selects the heap)
func smallGrid(L int) []nf {
	var g []nf
	for n := 0; n <= L+1; n++ {
		for f := 0; f <= L+1; f++ {
			g = append(g, nf{n, f})
		}
	}
	for _, x := range []nf{{11, 0}, {0, 11}, {6, 5}} {
		if x.n > L+1 || x.from > L+1 {
			g = append(g, x)
		}
	}
	return g
}

func gridFor(L, nkeys int, param string) []nf {
	if param == "thorough" && nkeys <= 2 {
		return fullGrid
	}
	return smallGrid(L)
}

func powi(a, b int) int64 {
	r := int64(1)
	for i := 0; i < b; i++ {
		r *= int64(a)
	}
	return r
}

func nLists(a, L int) int64 {
	var n int64
	for l := 0; l <= L; l++ {
		n += powi(a, l)
	}
	return n
}

// decode list number k (shorter lists first) over an alphabet
func listOf(k int64, alpha []elem, buf []elem) []elem {
	a := int64(len(alpha))
	l := 0
	p := int64(1)
	for k >= p {
		k -= p
		p *= a
		l++
	}
	out := buf[:0]
	for i := 0; i < l; i++ {
		out = append(out, alpha[k%a])
		k /= a
	}
	return out
}

type collFail struct {
	order []keyT
	elems []elem
	n, f  int
	got   []int
	want  []int
	err   string
}

func (cf *collFail) key() string {
	return fmt.Sprintf("collector: order=%s list=%s n=%d from=%d", orderString(cf.order), listString(cf.elems), cf.n, cf.f)
}

func (cf *collFail) msg() string {
	if cf.err != "" {
		return cf.key() + ": " + cf.err
	}
	return fmt.Sprintf("%s: the collector returned hits %v, the elements [from, from+n) of the full ranking are %v (hits are named by arrival position)", cf.key(), cf.got, cf.want)
}

// checkList runs one (order, list) over a grid; returns evals, nontrivial, failure
func checkList(order []keyT, so search.SortOrder, elems []elem, grid []nf, h io.Writer) (int64, int64, *collFail) {
	rows := make([]row, len(elems))
	for i, e := range elems {
		rows[i] = e.row()
	}
	full := refOrder(rows, order)
	rd := &stubReader{elems: elems}
	var buf [16]int
	var evals, nt int64
	for _, g := range grid {
		got, e := runCollector(g.n, g.from, so, elems, rd, buf[:])
		want := window(full, g.n, g.from)
		evals++
		if len(want) > 0 && !isPrefixOfArrival(want) {
			nt++
		}
		if e != "" || !sameInts(got, want) {
			return evals, nt, &collFail{order: order, elems: append([]elem(nil), elems...), n: g.n, f: g.from, got: append([]int(nil), got...), want: want, err: e}
		}
		if h != nil {
			for _, x := range got {
				_, _ = h.Write([]byte{byte(x)})
			}
			_, _ = h.Write([]byte{255})
		}
	}
	return evals, nt, nil
}

// enumeration 1: one case = one sort order; inner loop = lists x grid
func ordersTotal(param string) int64 { return nOrders(3, 3) }

func ordersEval(idx int64, param string) *explore.Result {
	order := orderOf(idx, 3)
	alpha := alphabetFor(maskOf(order))
	L := lenBound(len(alpha), len(order), param)
	grid := gridFor(L, len(order), param)
	so := blugeOrder(order)
	res := &explore.Result{}
	h := fnv.New64a()
	total := nLists(len(alpha), L)
	var buf [16]elem
	for k := int64(0); k < total; k++ {
		elems := listOf(k, alpha, buf[:])
		ev, nt, f := checkList(order, so, elems, grid, h)
		res.Evals += ev
		res.Nontrivial += nt
		if f != nil {
			res.Failure = f.msg()
			res.Key = f.key()
			return res
		}
	}
	res.Outcome = fmt.Sprintf("%d:%x", idx, h.Sum64())
	if idx%211 == 0 {
		ex := listOf(total-1, alpha, buf[:])
		rows := make([]row, len(ex))
		for i, e := range ex {
			rows[i] = e.row()
		}
		res.Sample = map[string]interface{}{"layer": "collector", "order": orderString(order), "alphabet": len(alpha), "max_list_length": L,
			"lists": total, "grid_points": len(grid), "example_list": listString(ex), "example_full_ranking_by_arrival_position": refOrder(rows, order)}
	}
	return res
}

// enumeration 2: the complete (n, from) grid {0..13}^2 on tie-heavy lists that cross
// the slice/heap switch; one case = one list
type gridGroup struct {
	name   string
	alpha  []elem
	maxLen int
	orders [][]keyT
}

func gridGroups(param string) []gridGroup {
	th := param == "thorough"
	sDesc := keyT{typ: tScore, desc: true}
	sAsc := keyT{typ: tScore}
	g := []gridGroup{
		{"score{1,2}", []elem{{1, 0, 0}, {2, 0, 0}}, pick(th, 12, 13), [][]keyT{{sDesc}, {sAsc}}},
		{"text{x,-}xscore{1,2}", []elem{{1, 0, 0}, {2, 0, 0}, {1, 2, 0}, {2, 2, 0}}, pick(th, 5, 6), [][]keyT{
			{{typ: tText, first: true}, sDesc},
			{{typ: tText, desc: true}, sAsc},
			{sDesc, {typ: tText, desc: true, first: true}},
			{{typ: tText}},
		}},
	}
	if th {
		g = append(g, gridGroup{"score{1,2,3}", []elem{{1, 0, 0}, {2, 0, 0}, {3, 0, 0}}, 8, [][]keyT{{sDesc}, {sAsc}}})
	}
	return g
}

func gridTotal(param string) int64 {
	var n int64
	for _, g := range gridGroups(param) {
		n += nLists(len(g.alpha), g.maxLen)
	}
	return n
}

func gridEval(idx int64, param string) *explore.Result {
	res := &explore.Result{}
	for _, g := range gridGroups(param) {
		t := nLists(len(g.alpha), g.maxLen)
		if idx >= t {
			idx -= t
			continue
		}
		var buf [16]elem
		elems := listOf(idx, g.alpha, buf[:])
		h := fnv.New64a()
		for _, o := range g.orders {
			ev, nt, f := checkList(o, blugeOrder(o), elems, fullGrid, h)
			res.Evals += ev
			res.Nontrivial += nt
			if f != nil {
				res.Failure = f.msg()
				res.Key = f.key()
				return res
			}
		}
		res.Outcome = fmt.Sprintf("%s:%d:%x", g.name, idx, h.Sum64())
		if idx%4099 == 0 {
			res.Sample = map[string]interface{}{"layer": "collector-grid", "alphabet": g.name, "list": listString(elems), "orders": len(g.orders), "grid": "{0..13}^2"}
		}
		return res
	}
	return res
}

// ---------------------------------------------------------------- layer (ii): end to end

// nine document kinds: the orthogonal array (a, b, a+b, a+2b) mod 3 over the
// levels of (text, num, date, body) -- every pair of fields shows all nine
// level combinations.
type kind struct{ t, n, d, b int }

var kinds = func() []kind {
	var k []kind
	for a := 0; a < 3; a++ {
		for b := 0; b < 3; b++ {
			k = append(k, kind{a, b, (a + b) % 3, (a + 2*b) % 3})
		}
	}
	return k
}()

var dateVals = []time.Time{time.Date(1960, 1, 2, 3, 4, 5, 0, time.UTC), time.Date(2020, 6, 7, 8, 9, 10, 0, time.UTC)}
var bodyVals = []string{"w", "w w", "v"} // "v" does not match the query w

var idByPos = []string{"d", "a", "f", "b", "e", "c", "h", "g"}

func (k kind) String() string {
	t, n, d := "-", "-", "-"
	if k.t < 2 {
		t = textVals[k.t]
	}
	if k.n < 2 {
		n = fmt.Sprint(numVals[k.n])
	}
	if k.d < 2 {
		d = fmt.Sprint(dateVals[k.d].Year())
	}
	return fmt.Sprintf("{t=%s n=%s d=%s body=%q}", t, n, d, bodyVals[k.b])
}

func makeDoc(id string, k kind) *bluge.Document {
	d := bluge.NewDocument(id)
	if k.t < 2 {
		d.AddField(bluge.NewKeywordField(fText, textVals[k.t]).Sortable())
	}
	if k.n < 2 {
		d.AddField(bluge.NewNumericField(fNum, numVals[k.n]))
	}
	if k.d < 2 {
		d.AddField(bluge.NewDateTimeField(fDate, dateVals[k.d]))
	}
	d.AddField(bluge.NewTextField("body", bodyVals[k.b]))
	return d
}

// corpus groups: keysMain = longest order on the main layout (two segments,
// split in the middle; one segment for fewer than two documents), keysOther =
// longest order on the other layouts (-1: the other layouts are not built)
type corpGroup struct {
	name      string
	lists     [][]int
	keysMain  int
	keysOther int
	long      bool
}

func allLists(l int) [][]int {
	n := int(powi(9, l))
	out := make([][]int, 0, n)
	for k := 0; k < n; k++ {
		x := k
		li := make([]int, l)
		for i := 0; i < l; i++ {
			li[i] = x % 9
			x /= 9
		}
		out = append(out, li)
	}
	return out
}

func strideLists(l int, steps []int) [][]int {
	var out [][]int
	for _, st := range steps {
		for s := 0; s < 9; s++ {
			li := make([]int, l)
			for i := 0; i < l; i++ {
				li[i] = (s + i*st) % 9
			}
			out = append(out, li)
		}
	}
	return out
}

var corpCache = map[string][]corpGroup{}

func corpGroups(param string) []corpGroup {
	if g, ok := corpCache[param]; ok {
		return g
	}
	th := param == "thorough"
	var short [][]int
	for l := 0; l <= 2; l++ {
		short = append(short, allLists(l)...)
	}
	var g []corpGroup
	if th {
		g = []corpGroup{
			{name: "len<=2", lists: short, keysMain: 3, keysOther: 2},
			{name: "len=3", lists: allLists(3), keysMain: 1, keysOther: -1},
			{name: "stride len=3", lists: strideLists(3, []int{1, 2, 4}), keysMain: 2, keysOther: 1},
			{name: "stride len=4", lists: strideLists(4, []int{1, 2, 3, 4, 5, 6, 7, 8}), keysMain: 1, keysOther: 1},
			{name: "stride len=5", lists: strideLists(5, []int{1, 2, 4, 5, 7, 8}), keysMain: 1, keysOther: 1, long: true},
			{name: "stride len=6", lists: strideLists(6, []int{1, 2, 4, 5, 7, 8}), keysMain: 1, keysOther: 1, long: true},
			{name: "stride len=6 (2 keys)", lists: strideLists(6, []int{1})[:3], keysMain: 2, keysOther: 2, long: true},
		}
	} else {
		g = []corpGroup{
			{name: "len<=2", lists: short, keysMain: 2, keysOther: 1},
			{name: "stride len=3", lists: strideLists(3, []int{1, 2, 3, 4, 5, 6, 7, 8}), keysMain: 1, keysOther: 1},
			{name: "stride len=6", lists: strideLists(6, []int{1, 2, 4}), keysMain: 1, keysOther: 1, long: true},
			{name: "stride len=6 (2 keys)", lists: strideLists(6, []int{1})[:1], keysMain: 2, keysOther: 2, long: true},
		}
	}
	corpCache[param] = g
	return g
}

// layouts of a list of length L: 0 = one batch; k in 1..L-1 = two batches split
// at k; L = one batch led by an extra document that a second batch deletes
// (long lists: one batch, split in the middle, deletion + split in the middle).
// The main layout is the split in the middle (one batch when L < 2).
func nLayouts(L int, g *corpGroup) int {
	if L == 0 || g.keysOther < 0 {
		return 1
	}
	if g.long {
		return 3
	}
	return L + 1
}

type layoutT struct {
	split   int // 0 = none
	deleted bool
	main    bool
}

func layoutOf(L, i int, g *corpGroup) layoutT {
	if L == 0 {
		// a writer that never received a batch leaves no snapshot to open: the
		// empty corpus is an inserted and deleted document
		return layoutT{deleted: true, main: true}
	}
	mainSplit := 0
	if L >= 2 {
		mainSplit = L / 2
	}
	if g.keysOther < 0 {
		return layoutT{split: mainSplit, main: true}
	}
	if g.long {
		switch i {
		case 0:
			return layoutT{}
		case 1:
			return layoutT{split: mainSplit, main: true}
		default:
			return layoutT{split: mainSplit, deleted: true}
		}
	}
	if i == 0 {
		return layoutT{main: L < 2}
	}
	if i < L {
		return layoutT{split: i, main: i == mainSplit}
	}
	return layoutT{deleted: true}
}

func (l layoutT) String() string {
	s := "one-segment"
	if l.split > 0 {
		s = fmt.Sprintf("split@%d", l.split)
	}
	if l.deleted {
		s += "+deleted-leading-doc"
	}
	return s
}

func e2eTotal(param string) int64 {
	var n int64
	gs := corpGroups(param)
	for gi := range gs {
		for _, l := range gs[gi].lists {
			n += int64(nLayouts(len(l), &gs[gi]))
		}
	}
	return n
}

func e2eCase(idx int64, param string) (g *corpGroup, list []int, lay layoutT) {
	gs := corpGroups(param)
	for gi := range gs {
		g = &gs[gi]
		for _, l := range g.lists {
			n := int64(nLayouts(len(l), g))
			if idx < n {
				return g, l, layoutOf(len(l), int(idx), g)
			}
			idx -= n
		}
	}
	return
}

func buildIndex(list []int, lay layoutT) (*bluge.Reader, string) { return buildIndexAt(list, 0, lay) }

// buildIndexAt: the documents get the ids of the positions off, off+1, ...
func buildIndexAt(list []int, off int, lay layoutT) (*bluge.Reader, string) {
	dir := crashfs.New()
	dir.Points = false
	var fail string
	s := verifmc.Run(verifmc.Options{}, func() {
		w, err := bluge.OpenWriter(harness.Config(dir, harness.Opts{NoMemMerge: true}))
		if err != nil {
			fail = "open writer: " + err.Error()
			return
		}
		b := bluge.NewBatch()
		n := 0
		if lay.deleted {
			b.Insert(makeDoc("zz", kinds[0]))
			n++
		}
		for i, k := range list {
			if lay.split > 0 && i == lay.split {
				if err := w.Batch(b); err != nil {
					fail = "batch: " + err.Error()
					return
				}
				b = bluge.NewBatch()
				n = 0
			}
			b.Insert(makeDoc(idByPos[off+i], kinds[k]))
			n++
		}
		if n > 0 {
			if err := w.Batch(b); err != nil {
				fail = "batch: " + err.Error()
				return
			}
		}
		if lay.deleted {
			b = bluge.NewBatch()
			b.Delete(bluge.Identifier("zz"))
			if err := w.Batch(b); err != nil {
				fail = "delete batch: " + err.Error()
				return
			}
		}
		if err := w.Close(); err != nil {
			fail = "close: " + err.Error()
		}
	})
	if s.Failure != "" {
		return nil, "building the index failed: " + s.Failure
	}
	if fail != "" {
		return nil, "building the index failed: " + fail
	}
	r, err := bluge.OpenReader(harness.Config(dir, harness.Opts{}))
	if err != nil {
		return nil, "open reader: " + err.Error()
	}
	return r, ""
}

type hit struct {
	pos   int // position in the corpus list (index order)
	score float64
	sv    [][]byte
}

type e2e struct {
	r      *bluge.Reader
	rs     []*bluge.Reader // when set: bluge.MultiSearch over these readers, hits identified by their stored _id
	list   []int
	numPos map[uint64]int // document number -> position in the list
}

func (x *e2e) search(req bluge.SearchRequest) (search.DocumentMatchIterator, error) {
	if len(x.rs) > 0 {
		return bluge.MultiSearch(bg, req, x.rs...)
	}
	return x.r.Search(bg, req)
}

func (x *e2e) posOf(m *search.DocumentMatch) (int, bool) {
	if len(x.rs) == 0 {
		p, ok := x.numPos[m.Number]
		return p, ok
	}
	var id string
	_ = m.VisitStoredFields(func(f string, v []byte) bool {
		if f == "_id" {
			id = string(v)
		}
		return true
	})
	for i := range x.list {
		if idByPos[i] == id {
			return i, true
		}
	}
	return -1, false
}

func (x *e2e) run(req bluge.SearchRequest) ([]hit, string) {
	var out []hit
	var fail string
	verifmc.Quiet(func() {
		it, err := x.search(req)
		if err != nil {
			fail = "Search: " + err.Error()
			return
		}
		for {
			m, err := it.Next()
			if err != nil {
				fail = "Next: " + err.Error()
				return
			}
			if m == nil {
				return
			}
			p, ok := x.posOf(m)
			if !ok {
				fail = fmt.Sprintf("hit with document number %d which is not a live document", m.Number)
				return
			}
			out = append(out, hit{pos: p, score: m.Score, sv: m.SortValue})
		}
	})
	return out, fail
}

func queryOf(qi int) bluge.Query {
	if qi == 0 {
		return bluge.NewMatchAllQuery()
	}
	return bluge.NewMatchQuery("w").SetField("body")
}

var queryName = []string{"match-all", "body:w"}

// load the number->position map and the reference scores with the AllMatches
// collector (which is not the subject of this check)
func (x *e2e) reference(qi int) (map[int]float64, string) {
	scores := map[int]float64{}
	var fail string
	verifmc.Quiet(func() {
		it, err := x.search(bluge.NewAllMatches(queryOf(qi)))
		if err != nil {
			fail = err.Error()
			return
		}
		for {
			m, err := it.Next()
			if err != nil {
				fail = err.Error()
				return
			}
			if m == nil {
				return
			}
			var id string
			_ = m.VisitStoredFields(func(f string, v []byte) bool {
				if f == "_id" {
					id = string(v)
				}
				return true
			})
			p := -1
			for i := range x.list {
				if idByPos[i] == id {
					p = i
				}
			}
			if p < 0 {
				fail = "unexpected document " + id
				return
			}
			x.numPos[m.Number] = p
			scores[p] = m.Score
		}
	})
	return scores, fail
}

func posString(list []int, ps []int) string {
	var s []string
	for _, p := range ps {
		s = append(s, idByPos[p])
	}
	return "[" + strings.Join(s, " ") + "]"
}

func hitPos(h []hit) []int {
	out := make([]int, len(h))
	for i := range h {
		out[i] = h[i].pos
	}
	return out
}

func corpusString(list []int) string {
	var s []string
	for i, k := range list {
		s = append(s, idByPos[i]+"="+kinds[k].String())
	}
	return "[" + strings.Join(s, " ") + "]"
}

func kindList(list []int) string {
	var s []string
	for _, k := range list {
		s = append(s, fmt.Sprintf("k%d", k))
	}
	return "[" + strings.Join(s, ",") + "]"
}

func topN(n, from int, qi int, order []keyT) *bluge.TopNSearch {
	return bluge.NewTopNSearch(n, queryOf(qi)).SetFrom(from).SortByCustom(blugeOrder(order))
}

// string form of an order for the SortBy([]string) convenience API, if it has one
func stringForm(order []keyT) ([]string, bool) {
	var out []string
	for _, k := range order {
		if k.first {
			return nil, false
		}
		name := map[int]string{tScore: "_score", tText: fText, tNum: fNum, tDate: fDate, tID: "_id"}[k.typ]
		if k.typ == tScore && !k.desc {
			return nil, false // the tests of the repository only pin "-_score"
		}
		if k.desc {
			name = "-" + name
		}
		out = append(out, name)
	}
	return out, len(out) > 0
}

func e2eEval(idx int64, param string) *explore.Result {
	g, list, lay := e2eCase(idx, param)
	res := &explore.Result{Counts: map[string]int64{}}
	where := fmt.Sprintf("e2e: corpus=%s layout=%s", kindList(list), lay)
	r, fail := buildIndex(list, lay)
	if fail != "" {
		res.Failure = where + ": " + fail
		res.Key = where + " build"
		return res
	}
	defer r.Close()
	x := &e2e{r: r, list: list, numPos: map[uint64]int{}}
	maxKeys := g.keysOther
	if lay.main {
		maxKeys = g.keysMain
	}
	return e2eCore(x, res, where, nOrders(4, maxKeys), 4, param == "thorough", idx%97 == 0, lay.String())
}

// e2eCore: every query x order x (n, from) x paging chain on the reader(s) of x
func e2eCore(x *e2e, res *explore.Result, where string, nord int64, ntypes int, bothID bool, sample bool, layName string) *explore.Result {
	list := x.list
	h := fnv.New64a()
	L := len(list)
	failf := func(key, format string, a ...interface{}) *explore.Result {
		res.Key = key
		res.Failure = key + ": " + fmt.Sprintf(format, a...) + "   corpus in index order: " + corpusString(list)
		return res
	}
	for qi := 0; qi < 2; qi++ {
		qwhere := where + " query=" + queryName[qi]
		scores, fail := x.reference(qi)
		if fail != "" {
			return failf(qwhere+" reference", "%s", fail)
		}
		// rows of the matches in index order
		var rows []row
		var rowPos []int
		for i, k := range list {
			kd := kinds[k]
			if qi == 1 && kd.b == 2 {
				if _, ok := scores[i]; ok {
					return failf(qwhere+" reference", "document %s does not contain w but matched", idByPos[i])
				}
				continue
			}
			sc, ok := scores[i]
			if !ok {
				return failf(qwhere+" reference", "document %s should match but the AllMatches search did not return it", idByPos[i])
			}
			var rw row
			rw[tScore] = val{f: sc}
			rw[tText] = val{missing: kd.t == 2}
			if kd.t < 2 {
				rw[tText].s = textVals[kd.t]
			}
			rw[tNum] = val{missing: kd.n == 2}
			if kd.n < 2 {
				rw[tNum].f = numVals[kd.n]
			}
			rw[tDate] = val{missing: kd.d == 2}
			if kd.d < 2 {
				rw[tDate].f = float64(dateVals[kd.d].Unix())
			}
			rw[tID] = val{s: idByPos[i]}
			rows = append(rows, rw)
			rowPos = append(rowPos, i)
		}
		if len(scores) != len(rows) {
			return failf(qwhere+" reference", "AllMatches returned %d documents, %d match", len(scores), len(rows))
		}
		toPos := func(ix []int) []int {
			out := make([]int, len(ix))
			for i, v := range ix {
				out[i] = rowPos[v]
			}
			return out
		}
		checkHits := func(key string, got []hit, want []int, what string) *explore.Result {
			gp := hitPos(got)
			if !sameInts(gp, want) {
				return failf(key, "%s returned %s, expected %s", what, posString(list, gp), posString(list, want))
			}
			for _, hh := range got {
				if hh.score != scores[hh.pos] {
					return failf(key, "%s: hit %s carries score %v, its score for this query is %v", what, idByPos[hh.pos], hh.score, scores[hh.pos])
				}
			}
			for _, p := range gp {
				_, _ = h.Write([]byte{byte(p)})
			}
			_, _ = h.Write([]byte{255})
			return nil
		}
		for oi := int64(0); oi < nord; oi++ {
			order := orderOf(oi, ntypes)
			owhere := qwhere + " order=" + orderString(order)
			// (a) the order as given: ties fall back to index order; (n, from) grid
			full := toPos(refOrder(rows, order))
			for n := 0; n <= L+1; n++ {
				for from := 0; from <= L+1; from++ {
					got, fail := x.run(topN(n, from, qi, order))
					key := fmt.Sprintf("%s n=%d from=%d", owhere, n, from)
					if fail != "" {
						return failf(key, "%s", fail)
					}
					want := window(full, n, from)
					res.Evals++
					if len(want) > 0 && !isPrefixOfArrival(want) {
						res.Nontrivial++
					}
					if f := checkHits(key, got, want, "the search"); f != nil {
						return f
					}
				}
			}
			// the slice/heap switch end to end
			for _, g2 := range []nf{{11, 0}, {2, 9}} {
				got, fail := x.run(topN(g2.n, g2.from, qi, order))
				key := fmt.Sprintf("%s n=%d from=%d", owhere, g2.n, g2.from)
				if fail != "" {
					return failf(key, "%s", fail)
				}
				res.Evals++
				if f := checkHits(key, got, window(full, g2.n, g2.from), "the search"); f != nil {
					return f
				}
			}
			if sf, ok := stringForm(order); ok {
				var got []hit
				var fail string
				got, fail = x.run(bluge.NewTopNSearch(L+1, queryOf(qi)).SortBy(sf))
				key := fmt.Sprintf("%s via SortBy(%q)", owhere, sf)
				if fail != "" {
					return failf(key, "%s", fail)
				}
				res.Evals++
				if f := checkHits(key, got, full, "the search"); f != nil {
					return f
				}
			}
			// (b) made total by appending _id: paging chains for every page size
			for idDesc := 0; idDesc < 2; idDesc++ {
				if idDesc == 1 && !bothID {
					break
				}
				tot := append(append([]keyT(nil), order...), keyT{typ: tID, desc: idDesc == 1})
				twhere := qwhere + " order=" + orderString(tot)
				fullT := toPos(refOrder(rows, tot))
				all, fail := x.run(topN(L+1, 0, qi, tot))
				if fail != "" {
					return failf(twhere+" n=all", "%s", fail)
				}
				res.Evals++
				if f := checkHits(twhere+" n=all", all, fullT, "the search"); f != nil {
					return f
				}
				for p := 1; p <= len(fullT)+1; p++ {
					// After chain from the start
					var after [][]byte
					done := 0
					for page := 0; ; page++ {
						req := topN(p, 0, qi, tot)
						if page > 0 {
							req.After(after)
						}
						got, fail := x.run(req)
						key := fmt.Sprintf("%s after-chain size=%d page=%d", twhere, p, page)
						if fail != "" {
							return failf(key, "%s", fail)
						}
						want := window(fullT, p, done)
						res.Evals++
						if len(want) > 0 {
							res.Nontrivial++
						}
						res.Counts["paging_requests"]++
						if f := checkHits(key, got, want, "the page"); f != nil {
							return f
						}
						if len(got) == 0 {
							break
						}
						done += len(got)
						after = got[len(got)-1].sv
					}
					if done != len(fullT) {
						return failf(fmt.Sprintf("%s after-chain size=%d", twhere, p), "the chain visited %d of %d matches", done, len(fullT))
					}
					// Before chain from the end: the key of the last match, then backwards
					if len(all) == 0 {
						continue
					}
					before := all[len(all)-1].sv
					end := len(fullT) - 1 // matches [0, end) are still to be visited
					for page := 0; ; page++ {
						got, fail := x.run(topN(p, 0, qi, tot).Before(before))
						key := fmt.Sprintf("%s before-chain size=%d page=%d", twhere, p, page)
						if fail != "" {
							return failf(key, "%s", fail)
						}
						lo := end - p
						if lo < 0 {
							lo = 0
						}
						want := fullT[lo:end]
						res.Evals++
						if len(want) > 0 {
							res.Nontrivial++
						}
						res.Counts["paging_requests"]++
						if f := checkHits(key, got, want, "the page"); f != nil {
							return f
						}
						if len(got) == 0 {
							break
						}
						end = lo
						before = got[0].sv
					}
					if end != 0 {
						return failf(fmt.Sprintf("%s before-chain size=%d", twhere, p), "the chain stopped with %d matches unvisited", end)
					}
				}
			}
		}
		if qi == 1 && sample && len(rows) > 1 {
			sc := map[string]float64{}
			for p, s := range scores {
				sc[idByPos[p]] = s
			}
			o := []keyT{{typ: tScore, desc: true}, {typ: tNum, first: true}}
			res.Sample = map[string]interface{}{"layer": "end-to-end", "corpus": corpusString(list), "layout": layName, "query": queryName[qi], "scores": sc,
				"orders_checked": nord, "example_order": orderString(o), "example_full_ranking": posString(list, toPos(refOrder(rows, o)))}
		}
	}
	res.Outcome = fmt.Sprintf("%s|%s|%x", kindList(list), layName, h.Sum64())
	return res
}

// enumeration 6: the collector around its second internal boundary, the
// pre-allocation cap of 1000 (PreAllocSizeSkipCap): tie-heavy lists of 995..1010
// matches; one case = (length, pattern, order)
var capOrders = [][]keyT{
	{{typ: tScore, desc: true}},
	{{typ: tScore}},
	{{typ: tText, first: true}, {typ: tScore, desc: true}},
	{{typ: tText, desc: true}, {typ: tScore}},
}

const capMinLen, capMaxLen, capPatterns = 995, 1010, 2

func capList(length, pattern int) []elem {
	out := make([]elem, length)
	for i := range out {
		if pattern == 0 {
			out[i] = elem{score: float64(1 + i%2), text: i % 3}
		} else {
			out[i] = elem{score: float64(1 + (i/3)%2), text: (i * i) % 3}
		}
	}
	return out
}

// (n, from) with from+n in {998..1003} for from in {0,1,500,sum-1,sum}, and four settings beyond
var capGrid = func() []nf {
	var g []nf
	for sum := 998; sum <= 1003; sum++ {
		for _, f := range []int{0, 1, 500, sum - 1, sum} {
			g = append(g, nf{sum - f, f})
		}
	}
	return append(g, nf{1001, 0}, nf{1, 1000}, nf{20, 1100}, nf{0, 1001})
}()

func capTotal(param string) int64 {
	return int64((capMaxLen - capMinLen + 1) * capPatterns * len(capOrders))
}

func capEval(idx int64, param string) *explore.Result {
	oi := int(idx % int64(len(capOrders)))
	idx /= int64(len(capOrders))
	pattern := int(idx % capPatterns)
	length := capMinLen + int(idx/capPatterns)
	order := capOrders[oi]
	elems := capList(length, pattern)
	res := &explore.Result{}
	rows := make([]row, len(elems))
	for i, e := range elems {
		rows[i] = e.row()
	}
	full := refOrder(rows, order)
	rd := &stubReader{elems: elems}
	so := blugeOrder(order)
	h := fnv.New64a()
	buf := make([]int, 0, 1100)
	for _, g := range capGrid {
		got, e := runCollector(g.n, g.from, so, elems, rd, buf)
		want := window(full, g.n, g.from)
		res.Evals++
		if len(want) > 0 && !isPrefixOfArrival(want) {
			res.Nontrivial++
		}
		if e != "" || !sameInts(got, want) {
			res.Key = fmt.Sprintf("collector-cap: order=%s matches=%d pattern=%d n=%d from=%d", orderString(order), length, pattern, g.n, g.from)
			first := -1
			for i := 0; i < len(got) && i < len(want); i++ {
				if got[i] != want[i] {
					first = i
					break
				}
			}
			res.Failure = fmt.Sprintf("%s: the collector returned %d hits, the window [from, from+n) of the full ranking of %d matches has %d (first differing position %d) %s", res.Key, len(got), length, len(want), first, e)
			return res
		}
		for _, v := range got {
			_, _ = h.Write([]byte{byte(v), byte(v >> 8)})
		}
	}
	res.Outcome = fmt.Sprintf("%d:%d:%d:%x", length, pattern, oi, h.Sum64())
	if idx == 0 && oi == 0 {
		res.Sample = map[string]interface{}{"layer": "collector-cap", "matches": length, "order": orderString(order), "settings": len(capGrid)}
	}
	return res
}

// enumeration 7: bluge.MultiSearch over 2 and 3 readers; the corpus is cut into
// consecutive parts, one reader per part (document numbers restart in every
// reader, so documents of different readers share numbers while their field
// values differ); the reference is the order over the union, index order =
// reader order, then order inside the reader
type multiGroup struct {
	name  string
	lists [][]int
	parts [][]int // sizes of the parts
	keys  int
}

var multiCache = map[string][]multiGroup{}

func multiGroups(param string) []multiGroup {
	if g, ok := multiCache[param]; ok {
		return g
	}
	var g []multiGroup
	if param == "thorough" {
		g = []multiGroup{
			{"len=2", allLists(2), [][]int{{1, 1}}, 2},
			{"len=3", allLists(3), [][]int{{1, 2}, {2, 1}, {1, 1, 1}}, 1},
			{"stride len=3", strideLists(3, []int{1, 2, 4}), [][]int{{1, 2}, {1, 1, 1}}, 2},
			{"stride len=4", strideLists(4, []int{1, 2, 3, 4, 5, 6, 7, 8}), [][]int{{2, 2}, {1, 2, 1}, {3, 1}, {1, 3}}, 1},
			{"stride len=5", strideLists(5, []int{1, 2, 4}), [][]int{{2, 3}, {2, 1, 2}}, 1},
		}
	} else {
		g = []multiGroup{
			{"len=2", allLists(2), [][]int{{1, 1}}, 2},
			{"stride len=3", strideLists(3, []int{1, 2, 3, 4, 5, 6, 7, 8}), [][]int{{1, 2}, {2, 1}, {1, 1, 1}}, 1},
			{"stride len=4", strideLists(4, []int{1, 2, 4}), [][]int{{2, 2}, {1, 2, 1}, {3, 1}}, 1},
		}
	}
	multiCache[param] = g
	return g
}

func multiTotal(param string) int64 {
	var n int64
	for _, g := range multiGroups(param) {
		n += int64(len(g.lists) * len(g.parts))
	}
	return n
}

func multiEval(idx int64, param string) *explore.Result {
	res := &explore.Result{Counts: map[string]int64{}}
	for _, g := range multiGroups(param) {
		n := int64(len(g.lists) * len(g.parts))
		if idx >= n {
			idx -= n
			continue
		}
		list := g.lists[idx/int64(len(g.parts))]
		parts := g.parts[idx%int64(len(g.parts))]
		where := fmt.Sprintf("multisearch: corpus=%s readers=%v", kindList(list), parts)
		x := &e2e{list: list, numPos: map[uint64]int{}}
		off := 0
		for _, sz := range parts {
			lay := layoutT{}
			if sz >= 2 {
				lay.split = 1 // two segments inside the reader
			}
			r, fail := buildIndexAt(list[off:off+sz], off, lay)
			if fail != "" {
				res.Failure = where + ": " + fail
				res.Key = where + " build"
				return res
			}
			defer r.Close()
			x.rs = append(x.rs, r)
			off += sz
		}
		return e2eCore(x, res, where, nOrders(3, g.keys), 3, param == "thorough", idx%53 == 0, fmt.Sprintf("readers=%v", parts))
	}
	return res
}

// enumeration 4: the same Before chains with ONE SortOrder value shared by all
// requests of the chain (the natural way to write a paging loop)
// (one case: the inner loop covers every order of <=1 key x page sizes 1..4 and
// reports the first failing chain, so that one defect gives one violation)
func sharedTotal(param string) int64 { return 1 }

func sharedEval(_ int64, param string) *explore.Result {
	res := &explore.Result{Outcome: "ok"}
	for idx := int64(0); idx < nOrders(4, 1)*4; idx++ {
		if f := sharedOne(idx, res); f {
			return res
		}
	}
	return res
}

func sharedOne(idx int64, res *explore.Result) bool {
	order := orderOf(idx/4, 4)
	p := int(idx%4) + 1
	list := []int{0, 4, 8, 2, 3}
	lay := layoutT{split: 2}
	r, fail := buildIndex(list, lay)
	if fail != "" {
		res.Failure = fail
		res.Key = "shared-sortorder build"
		return true
	}
	defer r.Close()
	x := &e2e{r: r, list: list, numPos: map[uint64]int{}}
	scores, fail := x.reference(0)
	if fail != "" {
		res.Failure = fail
		res.Key = "shared-sortorder reference"
		return true
	}
	var rows []row
	for i, k := range list {
		kd := kinds[k]
		var rw row
		rw[tScore] = val{f: scores[i]}
		rw[tText] = val{missing: kd.t == 2}
		if kd.t < 2 {
			rw[tText].s = textVals[kd.t]
		}
		rw[tNum] = val{missing: kd.n == 2}
		if kd.n < 2 {
			rw[tNum].f = numVals[kd.n]
		}
		rw[tDate] = val{missing: kd.d == 2}
		if kd.d < 2 {
			rw[tDate].f = float64(dateVals[kd.d].Unix())
		}
		rw[tID] = val{s: idByPos[i]}
		rows = append(rows, rw)
	}
	tot := append(append([]keyT(nil), order...), keyT{typ: tID})
	fullT := refOrder(rows, tot)
	shared := blugeOrder(tot) // one value for the whole paging loop
	all, fail := x.run(bluge.NewTopNSearch(len(list)+1, queryOf(0)).SortByCustom(shared))
	if fail != "" || !sameInts(hitPos(all), fullT) {
		res.Failure = fmt.Sprintf("shared-sortorder: full search failed: %s %v", fail, hitPos(all))
		res.Key = "shared-sortorder full"
		return true
	}
	for _, dir := range []string{"after", "before"} {
		var key [][]byte
		done := 0
		end := len(fullT) - 1
		if dir == "before" {
			key = all[len(all)-1].sv
		}
		for page := 0; page < 10; page++ {
			req := bluge.NewTopNSearch(p, queryOf(0)).SortByCustom(shared)
			var want []int
			if dir == "after" {
				if page > 0 {
					req.After(key)
				}
				want = window(fullT, p, done)
			} else {
				req.Before(key)
				lo := end - p
				if lo < 0 {
					lo = 0
				}
				want = fullT[lo:end]
			}
			got, fail := x.run(req)
			res.Evals++
			res.Nontrivial++
			if fail != "" || !sameInts(hitPos(got), want) {
				res.Key = "paging-chain-with-shared-SortOrder:" + dir
				res.Failure = fmt.Sprintf("%s: a %s chain of page size %d that passes the same search.SortOrder value %s to every request: page %d returned %s, expected %s (%s); corpus %s",
					res.Key, dir, p, orderString(tot), page, posString(list, hitPos(got)), posString(list, want), fail, corpusString(list))
				return true
			}
			if len(got) == 0 {
				break
			}
			if dir == "after" {
				done += len(got)
				key = got[len(got)-1].sv
			} else {
				end -= len(got)
				key = got[0].sv
			}
		}
	}
	return false
}

// enumeration 6: requests that name NO sort order (the default: score
// descending, ties by index order).  One case = (corpus order, page size): a
// fresh top-N request, then an After chain and a Before chain of fresh requests,
// and after EVERY request of a chain a fresh top-N request again, which must
// return what the first one returned (and what the reference order says).
var defaultLists = [][]int{{0, 4, 8, 2, 3}, {3, 2, 8, 4, 0, 4}, {8, 8, 0, 4, 2, 3, 0}}

func defaultTotal(param string) int64 { return int64(len(defaultLists) * 4 * 2) }

func defaultEval(idx int64, param string) *explore.Result {
	res := &explore.Result{Outcome: fmt.Sprint(idx)}
	list := defaultLists[int(idx)%len(defaultLists)]
	p := int(idx/int64(len(defaultLists)))%4 + 1
	qi := int(idx / int64(len(defaultLists)*4))
	r, fail := buildIndex(list, layoutT{split: 2})
	if fail != "" {
		res.Failure, res.Key = fail, "default-order build"
		return res
	}
	defer r.Close()
	x := &e2e{r: r, list: list, numPos: map[uint64]int{}}
	scores, fail := x.reference(qi)
	if fail != "" {
		res.Failure, res.Key = fail, "default-order reference"
		return res
	}
	var rows []row
	var matching []int
	for i := range list {
		var rw row
		rw[tScore] = val{f: scores[i]}
		rows = append(rows, rw)
		if scores[i] > 0 {
			matching = append(matching, i)
		}
	}
	full := refOrder(rows, []keyT{{typ: tScore, desc: true}})
	var want []int
	for _, i := range full {
		if scores[i] > 0 {
			want = append(want, i)
		}
	}
	n := len(list) + 1
	fresh := func(when string) bool {
		got, fail := x.run(bluge.NewTopNSearch(n, queryOf(qi)))
		res.Evals++
		res.Nontrivial++
		if fail != "" || !sameInts(hitPos(got), want) {
			res.Key = "default-order:fresh-request-differs"
			res.Failure = fmt.Sprintf("%s: a fresh top-%d request without a sort order, issued %s, returned %s, expected %s (%s); corpus %s",
				res.Key, n, when, posString(list, hitPos(got)), posString(list, want), fail, corpusString(list))
			return false
		}
		return true
	}
	if !fresh("first") {
		return res
	}
	all, _ := x.run(bluge.NewTopNSearch(n, queryOf(qi)))
	if len(all) == 0 {
		return res
	}
	for _, dir := range []string{"after", "before"} {
		key := all[0].sv
		if dir == "before" {
			key = all[len(all)-1].sv
		}
		for page := 0; page < 8; page++ {
			req := bluge.NewTopNSearch(p, queryOf(qi))
			if dir == "after" {
				req.After(key)
			} else {
				req.Before(key)
			}
			got, fail := x.run(req)
			res.Evals++
			if fail != "" {
				res.Key = "default-order:" + dir
				res.Failure = fmt.Sprintf("%s: page %d of a %s chain (page size %d) without a sort order failed: %s; corpus %s", res.Key, page, dir, p, fail, corpusString(list))
				return res
			}
			if !fresh(fmt.Sprintf("after page %d of a search-%s chain of page size %d", page, dir, p)) {
				return res
			}
			if len(got) == 0 {
				break
			}
			if dir == "after" {
				key = got[len(got)-1].sv
			} else {
				key = got[0].sv
			}
		}
	}
	return res
}

// enumeration 5: text values at the edges of the byte order next to a missing
// value (one case = one value; inner loop = 6 index orders x 4 single-key orders)
// (values containing the byte 0xff are left out: the segment format uses 0xff as
// the separator of document-value terms, which is not this property's subject)
var boundaryVals = []string{"m", "\x01", "\x00\x00", "", "\x00"}

func boundaryTotal(param string) int64 { return int64(len(boundaryVals)) }

func boundaryEval(idx int64, param string) *explore.Result {
	res := &explore.Result{}
	v := boundaryVals[idx]
	label := map[string]string{"": "empty-string", "\x00": "NUL-byte", "\x00\x00": "two-NUL-bytes", "\x01": "byte-01"}[v]
	if label == "" {
		label = v
	}
	res.Key = fmt.Sprintf("boundary-text: value=%s next to a missing value", label)
	perms := [][]int{{0, 1, 2}, {0, 2, 1}, {1, 0, 2}, {1, 2, 0}, {2, 0, 1}, {2, 1, 0}}
	names := []string{fmt.Sprintf("%q", v), "missing", "\"n\""}
	for _, pm := range perms {
		dir := crashfs.New()
		dir.Points = false
		var fail string
		s := verifmc.Run(verifmc.Options{}, func() {
			w, err := bluge.OpenWriter(harness.Config(dir, harness.Opts{NoMemMerge: true}))
			if err != nil {
				fail = err.Error()
				return
			}
			b := bluge.NewBatch()
			for i, what := range pm {
				d := bluge.NewDocument(idByPos[i])
				switch what {
				case 0:
					d.AddField(bluge.NewKeywordFieldBytes(fText, []byte(v)).Sortable())
				case 2:
					d.AddField(bluge.NewKeywordField(fText, "n").Sortable())
				}
				b.Insert(d)
			}
			if err := w.Batch(b); err != nil {
				fail = err.Error()
				return
			}
			if err := w.Close(); err != nil {
				fail = err.Error()
			}
		})
		if s.Failure != "" || fail != "" {
			res.Failure = res.Key + ": building the index failed: " + s.Failure + fail
			return res
		}
		r, err := bluge.OpenReader(harness.Config(dir, harness.Opts{}))
		if err != nil {
			res.Failure = res.Key + ": " + err.Error()
			return res
		}
		x := &e2e{r: r, list: []int{0, 0, 0}, numPos: map[uint64]int{}}
		if _, fail := x.reference(0); fail != "" {
			res.Failure = res.Key + ": " + fail
			r.Close()
			return res
		}
		rows := make([]row, 3)
		for i, what := range pm {
			switch what {
			case 0:
				rows[i][tText] = val{s: v}
			case 1:
				rows[i][tText] = val{missing: true}
			case 2:
				rows[i][tText] = val{s: "n"}
			}
		}
		for code := 0; code < 4; code++ {
			order := []keyT{{typ: tText, desc: code&2 != 0, first: code&1 != 0}}
			want := refOrder(rows, order)
			got, fail := x.run(topN(3, 0, 0, order))
			res.Evals++
			res.Nontrivial++
			if fail != "" || !sameInts(hitPos(got), want) {
				nm := func(ps []int) string {
					var o []string
					for _, p := range ps {
						o = append(o, names[pm[p]])
					}
					return "[" + strings.Join(o, " ") + "]"
				}
				res.Failure = fmt.Sprintf("%s: documents indexed in the order %s, sorted by %s: the search returned %s, expected %s %s", res.Key, nm([]int{0, 1, 2}), orderString(order), nm(hitPos(got)), nm(want), fail)
				r.Close()
				return res
			}
		}
		r.Close()
	}
	res.Outcome = fmt.Sprint(idx)
	return res
}

func main() {
	log.SetOutput(io.Discard)
	debug.SetGCPercent(400)
	explore.RegisterEnum("c09-collector-orders", ordersTotal, ordersEval)
	explore.RegisterEnum("c09-collector-grid", gridTotal, gridEval)
	explore.RegisterEnum("c09-e2e", e2eTotal, e2eEval)
	explore.RegisterEnum("c09-collector-cap", capTotal, capEval)
	explore.RegisterEnum("c09-multisearch", multiTotal, multiEval)
	explore.RegisterEnum("c09-e2e-shared-sortorder", sharedTotal, sharedEval)
	explore.RegisterEnum("c09-e2e-boundary-text", boundaryTotal, boundaryEval)
	explore.RegisterEnum("c09-e2e-default-order", defaultTotal, defaultEval)
	explore.WorkerMain()
	c := checkmain.New("C09")
	if v := c.IsReplay(); v != nil {
		c.RunReplay(v)
	}
	c.Rule = "collector-orders: every sort order of 0-3 keys over {score,text,num} x {asc,desc} x {missing first,last} (1885 orders) x every match list up to a length bound over the alphabet score{1,2} x text{x,y,missing} x num{-1.5,2,missing} projected on the attributes the order reads (orders of <=2 keys: 9 letters: length<=3; 6: <=3 quick/<=4 thorough; 3: <=5/<=6; 2: <=6/<=9; orders of 3 keys: 18, 9 and 6 letters: <=2/<=3; 3: <=4/<=5; 2: <=6/<=8) x (n,from) in {0..L+1}^2 plus (11,0), (0,11), (6,5) beyond the store switch (thorough, orders of <=2 keys: all of {0..13}^2); " +
		"collector-grid: every list of length 0..12 (thorough 0..13) over score{1,2}, of length <=5 (<=6) over text{x,missing} x score{1,2}, thorough also <=8 over score{1,2,3}, x all (n,from) in {0..13}^2 x 2-4 orders; " +
		"collector-cap: lists of 995..1010 matches (two tie-heavy patterns over score{1,2} x text{x,y,missing}) x 4 orders (score desc, score asc, text asc missing-first + score desc, text desc + score asc) x every (n,from) with from+n in {998..1003} and from in {0,1,500,sum-1,sum} plus (1001,0),(1,1000),(20,1100),(0,1001); " +
		"multisearch: bluge.MultiSearch over 2 and 3 readers: every 2-document list as 1|1, strided 3-document lists as 1|2, 2|1, 1|1|1 and strided 4-document lists as 2|2, 1|2|1, 3|1 (thorough: all 3-document lists, strided 4 and 5), parts of >=2 documents in two segments, x 2 queries x every order of <=2 keys (lists of 2; longer lists <=1 key) over {score,text,num} x (n,from) in {0..L+1}^2 plus (11,0),(2,9) x After and Before chains of every page size with _id appended, against the reference order over the union (reader order, then order in the reader); " +
		"e2e-shared-sortorder: After and Before chains of page sizes 1..4 under every order of <=1 key (+_id) on a 5-document corpus where ONE search.SortOrder value is passed to every request of the chain; e2e-boundary-text: the keyword values m, 0x01, 0x00 0x00, the empty string and 0x00 next to a document without the field and a document with value n, in all 6 index orders under the 4 single-key text orders; " +
		"e2e: corpora over 9 document kinds (orthogonal array over text{x,y,missing} x num{-1.5,2,missing} x date{1960,2020,missing} x body{w, w w, v}): quick = every list of <=2 documents in every segment layout (one batch, every split in two batches, a leading document deleted by a later batch) with every order of <=2 keys over {score,text,num,date} on the two-segment layout and of <=1 key on the others, 72 strided 3-document and 27 strided 6-document lists in every layout with <=1 key, one 6-document list with <=2 keys; thorough = lists <=2 with <=3 keys on the two-segment layout and <=2 keys on the others, all lists of 3 (<=1 key, two segments), strided lists of 3 (<=2 keys), 4, 5 and 6 (<=1 key, three of them <=2 keys) in every layout; each x 2 queries (match-all: equal scores; body:w: different scores, a proper subset matches) x (n,from) in {0..L+1}^2 plus (11,0),(2,9) x After and Before chains of every page size 1..matches+1 under the order with _id appended (ascending; thorough also descending) x the SortBy([]string) form where one exists; " +
		"an evaluation is non-trivial when the expected slice is non-empty and is not simply the first matches in index order (paging requests: when the page is non-empty)"
	c.Explanation = "bounded-exhaustive enumeration; oracle = stable sort of the matches in index order by the documented key semantics (missing first/last independent of direction, hit order as the last tie-break), window [from, from+n); page concatenation equals the full order with every page full; scores for the end-to-end layer are those the AllMatches collector reports for the same query"
	c.Assumptions = []string{
		"text keys are single-valued keyword fields; the first-term rule for multi-valued or analysed sort fields is not part of the statement",
		"the score of a document for a query is taken from an AllMatches search of the same reader (the scoring itself is C17's subject)",
		"the bare \"_score\" string of TopNSearch.SortBy is not exercised (the repository pins only \"-_score\"); orders are built with SortByCustom and cross-checked through SortBy where a string form exists",
		"index order = insertion order (batch order, then position in the batch)",
	}
	// every enumeration has its own share of the time budget, so that a loaded
	// machine cuts each of them a little instead of starving the last one
	only := os.Getenv("VERIF_ONLY")
	// besides its own cap every enumeration is bounded by what is left of a global
	// target (quick 40 s, thorough 9 min), keeping 2 s for each enumeration after it
	start := time.Now()
	global := c.PickD(40*time.Second, 9*time.Minute)
	plan := []struct {
		name string
		q, t time.Duration
	}{
		{"c09-collector-orders", 11 * time.Second, 4 * time.Minute},
		{"c09-collector-grid", 6 * time.Second, 90 * time.Second},
		{"c09-collector-cap", 4 * time.Second, 30 * time.Second},
		{"c09-e2e", 12 * time.Second, 3 * time.Minute},
		{"c09-multisearch", 7 * time.Second, 90 * time.Second},
		{"c09-e2e-shared-sortorder", 2 * time.Second, 10 * time.Second},
		{"c09-e2e-boundary-text", 2 * time.Second, 10 * time.Second},
		{"c09-e2e-default-order", 3 * time.Second, 10 * time.Second},
	}
	for i, e := range plan {
		if only != "" && e.name != only && e.name != "c09-"+only {
			continue
		}
		// small jobs: the budget is checked between jobs, so a loaded machine overshoots by one job at most
		chunk := int64(2)
		switch e.name {
		case "c09-collector-grid":
			chunk = 32
		case "c09-e2e", "c09-multisearch", "c09-collector-cap":
			chunk = 1
		}
		b := c.PickD(e.q, e.t)
		if left := global - time.Since(start) - time.Duration(len(plan)-1-i)*2*time.Second; left < b {
			b = left
		}
		if b < 2*time.Second {
			b = 2 * time.Second
		}
		st := explore.Enumerate(explore.EnumConfig{Name: e.name, Param: c.Tier, Budget: b, Chunk: chunk, MaxViol: 1 << 20})
		c.AddEnum(st)
		if os.Getenv("VERIF_KEYS") != "" { // diagnostic: the distinct keys of all violations
			n := map[string]int64{}
			for _, v := range st.Violations {
				n[v.Key]++
			}
			for _, k := range explore.SortedKeys(n) {
				fmt.Printf("KEY %4d  %s\n", n[k], k)
			}
		}
	}
	c.Finish()
}

#!/usr/bin/env python3
# MUTATIONS.md from the log of run_mutations.sh: python3 gen_mutations_md.py <log>
import sys, json, os, collections
log = sys.argv[1] if len(sys.argv) > 1 else 'build/mutations.log'
rows = [l.strip().split(' | ') for l in open(log) if l.count(' | ') == 3]
mine, seeded = [], collections.OrderedDict()
for name, chk, tier, res in rows:
    if os.path.isdir(f'seeded/{name}'):
        seeded.setdefault(name, []).append((chk, tier, res))
    else:
        mine.append((name, chk, tier, res))
out = ["# Which check catches which change", "",
       "Produced by `./run_mutations.sh` (every patch is applied to a scratch worktree of /repo, never to /repo itself; the",
       "property's check is then run against that tree; DETECTED = exit 1 with a `VIOLATION property=<ID>` line).", "",
       "## Independently seeded changes (`seeded/<id>/`: written by fresh sub-agents that saw only the property text)", "",
       "| seed | property | what it changes | needs | caught by |", "|---|---|---|---|---|"]
ns = nd = 0
for name, res in seeded.items():
    m = json.load(open(f'seeded/{name}/meta.json'))
    caught = ', '.join(f"{c} ({t})" for c, t, r in res if r == 'DETECTED')
    missed = ', '.join(f"{c} ({t})" for c, t, r in res if r != 'DETECTED')
    ns += 1
    if caught: nd += 1
    cell = caught if caught else '**none**'
    if missed: cell += f" — not by {missed}"
    out.append(f"| {name} | {m['property']} | {m['title'].replace('|','/')} | {m['needs'].replace('|','/')[:260]} | {cell} |")
out += ["", f"{nd} of {ns} seeded changes are caught by at least one check.", "",
        "## Deliberate changes written while building the checks (`mutations/*.diff`)", "",
        "| patch | check | tier | result |", "|---|---|---|---|"]
for name, chk, tier, res in mine:
    out.append(f"| {name} | {chk} | {tier} | {res} |")
d = sum(1 for r in mine if r[3] == 'DETECTED')
out += ["", f"{d} of {len(mine)} detected."]
open('MUTATIONS.md', 'w').write('\n'.join(out) + '\n')
print(f"seeded {nd}/{ns}, own {d}/{len(mine)}")

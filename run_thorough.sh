#!/bin/bash
# runs the thorough tier of the given checks (default: all) one after the other; prints one line each
cd "$(dirname "$0")"
mkdir -p build
ids=${@:-C01 C02 C03 C04 C05 C06 C07 C08 C09 C10 C11 C12 C13 C14 C15 C16 C17 C18 C19 C20}
for id in $ids; do
  s=$(date +%s); ./run.sh $id thorough > build/thorough_$id.log 2>&1; rc=$?; e=$(date +%s)
  echo "$id rc=$rc $((e-s))s $(grep -c KNOWN-FINDING build/thorough_$id.log)kf $(tail -1 build/thorough_$id.log | cut -c1-220)"
  grep "^VIOLATION\|HARNESS-ERROR\|violation:" build/thorough_$id.log | head -5 | cut -c1-400
done

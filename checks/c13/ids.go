package main

import (
	"bytes"
	"fmt"
	"os"
	"sort"

	"github.com/blugelabs/bluge/index"

	"verif/explore"
)

// Two items of one kind, identifiers from a boundary alphabet: each reported
// success must leave "the file of that item" with exactly its bytes, so the
// files of two different items are different files, both are listed, both load
// back, and removing one leaves the other alone.
var idAlphabet = []uint64{0, 1, 7, 0xffffffffffff, 1 << 48, 1<<48 | 7, 1<<52 | 1, 1 << 63, 1<<64 - 1}

func idsTotal(string) int64 { return int64(len(idAlphabet) * len(idAlphabet) * len(kinds)) }

func idsEval(idx int64, _ string) *explore.Result {
	i := int(idx)
	kind := kinds[i%len(kinds)]
	i /= len(kinds)
	a := idAlphabet[i%len(idAlphabet)]
	b := idAlphabet[i/len(idAlphabet)]
	desc := fmt.Sprintf("ids a=%#x b=%#x kind=%s", a, b, kind)
	res := &explore.Result{Outcome: desc, Key: "ids:" + desc, Nontrivial: 1}
	fail := func(f string, x ...interface{}) *explore.Result {
		res.Failure = desc + ": " + fmt.Sprintf(f, x...)
		return res
	}
	if a == b {
		res.Nontrivial = 0
		return res
	}
	root, err := os.MkdirTemp("/dev/shm", "verif-c13-")
	if err != nil {
		return fail("harness: %v", err)
	}
	defer os.RemoveAll(root)
	dir := index.NewFileSystemDirectory(root)
	dir.SetLoadMMapFunc(index.LoadMMapNever)
	if err := dir.Setup(false); err != nil {
		return fail("setup: %v", err)
	}
	da, db := pattern(12304, 0x21), pattern(600, 0x42)
	closeCh := make(chan struct{})
	if err := dir.Persist(kind, a, &itemWriter{data: da, behaviour: "ok-2"}, closeCh); err != nil {
		return fail("Persist(a): %v", err)
	}
	if err := dir.Persist(kind, b, &itemWriter{data: db, behaviour: "ok-1"}, closeCh); err != nil {
		return fail("Persist(b): %v", err)
	}
	load := func(id uint64, want []byte, when string) string {
		sd, closer, err := dir.Load(kind, id)
		if err != nil {
			return fmt.Sprintf("item %#x was reported persisted but cannot be loaded %s: %v", id, when, err)
		}
		got, err := sd.Read(0, sd.Len())
		if closer != nil {
			_ = closer.Close()
		}
		if err != nil || !bytes.Equal(got, want) {
			return fmt.Sprintf("item %#x was reported persisted but holds %d bytes instead of exactly the %d written (%s)", id, len(got), len(want), when)
		}
		return ""
	}
	if f := load(a, da, "after another item was persisted"); f != "" {
		return fail("%s", f)
	}
	if f := load(b, db, "right after its Persist"); f != "" {
		return fail("%s", f)
	}
	ids, err := dir.List(kind)
	if err != nil {
		return fail("List: %v", err)
	}
	sort.Slice(ids, func(i, j int) bool { return ids[i] < ids[j] })
	want := []uint64{a, b}
	sort.Slice(want, func(i, j int) bool { return want[i] < want[j] })
	if fmt.Sprint(ids) != fmt.Sprint(want) {
		return fail("List = %x, want %x", ids, want)
	}
	if err := dir.Remove(kind, b); err != nil {
		return fail("Remove(b): %v", err)
	}
	if f := load(a, da, "after the other item was removed"); f != "" {
		return fail("%s", f)
	}
	if _, _, err := dir.Load(kind, b); err == nil {
		return fail("item b loads after its removal")
	}
	return res
}

// Package crashcheck runs writer scenarios on the crashfs device under the
// controlled scheduler and judges every crash image of the recorded storage
// trace by recovering it with the real FileSystemDirectory (DESIGN.md §4).
// It serves C02 (durability of acknowledged batches), C03 (atomic, prefix
// consistent, repeatable recovery) and, with faults switched on, C14.
package crashcheck

import (
	"fmt"
	"os"
	"path/filepath"
	"sort"
	"strings"

	"github.com/blugelabs/bluge"
	"github.com/blugelabs/bluge/index"
	"github.com/blugelabs/bluge/verifmc"
	"github.com/blugelabs/bluge/verifmc/msync"

	"verif/crashfs"
	"verif/explore"
	"verif/harness"
	"verif/recovery"
)

// Scenario describes the clients of one run.
type Scenario struct {
	Pre          []harness.BatchSpec   // applied by the main thread before the clients start
	Clients      [][]harness.BatchSpec // concurrent clients, each sequential
	Opts         harness.Opts
	Callbacks    bool                // unsafe mode: acknowledgement = persisted-callback(nil)
	Continuation []harness.BatchSpec // applied (safe mode) after recovering an image (depth 2)
	Settle       bool                // unsafe mode: wait until every callback fired before closing
	ClientsFirst bool                // create the client threads before the writer's threads (they get the
	// lower thread ids, so the default scheduler prefers clients over background work)
}

// Mode selects the oracle.
type Mode struct {
	CheckAcked     bool // C02: acknowledged batches are contained in the recovered prefix
	CheckOpen      bool // C03: open never faults, succeeds when a snapshot had been completed
	Loader         int  // 0: mmap loader, 1: non-mmap loader (schedules other than the default one)
	Depth          int  // 1 or 2 (crash / recover / continue / crash)
	Depth2AllSched bool // depth 2 on every explored schedule (else only on the default schedule's trace)
	NoMMapToo      bool // recover with both loaders on every image (else: both loaders on the default
	// schedule's trace; elsewhere the non-mmap loader, plus the mmap loader whenever an error path ran)
	AllSegPrefixes      bool
	Conformance         bool // replay every distinct trace on the real directory
	WriterOpen          bool // C03: additionally open a WRITER on every image (crashfs copy) and compare
	FilesOnly           bool // C11 under faults: judge only the retention / handle / lock invariants of the trace
	CumulativeAck       bool // C14: an acknowledgement covers every batch applied before it (single client)
	WriterOpenOnDefault bool // on the default schedule's trace, additionally open a WRITER on every image (it walks the snapshots with code of its own)
}

type batchRec struct {
	spec      harness.BatchSpec
	call, ret int64
	err       error
}

// accept is one acceptable recovered state.
type accept struct {
	content string
	mask    uint32
}

// per-process caches (a worker explores many executions of the same scenario)
var (
	seenImage   = map[string]bool{}   // scenario|imagehash|ackmask|acceptset -> judged ok
	depth2Cache = map[string]string{} // scenario|imagehash -> "" ok / failure
	seenTrace   = map[[32]byte]bool{}
	openCache   = map[string]recovery.Outcome{}
)

func maskOf(ids []int) uint32 {
	var m uint32
	for _, i := range ids {
		m |= 1 << uint(i)
	}
	return m
}

// acceptable computes every (content, batch set) reachable as a prefix of a
// total order of the batches that respects the recorded call/return stamps.
func acceptable(recs []batchRec) []accept {
	n := len(recs)
	seen := map[string]bool{}
	var out []accept
	var order []int
	used := make([]bool, n)
	var rec func(m *harness.Model, mask uint32)
	rec = func(m *harness.Model, mask uint32) {
		k := fmt.Sprintf("%s|%d", m.Content(), mask)
		if !seen[k] {
			seen[k] = true
			out = append(out, accept{m.Content(), mask})
		}
		for i := 0; i < n; i++ {
			if used[i] {
				continue
			}
			// i may come next only if no unused j finished before i was called
			ok := true
			for j := 0; j < n; j++ {
				if j != i && !used[j] && recs[j].ret < recs[i].call {
					ok = false
					break
				}
			}
			if !ok {
				continue
			}
			used[i] = true
			order = append(order, i)
			m2 := m.Clone()
			m2.Apply(recs[i].spec)
			rec(m2, mask|1<<uint(i))
			order = order[:len(order)-1]
			used[i] = false
		}
	}
	rec(harness.NewModel(), 0)
	return out
}

func acceptKey(acc []accept) string {
	var p []string
	for _, a := range acc {
		p = append(p, fmt.Sprintf("%s|%d", a.content, a.mask))
	}
	sort.Strings(p)
	return strings.Join(p, ";")
}

// Run performs one controlled execution of the scenario and judges all crash
// images of its storage trace.
func Run(name string, sc Scenario, mode Mode, opts verifmc.Options, faults func(op, kind string, id uint64) int) (*verifmc.Sched, *explore.Result) {
	res := &explore.Result{Counts: map[string]int64{}, Flags: map[string]bool{}}
	dir := crashfs.New()
	opened := false
	if faults != nil {
		// faults are offered once the writer is open
		dir.Faults = func(op, kind string, id uint64) int {
			if !opened {
				return 0
			}
			return faults(op, kind, id)
		}
	}
	var clk harness.Clock
	var recs []batchRec
	nb := len(sc.Pre)
	for _, c := range sc.Clients {
		nb += len(c)
	}
	recs = make([]batchRec, nb)
	asyncErrs := 0
	s := verifmc.Run(opts, func() {
		var w *bluge.Writer
		var pending msync.WaitGroup
		apply := func(id int, spec harness.BatchSpec) {
			b := harness.MakeBatch(spec)
			if sc.Callbacks {
				pending.Add(1)
				b.SetPersistedCallback(func(err error) {
					dir.Mark("callback", id, err)
					pending.Done()
				})
			}
			recs[id].spec = spec
			recs[id].call = clk.Tick()
			dir.Mark("call", id, nil)
			err := w.Batch(b)
			recs[id].ret = clk.Tick()
			recs[id].err = err
			dir.Mark("ret", id, err)
			if err != nil && faults == nil {
				verifmc.Fail(fmt.Sprintf("batch %d %s returned an error without any fault: %v", id, spec, err))
			}
		}
		var wg msync.WaitGroup
		start := make(chan struct{})
		spawn := func() {
			id := len(sc.Pre)
			for _, batches := range sc.Clients {
				first := id
				batches := batches
				id += len(batches)
				wg.Add(1)
				verifmc.Go(func() {
					defer wg.Done()
					verifmc.Recv(start)
					for k, spec := range batches {
						apply(first+k, spec)
					}
				})
			}
		}
		if sc.ClientsFirst {
			spawn()
		}
		o := sc.Opts
		o.AsyncError = func(err error) { asyncErrs++; dir.Mark("asyncerr", -1, err) }
		cfg := harness.Config(dir, o)
		var err error
		w, err = bluge.OpenWriter(cfg)
		if err != nil {
			verifmc.Fail("open: " + err.Error())
		}
		opened = true
		for id, spec := range sc.Pre {
			apply(id, spec)
		}
		if !sc.ClientsFirst {
			spawn()
		}
		if sc.ClientsFirst {
			// the writer's own threads start up and come to rest (merger and
			// persister register their watchers) before the clients are released
			verifmc.Idle("writer-started")
		}
		verifmc.Close(start)
		wg.Wait()
		if sc.Callbacks && sc.Settle {
			pending.Wait()
		}
		if err := w.Close(); err != nil {
			verifmc.Fail("close: " + err.Error())
		}
	})
	res.Counts["async_errors_in_this_execution"] = int64(asyncErrs)
	if s.Failure != "" {
		return s, res
	}
	if len(dir.Problems) > 0 {
		res.Failure = "storage discipline: " + strings.Join(dir.Problems, "; ")
		return s, res
	}
	m := mode
	isDefault := true // the default schedule: no deviation in the replayed prefix
	for _, c := range opts.Prefix {
		if c != 0 {
			isDefault = false
		}
	}
	if m.Depth >= 2 && !m.Depth2AllSched && !isDefault {
		m.Depth = 1
	}
	if isDefault {
		m.NoMMapToo = true // the default schedule's trace: every image with both loaders
		if m.WriterOpenOnDefault {
			m.WriterOpen = true // and a writer opened on every image
		}
	}
	fail, key := Judge(name, sc, m, dir.Trace, recs, res)
	res.Failure, res.Key = fail, key
	var o []string
	for _, e := range dir.Trace {
		if e.Kind == "persist" || e.Kind == "remove" {
			o = append(o, e.Kind[:1]+e.Name[8:]+e.Err)
		}
		if e.Kind == "ret" || e.Kind == "callback" {
			o = append(o, fmt.Sprintf("%s%d", e.Kind[:1], e.Batch))
		}
	}
	res.Outcome = strings.Join(o, " ")
	if opts.Prefix == nil {
		res.Sample = map[string]interface{}{"scenario": name, "storage_trace_default_schedule": res.Outcome}
	}
	return s, res
}

// Judge enumerates and recovers the crash images of one trace.
func Judge(name string, sc Scenario, mode Mode, trace []crashfs.Event, recs []batchRec, res *explore.Result) (string, string) {
	th := crashfs.TraceHash(trace)
	newTrace := !seenTrace[th]
	if newTrace {
		seenTrace[th] = true
		res.Counts["distinct_storage_traces"]++
		if mode.Conformance {
			root := filepath.Join(recovery.Scratch(), "conform")
			_ = os.RemoveAll(root)
			err := crashfs.ReplayOnFS(root, nil, trace)
			_ = os.RemoveAll(root)
			if err != nil {
				return "STORAGE-MODEL-MISMATCH (harness): " + err.Error(), "harness-model-mismatch"
			}
			res.Counts["traces_replayed_on_real_directory"]++
		}
	}
	acc := acceptable(recs)
	ak := acceptKey(acc)
	ackKinds := map[string]bool{"ret": !sc.Callbacks && !sc.Opts.Unsafe, "callback": sc.Callbacks}
	var failure, fkey string
	crashfs.EnumerateImages(nil, trace, crashfs.ImageOpts{AllSegmentPrefixes: mode.AllSegPrefixes}, ackKinds, func(img *crashfs.Image) bool {
		res.Counts["crash_images"]++
		am := maskOf(img.Acked)
		if mode.CumulativeAck && am != 0 {
			hi := 0
			for _, b := range img.Acked {
				if b > hi {
					hi = b
				}
			}
			am = (1 << uint(hi+1)) - 1
		}
		ik := fmt.Sprintf("%s|%x|%d|%v|%s", name, img.Hash[:12], am, img.SnapshotDone, ak)
		if seenImage[ik] {
			return true
		}
		res.Counts["crash_images_recovered"]++
		f, k := judgeImage(name, sc, mode, img, acc, am, res)
		if f != "" {
			failure = fmt.Sprintf("crash after %d storage events (%s), acknowledged batches %v: %s", img.Events, img.Variant, img.Acked, f)
			fkey = k
			return false
		}
		seenImage[ik] = true
		return true
	})
	return failure, fkey
}

func fileList(files map[string][]byte) string {
	var p []string
	for n, b := range files {
		p = append(p, fmt.Sprintf("%s(%d)", strings.TrimLeft(n, "0"), len(b)))
	}
	sort.Strings(p)
	return strings.Join(p, " ")
}

func open(files map[string][]byte, hash [32]byte, policy int) recovery.Outcome {
	k := fmt.Sprintf("%x|%v", hash[:16], policy)
	if o, ok := openCache[k]; ok {
		return o
	}
	var o recovery.Outcome
	switch policy {
	case 0:
		o = recovery.OpenFS(files, false)
	case 1:
		o = recovery.OpenFS(files, true)
	default:
		o = recovery.OpenSmart(files)
	}
	if len(openCache) < 200000 {
		openCache[k] = o
	}
	return o
}

func judgeImage(name string, sc Scenario, mode Mode, img *crashfs.Image, acc []accept, am uint32, res *explore.Result) (string, string) {
	loaders := []int{mode.Loader}
	if mode.NoMMapToo {
		loaders = []int{0, 1}
	}
	var content string
	opened := false
	for _, nm := range loaders {
		o := open(img.Files, img.Hash, nm)
		ld := []string{"mmap", "non-mmap", "non-mmap, mmap on error paths"}[nm]
		if o.Panic != "" {
			return fmt.Sprintf("opening the directory [%s] (%s loader) panicked/faulted: %s", fileList(img.Files), ld, o.Panic), "open-fault"
		}
		if !o.Opened {
			if mode.CheckOpen && img.SnapshotDone {
				return fmt.Sprintf("a snapshot had been completed but the directory [%s] does not open (%s loader): %s", fileList(img.Files), ld, o.Err), "open-refused"
			}
			if mode.CheckAcked && am != 0 {
				return fmt.Sprintf("acknowledged batches exist but the directory [%s] does not open (%s loader): %s", fileList(img.Files), ld, o.Err), "acked-unopenable"
			}
			continue
		}
		if o.ObsErr != "" {
			return fmt.Sprintf("the recovered index [%s] cannot be read (%s loader): %s", fileList(img.Files), ld, o.ObsErr), "recovered-unreadable"
		}
		if opened && o.Content != content {
			return fmt.Sprintf("loaders disagree on [%s]: {%s} vs {%s}", fileList(img.Files), content, o.Content), "loader-disagreement"
		}
		opened, content = true, o.Content
	}
	if !opened {
		res.Counts["images_without_usable_snapshot"]++
		return "", ""
	}
	// prefix consistency (+ acknowledged batches contained)
	okPrefix, okAcked := false, false
	for _, a := range acc {
		if a.content == content {
			okPrefix = true
			if a.mask&am == am {
				okAcked = true
			}
		}
	}
	if !okPrefix {
		return fmt.Sprintf("recovered content {%s} of [%s] is not the abstract index after any prefix of the applied batches", content, fileList(img.Files)), "not-a-prefix"
	}
	if mode.CheckAcked && !okAcked {
		return fmt.Sprintf("recovered content {%s} of [%s] does not contain every acknowledged batch", content, fileList(img.Files)), "acked-lost"
	}
	if content != "" {
		res.Flags["recovered_nonempty"] = true
	}
	if mode.WriterOpen {
		wk := fmt.Sprintf("w|%x", img.Hash[:16])
		f, ok := depth2Cache[wk]
		if !ok {
			f = openWriterOn(sc, img, content)
			depth2Cache[wk] = f
			res.Counts["writer_opens_on_images"]++
		}
		if f != "" {
			return f, "writer-open"
		}
	}
	if mode.Depth >= 2 && len(sc.Continuation) > 0 && img.Structural {
		dk := fmt.Sprintf("%s|%x", name, img.Hash[:16])
		f, ok := depth2Cache[dk]
		if !ok {
			f = continueAndCrash(sc, mode, img, content, res)
			depth2Cache[dk] = f
		}
		if f != "" {
			return "depth 2: " + f, "depth2"
		}
		rk := fmt.Sprintf("r|%x", img.Hash[:16])
		f, ok = depth2Cache[rk]
		if !ok {
			f = secondLifeOnRealDir(sc, img, content)
			depth2Cache[rk] = f
			res.Counts["second_lives_on_the_real_directory"]++
		}
		if f != "" {
			return "second life on the real directory: " + f, "second-life-real"
		}
	}
	return "", ""
}

// secondLifeOnRealDir materialises the image, opens a writer on it through
// the REAL FileSystemDirectory, applies one delete-only batch that removes
// every recovered document (no new segment: a single, shortest-possible
// snapshot, written under the epoch that follows the recovered one — the
// epoch of a torn snapshot file if the image holds one), closes, and reopens.
func secondLifeOnRealDir(sc Scenario, img *crashfs.Image, recovered string) string {
	dirPath, err := recovery.Materialise(img.Files, "life2")
	if err != nil {
		return "harness: " + err.Error()
	}
	defer os.RemoveAll(dirPath)
	m := harness.ModelFromContent(recovered)
	var del harness.BatchSpec
	var ids []string
	for id := range m.Docs {
		ids = append(ids, id)
	}
	sort.Strings(ids)
	for _, id := range ids {
		del = append(del, harness.Op{Kind: 'D', ID: id})
	}
	var fail string
	s := verifmc.Run(verifmc.Options{MaxSteps: 200000}, func() {
		w, err := bluge.OpenWriter(harness.Config(index.NewFileSystemDirectory(dirPath), harness.Opts{Retain: sc.Opts.Retain}))
		if err != nil {
			if img.SnapshotDone {
				fail = "a writer cannot be opened on the recovered directory: " + err.Error()
			}
			verifmc.Exit()
		}
		if len(del) > 0 {
			if err := w.Batch(harness.MakeBatch(del)); err != nil {
				fail = "the recovered writer refused a delete-only batch: " + err.Error()
			}
		}
		if err := w.Close(); err != nil && fail == "" {
			fail = "close: " + err.Error()
		}
	})
	if fail != "" {
		return fail
	}
	if s.Failure != "" {
		return s.Failure
	}
	if !img.SnapshotDone {
		return ""
	}
	files := map[string][]byte{}
	ents, _ := os.ReadDir(dirPath)
	for _, e := range ents {
		if e.Name() == "bluge.pid" {
			continue
		}
		b, err := os.ReadFile(filepath.Join(dirPath, e.Name()))
		if err == nil {
			files[e.Name()] = b
		}
	}
	o := recovery.OpenFS(files, false)
	if o.Panic != "" {
		return "reopening after the second life panicked/faulted: " + o.Panic
	}
	if !o.Opened {
		return fmt.Sprintf("after recover / delete everything / close the directory [%s] no longer opens: %s", fileList(files), o.Err)
	}
	if o.Content != "" {
		return fmt.Sprintf("after recover / delete everything / close the directory shows {%s}, expected the empty index", o.Content)
	}
	return ""
}

// continueAndCrash opens a writer on the recovered image, applies the
// continuation, and judges every crash image of that second life.
func continueAndCrash(sc Scenario, mode Mode, img *crashfs.Image, recovered string, res *explore.Result) string {
	dir := crashfs.NewFrom(img.Files)
	var fail string
	acks := 0
	s := verifmc.Run(verifmc.Options{MaxSteps: 200000}, func() {
		cfg := harness.Config(dir, harness.Opts{Retain: sc.Opts.Retain, EagerMerge: sc.Opts.EagerMerge})
		w, err := bluge.OpenWriter(cfg)
		if err != nil {
			if img.SnapshotDone {
				fail = "a writer cannot be opened on the recovered directory: " + err.Error()
			}
			return
		}
		r, err := w.Reader()
		if err != nil {
			fail = "reader: " + err.Error()
			return
		}
		c, err := harness.Observe(r)
		_ = r.Close()
		if err != nil {
			fail = "the recovered writer cannot be read: " + err.Error()
			return
		}
		if c != recovered {
			fail = fmt.Sprintf("OpenWriter recovered {%s} but OpenReader recovered {%s} from the same directory", c, recovered)
			return
		}
		for i, spec := range sc.Continuation {
			dir.Mark("call", i, nil)
			err := w.Batch(harness.MakeBatch(spec))
			dir.Mark("ret", i, err)
			if err != nil {
				fail = fmt.Sprintf("the recovered writer refused batch %s: %v", spec, err)
				return
			}
			acks++
		}
		if err := w.Close(); err != nil {
			fail = "close of the recovered writer: " + err.Error()
		}
	})
	if s.Failure != "" {
		return "the recovered writer failed: " + s.Failure + "\n" + s.Stack
	}
	if fail != "" {
		return fail
	}
	if len(dir.Problems) > 0 {
		return "storage discipline in the second life: " + strings.Join(dir.Problems, "; ")
	}
	res.Counts["depth2_continuations"]++
	// acceptable states of the second life
	var acc []accept
	m := harness.ModelFromContent(recovered)
	acc = append(acc, accept{m.Content(), 0})
	var mask uint32
	for i, spec := range sc.Continuation {
		m.Apply(spec)
		mask |= 1 << uint(i)
		acc = append(acc, accept{m.Content(), mask})
	}
	var failure string
	crashfs.EnumerateImages(img.Files, dir.Trace, crashfs.ImageOpts{Structural: true}, map[string]bool{"ret": true}, func(i2 *crashfs.Image) bool {
		res.Counts["depth2_crash_images"]++
		o := open(i2.Files, i2.Hash, 0)
		am := maskOf(i2.Acked)
		where := fmt.Sprintf("second crash after %d events (%s), acknowledged continuation batches %v, directory [%s]", i2.Events, i2.Variant, i2.Acked, fileList(i2.Files))
		if o.Panic != "" {
			failure = where + ": open panicked/faulted: " + o.Panic
			return false
		}
		if !o.Opened {
			failure = where + ": does not open although the first life had completed a snapshot: " + o.Err
			return false
		}
		if o.ObsErr != "" {
			failure = where + ": cannot be read: " + o.ObsErr
			return false
		}
		ok := false
		for _, a := range acc {
			if a.content == o.Content && a.mask&am == am {
				ok = true
			}
		}
		if !ok {
			failure = fmt.Sprintf("%s: recovered {%s}, expected {%s} followed by a prefix of the continuation containing the acknowledged ones", where, o.Content, recovered)
			return false
		}
		return true
	})
	return failure
}

// DirOf is a helper for checks that need a plain FS config.
func DirOf(path string) bluge.Config {
	return bluge.DefaultConfigWithDirectory(func() index.Directory { return index.NewFileSystemDirectory(path) })
}

// openWriterOn opens a writer on a copy of the image (OpenWriter walks the
// snapshots oldest to newest, informs the deletion policy and cleans up,
// unlike OpenReader) and compares what it shows with what OpenReader recovered.
func openWriterOn(sc Scenario, img *crashfs.Image, recovered string) string {
	dir := crashfs.NewFrom(img.Files)
	var fail string
	s := verifmc.Run(verifmc.Options{MaxSteps: 200000}, func() {
		w, err := bluge.OpenWriter(harness.Config(dir, harness.Opts{Retain: sc.Opts.Retain}))
		if err != nil {
			fail = "a writer cannot be opened on a directory that OpenReader opens: " + err.Error()
			verifmc.Exit()
		}
		r, err := w.Reader()
		if err != nil {
			fail = "reader: " + err.Error()
			verifmc.Exit()
		}
		c, err := harness.Observe(r)
		_ = r.Close()
		if err != nil {
			fail = "the recovered writer cannot be read: " + err.Error()
		} else if c != recovered {
			fail = fmt.Sprintf("OpenWriter recovered {%s} but OpenReader recovered {%s} from the same directory [%s]", c, recovered, fileList(img.Files))
		}
		if err := w.Close(); err != nil && fail == "" {
			fail = "close of the recovered writer: " + err.Error()
		}
	})
	if fail != "" {
		return fail
	}
	if s.Failure != "" {
		return "opening a writer on the image failed: " + s.Failure + "\n" + s.Stack
	}
	if len(dir.Problems) > 0 {
		return "storage discipline while opening a writer on the image: " + strings.Join(dir.Problems, "; ")
	}
	// the clean-up on open must leave the directory openable with the same content
	o := recovery.OpenFS(dir.Files, true)
	if !o.Opened || o.Content != recovered {
		return fmt.Sprintf("after a writer was opened and closed on the image, the directory recovers as {%s} (opened=%v %s%s), expected {%s}", o.Content, o.Opened, o.Err, o.Panic, recovered)
	}
	return ""
}

// RetentionInvariant walks the trace and checks, at every operation boundary
// once n snapshots have been committed, that at least n snapshot files are
// loadable (decodable, every segment file they name present).
func RetentionInvariant(trace []crashfs.Event, n int) string {
	files := map[string][]byte{}
	commits := 0
	check := func(i int, e crashfs.Event) string {
		if commits < n {
			return ""
		}
		loadable := 0
		var why []string
		for name, b := range files {
			if !strings.HasSuffix(name, ".snp") || len(b) < 4 {
				continue
			}
			segs, _, err := index.VerifDecodeSnapshot(b[:len(b)-4])
			if err != nil {
				why = append(why, name+": "+err.Error())
				continue
			}
			ok := true
			for _, sg := range segs {
				if _, have := files[crashfs.FileName(index.ItemKindSegment, sg.ID)]; !have {
					ok = false
					why = append(why, fmt.Sprintf("%s needs missing segment %x", name, sg.ID))
				}
			}
			if ok {
				loadable++
			}
		}
		if loadable < n {
			sort.Strings(why)
			return fmt.Sprintf("after storage event %d (%s %s): only %d snapshot(s) loadable with all their segment files, retention is %d (%s)", i, e.Kind, e.Name, loadable, n, strings.Join(why, "; "))
		}
		return ""
	}
	for i, e := range trace {
		switch e.Kind {
		case "persist":
			if e.Err == "" {
				files[e.Name] = e.Data
				if strings.HasSuffix(e.Name, ".snp") {
					commits++
				}
			} else if e.Err != "locked" {
				delete(files, e.Name)
			}
		case "remove":
			if e.Err == "" {
				if _, had := files[e.Name]; had && strings.HasSuffix(e.Name, ".seg") {
					// no segment file goes while a complete snapshot that is still on disk refers to it
					// (a superseded snapshot whose own removal failed keeps its segments until it is gone)
					for name, b := range files {
						if !strings.HasSuffix(name, ".snp") || len(b) < 4 {
							continue
						}
						segs, _, err := index.VerifDecodeSnapshot(b[:len(b)-4])
						if err != nil {
							continue
						}
						for _, sg := range segs {
							if crashfs.FileName(index.ItemKindSegment, sg.ID) == e.Name {
								return fmt.Sprintf("storage event %d removed segment file %s while snapshot file %s, on disk and loadable until then, refers to it", i, e.Name, name)
							}
						}
					}
				}
				delete(files, e.Name)
			}
		default:
			continue
		}
		if f := check(i, e); f != "" {
			return f
		}
	}
	return ""
}

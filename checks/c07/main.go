// C07: every query returns exactly the documents its meaning selects.
package main

import (
	"fmt"
	"io"
	"log"
	"os"
	"runtime/debug"
	"strings"
	"time"

	"verif/checkmain"
	"verif/explore"
)

func main() {
	log.SetOutput(io.Discard)
	// the searches allocate a few KB each on a live heap of a few MB: with the default
	// GC pacing a third of the CPU goes into collections
	debug.SetGCPercent(1600)
	// the value tables depend on the tier; workers and replays receive the tier as
	// the enumeration parameter, so the tables are built lazily per parameter
	// every enumeration builds its tables on first use (a worker process serves one enumeration)
	explore.RegisterEnum("c07-bool", boolTotalOf("main"), boolEvalOf("main"))
	explore.RegisterEnum("c07-bool-deep", boolTotalOf("deep"), boolEvalOf("deep"))
	explore.RegisterEnum("c07-bool-wide", boolTotalOf("wide"), boolEvalOf("wide"))
	explore.RegisterEnum("c07-termdict", func(p string) int64 { ensureTD(); return tdTotal(p) },
		func(i int64, p string) *explore.Result { ensureTD(); return tdEval(i, p) })
	explore.RegisterEnum("c07-phrase", func(p string) int64 { ensurePhrase(); return phraseTotal(p) },
		func(i int64, p string) *explore.Result { ensurePhrase(); return phraseEval(i, p) })
	explore.RegisterEnum("c07-mixed", func(p string) int64 { ensurePhrase(); return mixTotal(p) },
		func(i int64, p string) *explore.Result { ensurePhrase(); return mixEval(i, p) })
	explore.RegisterEnum("c07-numeric", withTables(numTotal), withTablesE(numEval))
	explore.RegisterEnum("c07-date", withTables(dateTotal), withTablesE(dateEval))
	explore.RegisterEnum("c07-geo", withTables(geoTotal), withTablesE(geoEval))
	explore.WorkerMain()
	c := checkmain.New("C07")
	ensureBool()
	ensureTD()
	ensurePhrase()
	if v := c.IsReplay(); v != nil {
		c.RunReplay(v)
	}
	if len(os.Args) > 1 && os.Args[1] == "noop" {
		return
	}
	if len(os.Args) > 1 && os.Args[1] == "probe" {
		probe()
		return
	}
	if len(os.Args) > 1 && os.Args[1] == "count" {
		for _, t := range []string{"quick", "thorough"} {
			for _, f := range []string{"main", "deep"} {
				sp := boolQueries(f, t)
				fmt.Println(t, f, "bool queries:", len(sp.queries), sp.counts, "corpora:", len(boolFamilies[f].canon))
			}
			if t == "thorough" {
				for _, st := range []string{"thorough-b", "thorough-c"} {
					sp := boolQueries("main", st)
					fmt.Println(st, "bool queries:", len(sp.queries), sp.counts)
				}
			}
		}
		fmt.Println("termdict queries:", len(tdQueries), "phrase:", len(phraseQueries), "mixed:", len(mixQueries))
		return
	}
	tierName := "quick"
	if c.Thorough() {
		tierName = "thorough"
	}
	sp := boolQueries("main", "quick")
	spd := boolQueries("deep", tierName)
	stages := fmt.Sprintf("%d queries %v", len(sp.queries), sp.counts)
	if c.Thorough() {
		spb, spc := boolQueries("main", "thorough-b"), boolQueries("main", "thorough-c")
		stages = fmt.Sprintf("stage a: %d queries %v, stage b: %d queries %v, stage c: %d queries %v (stages b and c visit the corpora with a stride so that a run cut by its time budget is spread over the space)",
			len(sp.queries), sp.counts, len(spb.queries), spb.counts, len(spc.queries), spc.counts)
	}
	c.Rule = fmt.Sprintf("c07-bool: every assignment of the terms x,y,z to 5 live documents (2^15 corpora, reduced to %d representatives under permutation of the terms; leaves range over all three terms) laid out as 2 segments of 3+2 live documents with one pending deletion in each, x %s (depth1 = every node with term clauses, <=1 per must/should/must-not group in the quick tier and stage a, <=2 per group in stages b (<=4 leaves) and c (5-6 leaves), minShould 0..2; depth2 = every node with <=1 clause per group whose clauses are terms or one-clause boolean nodes, <=2 leaves, minShould 0..2 at both levels; heap = 11-12 should clauses cycling over 1-3 terms with optional must / must-not term and minShould up to 12) x 3 modes (AllMatches, TopN scored, TopN Score=none). "+
		"c07-bool-deep: every assignment to 3 live documents (%d representatives, 2+1 live documents in 2 segments, one pending deletion each) x %d depth-2 queries (thorough: <=1 clause per outer group, inner nodes with <=2 term clauses per group and <=2 leaves, <=3 leaves in total; quick: as depth2 above) x 3 modes. "+
		"c07-bool-wide: every assignment to 4 live documents (%d representatives) in 4 unmerged segments of one live document each (pending deletions in segments 1 and 3) x %d depth-1/heap queries x 3 modes. c07-termdict: 4 corpora (17-string vocabulary {a,b}^1..3 + \"\", \\xff, a\\xff: over 2 segments with pending deletions; every second string in 1 segment; every string in each of 3 unmerged segments; every string in 3 or 4 of 4 unmerged segments - with a pending deletion of a recurring term and of a deleted-only term in every segment) x %d queries: every term, every non-empty prefix, every wildcard over {a,b,?,*}^0..3, %d regexps, fuzzy for every (term, fuzziness 0-2, prefix 0-2), term range for every (min, max, inclusive, inclusive) incl. unbounded, inverted and degenerate. "+
		"c07-phrase: %d multi-phrase / match-phrase / match queries (1-3 slots of 1-2 terms over {a,b,c}, slop 0-2) over every token sequence of length <=4 held in one value and split over two values of a field (%d live documents, 2 segments, 4 pending deletions). c07-mixed: %d boolean combinations (must+must, must+must-not, should~2, should~0, must+should~1) of every ordered pair of %d leaves of every query kind. "+
		"c07-numeric / c07-date: every (min, max, inclusive, inclusive) over values on both sides of nibble/byte/word/exponent boundaries of the sortable encoding (both signs; dates: int64 extremes and the two instants whose float image is infinite) incl. unbounded ends. c07-geo: every box (top-left, bottom-right) over a corner grid incl. date-line-crossing and inverted ones, boxes at the scale of the search cells, circles around grid points x radii from 1 m to more than half the circumference, over a 7x7 world grid (poles, +-180) plus a 5x5 cluster finer than the search cells. "+
		"Every case is a distinct (corpus, query) input; it counts as non-trivial when the expected result is a non-empty proper subset of the live documents.",
		len(boolFamilies["main"].canon), stages, len(boolFamilies["deep"].canon), len(spd.queries),
		len(boolFamilies["wide"].canon), len(boolQueries("wide", tierName).queries),
		len(tdQueries), len(regexpGrammar), len(phraseQueries), pLive, len(mixQueries), len(mixLeaves))
	c.Explanation = "bounded-exhaustive enumeration (no sampling) of corpora x queries; every index is built by the real writer (one batch per segment, a final batch of deletions producing pending deletions, no merges) and searched through bluge.Reader.Search with AllMatches and TopN(size > #documents); the oracle evaluates the documented meaning of the query directly on the analysed documents the check generated (term sets, token positions, decoded numbers, points) and never calls a bluge searcher; judged: the set of returned _id values equals the expected set, no id twice, no deleted document"
	c.Assumptions = []string{
		"boolean meaning: all musts AND no must-not AND at least minShould shoulds; without a must clause at least one should must match when there are should clauses; only must-not clauses = complement within the live documents (query.go doc comments + BooleanSearcher); minShould > 0 with no should clause at all is not in the judged domain (the documentation would make it unsatisfiable, bluge ignores it; probed and recorded under observations)",
		"phrase meaning: one token per slot, no token twice, sum over consecutive slots of |previous position + 1 - position| <= slop; values of a multi-valued field are 100 positions apart",
		"regexp/wildcard match the whole term (Go regexp as reference); fuzzy = Levenshtein distance over characters with the first `prefix` characters equal; terms that are not valid UTF-8 are not judged for regexp, wildcard and fuzzy (they are judged for term, prefix and term range, which are defined on bytes); terms that are within the fuzziness only when an adjacent transposition counts as one edit are not judged (the documentation says Levenshtein, the automaton is built with transpositions)",
		"term range: \"\" is the API's unbounded end and inclusiveness of an unbounded end is irrelevant (search_term_range_test.go: 'min and max nil sees everything, even with inclusiveMin false')",
		"numeric range: an infinite end is the API's unbounded end; -0.0, NaN and infinite field values are outside the value set",
		"geo: points within a relative 1e-3 (of the box width/height, of the distance) of an edge are not judged; for distances the Earth is only assumed to have radii of curvature between 6335 km and 6400 km, pairs whose verdict depends on the model are not judged; a point at a pole outside the box's longitude range is not judged",
		"prefix queries are non-empty",
	}
	c.Extra["observations"] = observations()
	tier := "quick"
	if c.Thorough() {
		tier = "thorough"
	}
	run := func(name, param string, budget time.Duration, chunk int64) {
		// the small enumerations use at most 6 worker processes (starting a worker costs more than
		// most of their cases)
		if !strings.HasPrefix(name, "c07-bool") && explore.Workers() > 6 {
			old, had := os.LookupEnv("VERIF_WORKERS")
			os.Setenv("VERIF_WORKERS", "6")
			defer func() {
				if had {
					os.Setenv("VERIF_WORKERS", old)
				} else {
					os.Unsetenv("VERIF_WORKERS")
				}
			}()
		}
		st := explore.Enumerate(explore.EnumConfig{Name: name, Param: param, Budget: budget, MaxViol: 40, Chunk: chunk, CrashIsViolation: true})
		c.AddEnum(st)
		if os.Getenv("C07_DEBUG_KEYS") != "" {
			for _, v := range st.Violations {
				f := v.Failure
				if len(f) > 420 {
					f = f[:420]
				}
				fmt.Printf("DBG %s | %s | %s\n", name, v.Key, f)
			}
		}
	}
	q := func(quick, thorough int) time.Duration {
		return c.PickD(time.Duration(quick)*time.Second, time.Duration(thorough)*time.Second)
	}
	run("c07-termdict", tier, q(12, 40), 8)
	run("c07-phrase", tier, q(8, 30), 8)
	run("c07-mixed", tier, q(8, 40), 8)
	run("c07-numeric", tier, q(6, 40), 8)
	run("c07-date", tier, q(5, 30), 8)
	run("c07-geo", tier, q(8, 50), 2)
	run("c07-bool-wide", tier, q(5, 40), 2)
	run("c07-bool-deep", tier, q(7, 80), 2)
	if c.Thorough() {
		// stage a always completes; b and c are long and may be cut by their budgets (exhaustive:false)
		run("c07-bool", "thorough-a", 90*time.Second, 2)
		run("c07-bool", "thorough-b", 110*time.Second, 2)
		run("c07-bool", "thorough-c", 90*time.Second, 2)
	} else {
		run("c07-bool", "quick", 20*time.Second, 2)
	}
	c.Finish()
}

var boolReady, tdReady, phraseReady bool

func ensureBool() {
	if !boolReady {
		boolReady = true
		initBoolFamilies()
	}
}

func ensureTD() {
	if !tdReady {
		tdReady = true
		initVocab()
		tdCorp = tdCorpora()
		initTDQueries()
	}
}

func ensurePhrase() {
	if !phraseReady {
		phraseReady = true
		initPhraseCorpus()
		initPhraseQueries()
		initMix()
	}
}

var tablesFor = ""

func tables(param string) {
	if tablesFor == param {
		return
	}
	if tablesFor != "" {
		panic("value tables already built for " + tablesFor)
	}
	tablesFor = param
	initNumeric(param)
	initDates(param)
	initGeo(param)
}

func withTables(f func(string) int64) func(string) int64 {
	return func(p string) int64 { tables(p); return f(p) }
}

func withTablesE(f explore.EnumFunc) explore.EnumFunc {
	return func(idx int64, p string) *explore.Result { tables(p); return f(idx, p) }
}

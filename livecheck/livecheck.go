// Package livecheck runs a writer client next to a thread that holds readers
// of different ages, under the controlled scheduler, and evaluates the
// oracles of C04 (a reader is an immutable point-in-time view), C06
// (background merges and persists never change logical content) and C11
// (no needed file is removed; handles and the lock are released).
package livecheck

import (
	"fmt"
	"strings"

	"github.com/blugelabs/bluge"
	"github.com/blugelabs/bluge/index"
	"github.com/blugelabs/bluge/verifmc"
	"github.com/blugelabs/bluge/verifmc/msync"

	"verif/crashcheck"
	"verif/crashfs"
	"verif/explore"
	"verif/harness"
)

// Scenario of one run.
type Scenario struct {
	Batches        []harness.BatchSpec // one sequential client
	Opts           harness.Opts
	Acquires       int  // readers acquired (and all kept open) by the reader thread
	ClientsFirst   bool // client and reader threads get the lowest thread ids
	FreshAfterEach bool // a fresh reader is compared with the model after every batch
	Quiesce        bool // let the background work run to quiescence before the writer is closed
	IDs            []string
}

// Oracle selects what is judged.
type Oracle struct {
	Immutable  bool // C04
	Sequential bool // C06
	Files      bool // C11
}

type held struct {
	r      *bluge.Reader
	first  string
	lo, hi int
	files  []string
}

// Run performs one controlled execution.
func Run(name string, sc Scenario, or Oracle, opts verifmc.Options) (*verifmc.Sched, *explore.Result) {
	res := &explore.Result{Counts: map[string]int64{}, Flags: map[string]bool{}}
	dir := crashfs.New()
	ids := sc.IDs
	if ids == nil {
		ids = []string{"a", "b", "c"}
	}
	models := []string{""}
	m := harness.NewModel()
	for _, b := range sc.Batches {
		m.Apply(b)
		models = append(models, m.Content())
	}
	var readers []*held
	called, returned := 0, 0
	var obsLog []string
	var w *bluge.Writer
	retain := sc.Opts.Retain
	if retain == 0 {
		retain = 1
	}
	dir.Needed = func() []string {
		var out []string
		if w != nil {
			_, segs := w.VerifIndexWriter().VerifRootNoLock()
			for _, id := range segs {
				out = append(out, crashfs.FileName(index.ItemKindSegment, id))
			}
		}
		for _, h := range readers {
			out = append(out, h.files...)
		}
		return out
	}
	reobserve := func(when string) {
		for i, h := range readers {
			o, err := harness.ObserveFull(h.r, ids)
			if err != nil {
				verifmc.Fail(fmt.Sprintf("reader #%d (acquired after %d..%d batches) fails %s: %v", i, h.lo, h.hi, when, err))
			}
			if o != h.first {
				verifmc.Fail(fmt.Sprintf("reader #%d (acquired after %d..%d batches) changed %s:\n  first: %s\n  now:   %s", i, h.lo, h.hi, when, h.first, o))
			}
		}
	}
	s := verifmc.Run(opts, func() {
		var wg msync.WaitGroup
		var pending msync.WaitGroup // unsafe mode: batches not yet persisted
		start := make(chan struct{})
		clientDone := false
		spawn := func() {
			wg.Add(1)
			verifmc.Go(func() { // the client
				defer wg.Done()
				verifmc.Recv(start)
				for i, spec := range sc.Batches {
					called = i + 1
					dir.Mark("call", i, nil)
					b := harness.MakeBatch(spec)
					if sc.Opts.Unsafe {
						pending.Add(1)
						b.SetPersistedCallback(func(error) { pending.Done() })
					}
					err := w.Batch(b)
					dir.Mark("ret", i, err)
					if err != nil {
						verifmc.Fail(fmt.Sprintf("batch %d %s failed: %v", i, spec, err))
					}
					returned = i + 1
					if sc.FreshAfterEach {
						r, err := w.Reader()
						if err != nil {
							verifmc.Fail("reader: " + err.Error())
						}
						c, err := harness.Observe(r)
						if err != nil {
							verifmc.Fail(fmt.Sprintf("fresh reader after batch %d: %v", i, err))
						}
						byid, err := harness.ObserveByID(r, ids)
						if err != nil {
							verifmc.Fail(fmt.Sprintf("fresh reader after batch %d: %v", i, err))
						}
						_ = r.Close()
						obsLog = append(obsLog, c)
						if or.Sequential && (c != models[i+1] || byid != models[i+1]) {
							verifmc.Fail(fmt.Sprintf("after batch %d %s a fresh reader shows {%s} (by id {%s}), the abstract index is {%s}", i, spec, c, byid, models[i+1]))
						}
					}
				}
				clientDone = true
			})
			if sc.Acquires > 0 {
				wg.Add(1)
				verifmc.Go(func() { // the reader holder
					defer wg.Done()
					verifmc.Recv(start)
					for k := 0; k < sc.Acquires; k++ {
						lo := returned
						r, err := w.Reader()
						hi := called
						if err != nil {
							verifmc.Fail("reader: " + err.Error())
						}
						h := &held{r: r, lo: lo, hi: hi}
						for _, id := range r.VerifSnapshot().VerifFileSegmentIDs() {
							h.files = append(h.files, crashfs.FileName(index.ItemKindSegment, id))
						}
						first, err := harness.ObserveFull(r, ids)
						if err != nil {
							verifmc.Fail(fmt.Sprintf("first observation of reader #%d: %v", k, err))
						}
						h.first = first
						readers = append(readers, h)
						if or.Immutable {
							c := harness.ContentOfFull(first)
							ok := false
							for j := lo; j <= hi && j < len(models); j++ {
								if models[j] == c {
									ok = true
								}
							}
							if !ok {
								verifmc.Fail(fmt.Sprintf("reader #%d acquired while %d batches had returned and %d had been called shows {%s}; abstract index after those batches: %v", k, lo, hi, c, models[lo:min(hi, len(models)-1)+1]))
							}
						}
						if or.Immutable {
							reobserve("while the writer works")
						}
						verifmc.Yield("reader-pause")
					}
					if or.Immutable {
						reobserve("while the writer works")
						verifmc.Yield("reader-pause")
						reobserve("while the writer works")
						if sc.Opts.Unsafe {
							// let persists, merges and clean-ups happen, then look again
							pending.Wait()
							reobserve("after everything was persisted")
						}
					}
				})
			}
		}
		if sc.ClientsFirst {
			spawn()
		}
		var err error
		w, err = bluge.OpenWriter(harness.Config(dir, sc.Opts))
		if err != nil {
			verifmc.Fail("open: " + err.Error())
		}
		if !sc.ClientsFirst {
			spawn()
		}
		if sc.ClientsFirst {
			// the writer's own threads start up and come to rest (merger and
			// persister register their watchers) before the clients are released
			verifmc.Idle("writer-started")
		}
		verifmc.Close(start)
		wg.Wait()
		if sc.Opts.Unsafe {
			pending.Wait()
		}
		if sc.Quiesce {
			verifmc.Idle("quiesce")
			if or.Immutable {
				reobserve("after the background work came to rest")
				// one more reader, acquired after all merges, persists and clean-ups
				r, err := w.Reader()
				if err != nil {
					verifmc.Fail("reader: " + err.Error())
				}
				first, err := harness.ObserveFull(r, ids)
				if err != nil {
					verifmc.Fail("reader acquired after the background work came to rest: " + err.Error())
				}
				if c := harness.ContentOfFull(first); c != models[len(models)-1] {
					verifmc.Fail(fmt.Sprintf("reader acquired after the background work came to rest shows {%s}, the abstract index is {%s}", c, models[len(models)-1]))
				}
				h := &held{r: r, first: first, lo: len(sc.Batches), hi: len(sc.Batches)}
				for _, id := range r.VerifSnapshot().VerifFileSegmentIDs() {
					h.files = append(h.files, crashfs.FileName(index.ItemKindSegment, id))
				}
				readers = append(readers, h)
			}
		}
		if !sc.Quiesce && or.Immutable {
			// one more reader, taken right before Close while merges and persists may still be in
			// flight: it sits on the very root the merger is working from
			r, err := w.Reader()
			if err != nil {
				verifmc.Fail("reader: " + err.Error())
			}
			first, err := harness.ObserveFull(r, ids)
			if err != nil {
				verifmc.Fail("reader acquired right before Close: " + err.Error())
			}
			if c := harness.ContentOfFull(first); c != models[len(models)-1] {
				verifmc.Fail(fmt.Sprintf("reader acquired right before Close shows {%s}, the abstract index is {%s}", c, models[len(models)-1]))
			}
			h := &held{r: r, first: first, lo: len(sc.Batches), hi: len(sc.Batches)}
			for _, id := range r.VerifSnapshot().VerifFileSegmentIDs() {
				h.files = append(h.files, crashfs.FileName(index.ItemKindSegment, id))
			}
			readers = append(readers, h)
		}
		_ = clientDone
		if or.Sequential {
			r, err := w.Reader()
			if err != nil {
				verifmc.Fail("reader: " + err.Error())
			}
			c, err := harness.Observe(r)
			_ = r.Close()
			if err != nil || c != models[len(models)-1] {
				verifmc.Fail(fmt.Sprintf("at quiescence the index shows {%s} (%v), the abstract index is {%s}", c, err, models[len(models)-1]))
			}
		}
		if err := w.Close(); err != nil {
			verifmc.Fail("close: " + err.Error())
		}
		wclosed := w
		w = nil
		_ = wclosed
		if or.Immutable {
			reobserve("after the writer was closed")
		}
		for i, h := range readers {
			if err := h.r.Close(); err != nil {
				verifmc.Fail(fmt.Sprintf("closing reader #%d: %v", i, err))
			}
		}
		readers = nil
		if or.Sequential && !sc.Opts.Unsafe {
			rr, err := bluge.OpenReader(harness.Config(dir, harness.Opts{}))
			if err != nil {
				verifmc.Fail("reopen: " + err.Error())
			}
			c, err := harness.Observe(rr)
			_ = rr.Close()
			if err != nil || c != models[len(models)-1] {
				verifmc.Fail(fmt.Sprintf("after close and reopen the index shows {%s} (%v), the abstract index is {%s}", c, err, models[len(models)-1]))
			}
		}
	})
	if s.Failure != "" {
		return s, res
	}
	if len(dir.Problems) > 0 {
		res.Failure = "storage discipline: " + strings.Join(dir.Problems, "; ")
		res.Key = "storage-discipline"
		return s, res
	}
	if or.Files {
		if oh := dir.OpenHandles(); len(oh) > 0 {
			res.Failure = "file handles still open after every reader and the writer were closed: " + strings.Join(oh, ", ")
			return s, res
		}
		if dir.Locked() {
			res.Failure = "the directory lock is still held after the writer was closed"
			return s, res
		}
		if f := crashcheck.RetentionInvariant(dir.Trace, retain); f != "" {
			res.Failure = f
			return s, res
		}
	}
	windows(dir.Trace, res)
	var o []string
	for _, e := range dir.Trace {
		if e.Kind == "persist" || e.Kind == "remove" {
			o = append(o, e.Kind[:1]+e.Name[8:]+e.Err)
		}
		if e.Kind == "ret" {
			o = append(o, fmt.Sprintf("r%d", e.Batch))
		}
	}
	res.Outcome = strings.Join(o, " ") + "|" + strings.Join(obsLog, "|")
	if opts.Prefix == nil {
		res.Sample = map[string]interface{}{"scenario": name, "storage_trace_default_schedule": strings.Join(o, " ")}
	}
	return s, res
}

func min(a, b int) int {
	if a < b {
		return a
	}
	return b
}

// windows records whether a batch was called or returned inside a merge
// window: between the persist of a merged segment file and the next snapshot
// persist (in-memory merge) / anywhere between two persists of the merger.
func windows(trace []crashfs.Event, res *explore.Result) {
	batchSeg := map[string]bool{}
	// segments written by the batch path are the ones named by the first snapshot after a "call"
	open := false
	mergesSeen := 0
	inWindow := false
	lastWasBatchCall := false
	for _, e := range trace {
		switch e.Kind {
		case "call":
			lastWasBatchCall = true
			if open {
				inWindow = true
			}
		case "ret":
			if open {
				inWindow = true
			}
		case "persist":
			if strings.HasSuffix(e.Name, ".seg") && e.Err == "" {
				// a segment persisted right after another segment persist, or by a merge: heuristically a
				// merged segment is one whose bytes were produced by Merge, which we cannot see here; use
				// the load that precedes introduction instead (see below)
				_ = batchSeg
			}
			if strings.HasSuffix(e.Name, ".snp") {
				open = false
			}
		case "load":
			if strings.HasSuffix(e.Name, ".seg") && e.Err == "" {
				// a segment file is loaded by the persister/merger right before it is handed to the introducer
				open = true
				mergesSeen++
			}
		}
		_ = lastWasBatchCall
	}
	res.Flags["batch_inside_persist_or_merge_window"] = inWindow
	if inWindow {
		res.Counts["executions_with_batch_inside_window"] = 1
	}
}

//go:build go1.21

package bluge

import "github.com/blugelabs/bluge/index"

// Accessors used by the verification harness (overlay only; this file is
// never part of the repository).  The public Config hides the index
// configuration (UnsafeBatch, EventCallback, AsyncError, MergePlanOptions,
// DeletionPolicyFunc, DirectoryFunc), which the harness has to control.

// VerifIndexConfig returns the index-level configuration.
func (config Config) VerifIndexConfig() index.Config { return config.indexConfig }

// WithVerifIndexConfig replaces the index-level configuration.
func (config Config) WithVerifIndexConfig(ic index.Config) Config {
	config.indexConfig = ic
	return config
}

// VerifSnapshot returns the index snapshot behind a reader.
func (r *Reader) VerifSnapshot() *index.Snapshot { return r.reader }

// VerifIndexWriter returns the index writer behind a writer.
func (w *Writer) VerifIndexWriter() *index.Writer { return w.chill }

#!/usr/bin/env python3
# Regenerates MANIFEST.json from the per-check table below.
import json
props=[json.loads(l) for l in open('/verif/properties.jsonl')]
SCHED="stateless model checking: deviation-bounded exhaustive enumeration of schedules of the real code under a controlled scheduler"
ENUM="bounded-exhaustive enumeration of inputs / operation sequences against a reference model"
C={
 "C05": dict(engine="sched", tech=SCHED+" + linearizability checking (porcupine)",
   text="every schedule within d deviations from the default scheduler (d=2 quick, 3 thorough, cut by budget and reported) of 5 colliding multi-client scenarios in safe and unsafe mode on the real writer; each recorded call/return history is decided by porcupine against the abstract index",
   note="trusts the verifmc scheduler shim (generated overlay), the crashfs storage model and porcupine; schedules beyond the deviation bound and larger scenarios are not covered", ref="DESIGN.md §3, §6 C05"),
 "C12": dict(engine="enum", tech=ENUM+" (all snapshots over boundary alphabets; every truncation, single-bit flip, tail, short file)",
   text="exhaustive round trip of all snapshots over boundary alphabets and exhaustive rejection (every truncation, every single-bit flip, tails, all short files) through the real decoder and loader on an in-memory and the real file-system directory with both loaders; bounded allocation measured; fallback to an older intact snapshot checked for every damage",
   note="fuzzing clause replaced by the stated exhaustive damage classes; CRC-valid crafted garbage is outside them", ref="DESIGN.md §6 C12"),
 "C13": dict(engine="enum", tech=ENUM+" (full grid of sizes x prior file states x writer behaviours x kinds on the real directory, fsync observed)",
   text="the complete grid of item sizes, pre-existing file states, item-writer failure points and kinds on the real FileSystemDirectory; os.File.Write/Sync observed through an os overlay so that sync-after-last-write-before-ack is decided on the real call sequence",
   note="trusts the os overlay hook; directory-entry durability is not part of the property", ref="DESIGN.md §6 C13"),
}
checks=[];na=[]
for p in props:
    i=p['id']
    if i in C:
        c=C[i]
        checks.append({"property_id":i,"quick_cmd":f"./run.sh {i} quick","thorough_cmd":f"./run.sh {i} thorough",
          "evidence_file":f"/verif/evidence/{i}.json","replay_cmd_template":f"./run.sh {i} replay {{path}}",
          "engine":c["engine"],"level_claimed":{"category":"model_checking","text":c["text"],"design_ref":c["ref"]},
          "level_note":c["note"],"technique":c["tech"]})
    else:
        na.append({"property_id":i,"reason":"check not built yet (work in progress, see DESIGN.md §6)"})
def serves(e): return [i for i in C if C[i]["engine"]==e]
m={"version":1,"setup_cmd":"./setup.sh",
 "hooks":{"guard":"generated go build -overlay (no tagged source in the repository tree)",
          "enable":"run.sh regenerates /verif/build/ov/overlay.json from /repo's working tree with cmd/mcrewrite (rewritten index package + verifmc shim + hook files under /verif/hooks) and builds every check with go build -overlay",
          "baseline_off_cmd":"cd /repo && go test -vet=off -count=1 ./...","source_commits":[],"add_only":True},
 "engines":[
   {"name":"sched","path":"/verif/mc, /verif/explore/explore.go, /verif/cmd/mcrewrite","serves_properties":serves("sched"),"kind_free_text":"cooperative scheduler shim + deviation-bounded stateless explorer over the real index package, sharded over worker processes"},
   {"name":"crash","path":"/verif/crashfs","serves_properties":serves("crash"),"kind_free_text":"recording storage device, crash-image enumerator (operation boundaries, torn / zero-filled / stale-tail variants), fault injection"},
   {"name":"enum","path":"/verif/explore/enum.go","serves_properties":serves("enum"),"kind_free_text":"bounded-exhaustive enumerator of inputs and operation sequences against reference models, sharded over worker processes"}],
 "checks":checks,"not_applicable":na,
 "notes":"All checks: ./run.sh <ID> quick|thorough; replay: ./run.sh <ID> replay <file>. Exit 0 ok, 1 VIOLATION, 2 harness/build error. See DESIGN.md."}
json.dump(m,open('/verif/MANIFEST.json','w'),indent=1)
print("claimed:",[c["property_id"] for c in checks])

package main

import "strings"

// An inputSet is the finite, totally ordered input space of one configuration:
// for len = 0..L, for every alphabet, every string of exactly len symbols
// (first symbol most significant, symbols in the alphabet's own
// simplest-first order), followed by the whole-word list.
type inputSet struct {
	alphas [][]string
	L      int
	words  []string
}

func ipow(b, e int) int {
	n := 1
	for i := 0; i < e; i++ {
		n *= b
	}
	return n
}

func (s *inputSet) count() int {
	n := 1
	for l := 1; l <= s.L; l++ {
		for _, a := range s.alphas {
			n += ipow(len(a), l)
		}
	}
	return n + len(s.words)
}

// each calls f(i, symbols, input) for every input with index >= from, in
// order, until f returns false.  symbols is -1 for whole-word inputs.
func (s *inputSet) each(from int, f func(i, syms int, in string) bool) {
	i := 0
	if i >= from {
		if !f(0, 0, "") {
			return
		}
	}
	i++
	var sb strings.Builder
	for l := 1; l <= s.L; l++ {
		for _, a := range s.alphas {
			n := ipow(len(a), l)
			if i+n <= from {
				i += n
				continue
			}
			digits := make([]int, l)
			for k := 0; k < n; k++ {
				if i >= from {
					sb.Reset()
					for _, d := range digits {
						sb.WriteString(a[d])
					}
					if !f(i, l, sb.String()) {
						return
					}
				}
				i++
				for p := l - 1; p >= 0; p-- {
					digits[p]++
					if digits[p] < len(a) {
						break
					}
					digits[p] = 0
				}
			}
		}
	}
	for _, w := range s.words {
		if i >= from {
			if !f(i, -1, w) {
				return
			}
		}
		i++
	}
}

// ruleWords builds the whole-word inputs of a language from its rule strings:
// every rule string alone and behind 1..8 filler letters (two alternating
// letter patterns, one ending in each filler letter), so that the length
// guards and the R1/R2 regions of the stemmers are satisfied.
func ruleWords(tables []string, c, v string, pairs bool) []string {
	var rules []string
	seen := map[string]bool{}
	for _, t := range tables {
		for _, s := range ruleStrings[t] {
			if !seen[s] {
				seen[s] = true
				rules = append(rules, s)
			}
		}
	}
	var alt1, alt2 []string // ... c v c v  /  ... v c v c
	for i := 0; i < 8; i++ {
		if i%2 == 0 {
			alt1 = append([]string{v}, alt1...)
			alt2 = append([]string{c}, alt2...)
		} else {
			alt1 = append([]string{c}, alt1...)
			alt2 = append([]string{v}, alt2...)
		}
	}
	var out []string
	for _, r := range rules {
		out = append(out, r)
		for n := 1; n <= 8; n++ {
			out = append(out, strings.Join(alt1[8-n:], "")+r)
			out = append(out, strings.Join(alt2[8-n:], "")+r)
		}
		// the rule string as a prefix as well (prefix tables: ar, tr, ...)
		out = append(out, r+strings.Join(alt1[4:], ""))
	}
	if pairs && len(rules) <= 260 {
		stem := strings.Join(alt1[4:], "")
		for _, r1 := range rules {
			for _, r2 := range rules {
				out = append(out, stem+r1+r2)
			}
		}
	}
	return out
}

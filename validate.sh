#!/bin/bash
# validate MANIFEST.json and every evidence file against the schemas
cd "$(dirname "$0")"
python3-vt - <<'PY'
import json, jsonschema, glob, sys
ok = True
try:
    jsonschema.validate(json.load(open('MANIFEST.json')), json.load(open('/root/.vp/MANIFEST.schema.json')))
    print('MANIFEST ok')
except Exception as e:
    ok = False; print('MANIFEST INVALID', str(e)[:300])
sch = json.load(open('/root/.vp/EVIDENCE.schema.json'))
for f in sorted(glob.glob('evidence/*.json')):
    try:
        jsonschema.validate(json.load(open(f)), sch); print(f, 'ok')
    except Exception as e:
        ok = False; print(f, 'INVALID', str(e)[:300])
sys.exit(0 if ok else 1)
PY

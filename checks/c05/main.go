// C05: concurrent batches are linearizable; readers see a prefix of that order.
//
// Every schedule of small multi-client scenarios within d deviations from the
// default scheduler is executed on the real writer; the recorded call/return
// history (batches, reader acquisitions with the content later observed on
// that reader, a final read) is decided by porcupine against the abstract
// index.
package main

import (
	"fmt"
	"os"
	"strings"
	"time"

	"github.com/anishathalye/porcupine"
	"github.com/blugelabs/bluge"
	"github.com/blugelabs/bluge/verifmc"
	"github.com/blugelabs/bluge/verifmc/msync"

	"verif/checkmain"
	"verif/crashfs"
	"verif/explore"
	"verif/harness"
)

type scen struct {
	eager   bool // merge plan scaled down: any two small file segments are merged
	pre     harness.BatchSpec
	clients [][]harness.BatchSpec
	reads   int
}

func U(id, v string) harness.Op { return harness.Op{Kind: 'U', ID: id, Ver: v} }
func I(id, v string) harness.Op { return harness.Op{Kind: 'I', ID: id, Ver: v} }
func D(id string) harness.Op    { return harness.Op{Kind: 'D', ID: id} }

var scens = map[string]scen{
	"uu": {pre: harness.BatchSpec{I("a", "0")},
		clients: [][]harness.BatchSpec{{{U("a", "1")}}, {{U("a", "2")}}}, reads: 2},
	"ud": {pre: harness.BatchSpec{I("a", "0"), I("b", "0")},
		clients: [][]harness.BatchSpec{{{U("a", "1"), D("b")}}, {{D("a"), U("b", "2")}}}, reads: 2},
	"id": {pre: nil,
		clients: [][]harness.BatchSpec{{{I("a", "1")}}, {{D("a")}}, {{U("a", "3")}}}, reads: 1},
	"2x2": {pre: nil,
		clients: [][]harness.BatchSpec{{{U("a", "1")}, {D("a")}}, {{U("a", "2")}, {U("b", "3")}}}, reads: 2},
	// eager merging, a two-document segment without deletions: a client's delete can land inside the merge
	"lm": {eager: true, pre: harness.BatchSpec{I("a", "0"), I("b", "0")},
		clients: [][]harness.BatchSpec{{{I("c", "1")}, {D("a")}}, {{I("e", "1")}, {U("c", "2")}}}, reads: 1},
	"3c": {pre: harness.BatchSpec{I("a", "0")},
		clients: [][]harness.BatchSpec{{{U("a", "1")}}, {{U("a", "2")}}, {{D("a"), I("b", "1")}}}, reads: 1},
}

type opIn struct {
	read  bool
	batch harness.BatchSpec
}

var model = porcupine.Model{
	Init: func() interface{} { return "" },
	Step: func(state, input, output interface{}) (bool, interface{}) {
		in := input.(opIn)
		st := state.(string)
		if in.read {
			return output.(string) == st, st
		}
		return true, harness.ApplyToContent(st, in.batch)
	},
	DescribeOperation: func(input, output interface{}) string {
		in := input.(opIn)
		if in.read {
			return "read -> {" + output.(string) + "}"
		}
		return "batch " + in.batch.String()
	},
}

func run(opts verifmc.Options, param string) (*verifmc.Sched, *explore.Result) {
	parts := strings.Split(param, "/")
	sc := scens[parts[0]]
	unsafe := len(parts) > 1 && parts[1] == "unsafe"
	res := &explore.Result{Counts: map[string]int64{}, Flags: map[string]bool{}}
	var ops []porcupine.Operation
	var clk harness.Clock
	var fail string
	dir := crashfs.New()
	s := verifmc.Run(opts, func() {
		cfg := harness.Config(dir, harness.Opts{Unsafe: unsafe, EagerMerge: sc.eager})
		w, err := bluge.OpenWriter(cfg)
		if err != nil {
			verifmc.Fail("open: " + err.Error())
		}
		if sc.pre != nil {
			c := clk.Tick()
			if err := w.Batch(harness.MakeBatch(sc.pre)); err != nil {
				verifmc.Fail("pre batch: " + err.Error())
			}
			ops = append(ops, porcupine.Operation{ClientId: 0, Input: opIn{batch: sc.pre}, Call: c, Output: "", Return: clk.Tick()})
		}
		var wg msync.WaitGroup
		for ci, batches := range sc.clients {
			ci, batches := ci, batches
			wg.Add(1)
			verifmc.Go(func() {
				defer wg.Done()
				for _, b := range batches {
					c := clk.Tick()
					err := w.Batch(harness.MakeBatch(b))
					r := clk.Tick()
					if err != nil {
						verifmc.Fail("batch returned an error without any fault: " + err.Error())
					}
					ops = append(ops, porcupine.Operation{ClientId: ci + 1, Input: opIn{batch: b}, Call: c, Output: "", Return: r})
				}
			})
		}
		wg.Add(1)
		verifmc.Go(func() {
			defer wg.Done()
			var held []*bluge.Reader
			var stamps [][2]int64
			for i := 0; i < sc.reads; i++ {
				c := clk.Tick()
				r, err := w.Reader()
				ret := clk.Tick()
				if err != nil {
					verifmc.Fail("reader: " + err.Error())
				}
				held = append(held, r)
				stamps = append(stamps, [2]int64{c, ret})
				verifmc.Yield("between-reads")
			}
			// the readers are observed late: a reader is a point-in-time view
			for i, r := range held {
				content, err := harness.Observe(r)
				if err != nil {
					verifmc.Fail("observe: " + err.Error())
				}
				ops = append(ops, porcupine.Operation{ClientId: len(sc.clients) + 1, Input: opIn{read: true}, Call: stamps[i][0], Output: content, Return: stamps[i][1]})
				_ = r.Close()
			}
		})
		wg.Wait()
		// final read, after every call returned
		c := clk.Tick()
		r, err := w.Reader()
		ret := clk.Tick()
		if err != nil {
			verifmc.Fail("reader: " + err.Error())
		}
		content, err := harness.Observe(r)
		if err != nil {
			verifmc.Fail("observe final: " + err.Error())
		}
		ops = append(ops, porcupine.Operation{ClientId: 0, Input: opIn{read: true}, Call: c, Output: content, Return: ret})
		_ = r.Close()
		if err := w.Close(); err != nil {
			verifmc.Fail("close: " + err.Error())
		}
		if !unsafe {
			// every batch was acknowledged: the reopened index equals the final content
			rr, err := bluge.OpenReader(harness.Config(dir, harness.Opts{}))
			if err != nil {
				verifmc.Fail("reopen: " + err.Error())
			}
			c2, err := harness.Observe(rr)
			if err != nil {
				verifmc.Fail("observe reopened: " + err.Error())
			}
			if c2 != content {
				fail = fmt.Sprintf("reopened index {%s} differs from the final content {%s}", c2, content)
			}
			_ = rr.Close()
		}
	})
	if s.Failure != "" {
		return s, res
	}
	if fail != "" {
		res.Failure = fail
		return s, res
	}
	if len(dir.Problems) > 0 {
		res.Failure = "storage discipline: " + strings.Join(dir.Problems, "; ")
		return s, res
	}
	ok := porcupine.CheckOperations(model, ops)
	var hist []string
	overlap := false
	for i, o := range ops {
		hist = append(hist, fmt.Sprintf("c%d[%d,%d]%s", o.ClientId, o.Call, o.Return, model.DescribeOperation(o.Input, o.Output)))
		for j := 0; j < i; j++ {
			if ops[j].Call < o.Return && o.Call < ops[j].Return {
				overlap = true
			}
		}
	}
	res.Outcome = strings.Join(hist, ";")
	res.Flags["operations_overlapped"] = overlap
	if overlap {
		res.Counts["histories_with_overlap"] = 1
	}
	if !ok {
		res.Failure = "history is not linearizable w.r.t. the abstract index: " + strings.Join(hist, " ; ")
	}
	if opts.Prefix == nil {
		res.Sample = map[string]interface{}{"scenario": param, "history_default_schedule": hist}
	}
	return s, res
}

func main() {
	explore.Register("c05", run)
	explore.WorkerMain()
	c := checkmain.New("C05")
	if v := c.IsReplay(); v != nil {
		c.RunReplay(v)
	}
	c.Rule = "every schedule within the deviation bound of each scenario (2-3 clients with colliding batches over ids {a,b}, a reader thread holding 1-2 readers, safe and unsafe mode; +rev / +rr = the same scenario around the reverse-priority / round-robin default scheduler); an execution is non-trivial/distinct by its recorded call/return history (distinct_nontrivial = distinct histories)"
	c.Explanation = "stateless exploration of the real bluge writer under a controlled scheduler; each history decided by porcupine; states = distinct schedule prefixes (choice-tree nodes), transitions = scheduler steps, traces_validated_against_impl = executions (all run on the implementation itself, no separate model)"
	c.Assumptions = []string{
		"schedules further than the stated deviation bound from the default scheduler are not explored",
		"an observation of a reader is atomic with respect to writer activity (interleavings inside a search are C15's subject)",
		"storage is the crashfs model of FileSystemDirectory (bound to the real directory by C13 and the C02/C03 conformance replay)",
	}
	budget := c.PickD(150*time.Second, 20*time.Minute)
	names := []string{"uu", "ud", "id", "lm", "uu+rev", "lm+rev", "uu+rr", "2x2", "3c"}
	if c.Thorough() {
		names = append(names, "lm+rr", "ud+rr")
	}
	if os.Getenv("VERIF_ONLY") != "" {
		names = strings.Split(os.Getenv("VERIF_ONLY"), ",")
	}
	deadline := time.Now().Add(budget)
	k := 0
	for _, n := range names {
		for _, mode := range []string{"safe", "unsafe"} {
			per := 2 * time.Until(deadline) / time.Duration(2*len(names)-k) // twice the even share: most scenarios finish well below it, the deadline bounds the total
			if per > time.Until(deadline) {
				per = time.Until(deadline)
			}
			k++
			if per < 2*time.Second {
				per = 2 * time.Second
			}
			bound := 2
			if !c.Thorough() && ((mode == "unsafe" && n == "2x2") || n == "3c" || n == "lm" || strings.HasSuffix(n, "+rev") || (strings.HasSuffix(n, "+rr") && n != "uu+rr")) {
				bound = 1 // quick tier: the two largest scenarios are explored to d<=1 in unsafe mode
			}
			if c.Thorough() {
				bound = 3 // cut by the time budget: the evidence says how far it got
			}
			param := n + "/" + mode
			if strings.HasSuffix(n, "+rev") {
				param = strings.TrimSuffix(n, "+rev") + "/" + mode + "+rev"
			}
			if strings.HasSuffix(n, "+rr") {
				param = strings.TrimSuffix(n, "+rr") + "/" + mode + "+rr"
			}
			st := explore.Explore(explore.Config{Scenario: "c05", Param: param, Bound: bound, Budget: per})
			c.AddExplore(st)
			if c.Failed() {
				c.Finish()
			}
		}
	}
	c.Finish()
}

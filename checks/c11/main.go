// C11: no needed file is ever removed; handles and the lock are released.
package main

import (
	"time"

	"verif/livecheck"
)

func main() {
	all := []string{"rd-safe", "rd-unsafe-cf", "rd-unsafe-cf-nomem", "rd-partial-ucf-nomem", "rd-partial-ucf-nomem-f1", "rd-keep2", "rd-keep3", "mg-safe", "mg-empty", "faulty/safe3", "faulty/safe3keep2", "faulty/merge4/sticky", "faulty/safe3/nohold", "faulty/merge4/nohold", "faulty/safe3/closefault", "faulty/merge4/closefault"}
	livecheck.Main(livecheck.Plan{
		ID:     "C11",
		Oracle: livecheck.Oracle{Files: true},
		Quick:  all, QuickBound: 1, QuickDeep: []string{"rd-unsafe-cf"}, QuickBudget: 60 * time.Second,
		Thorough: all, ThorBound: 2, ThorBudget: 15 * time.Minute,
		Rule:        "(a) every schedule within the deviation bound of 8 scenarios (retention 1, 2, 3; held readers; eager merges) and of 3 scenarios in which every directory operation may additionally fail (transient / sticky I/O faults): after every storage operation of the recorded trace, once N snapshots were committed at least N snapshot files are loadable with all their segment files; no successful Remove hits a file the writer's root or a held reader refers to; every handle is closed exactly once and none is open, and the lock is free, after everything was closed; (b) every sequence of length <= 5 over {open W1, open W2, batch on W1, close W1, close W2, open reader} on the REAL FileSystemDirectory against a two-state lock model",
		Explanation: "stateless exploration on the crashfs device for (a); explicit enumeration of operation sequences on the real directory for (b)",
		Assumptions: []string{"schedules beyond the deviation bound are not explored"},
		Post:        lockProtocol,
	})
}

// C01: batches apply atomically and exactly as the abstract index says.
//
// Bounded-exhaustive enumeration of batch histories over the 16 batch shapes
// on ids {a,b} (each id untouched / inserted / updated / deleted), for every
// configuration of directory kind x segment format x safe/unsafe x merging
// off/eager.  Every history runs on the real writer inside one controlled
// execution (default schedule); after every batch a fresh Reader obtained
// from the writer is compared with the reference multiset index, and once
// more after Close + OpenReader.
package main

import (
	"fmt"
	"io"
	"log"
	"math"
	"os"
	"path/filepath"
	"strconv"
	"strings"
	"time"

	"github.com/blugelabs/bluge"
	"github.com/blugelabs/bluge/index"
	"github.com/blugelabs/bluge/index/mergeplan"
	"github.com/blugelabs/bluge/verifmc"

	"verif/checkmain"
	"verif/crashfs"
	"verif/explore"
	"verif/harness"
)

// ---------------------------------------------------------------- case space

var ids = []string{"a", "b"}

// per-id operation of a batch shape: 0 untouched, 1 insert, 2 update, 3 delete
var opKinds = []byte{0, 'I', 'U', 'D'}

const nShapes = 16

// shapeSpec builds batch number n (1-based) of shape s: every written
// document gets the fresh version "<n>".
func shapeSpec(s int, n int) harness.BatchSpec {
	var spec harness.BatchSpec
	for k, id := range ids {
		op := opKinds[(s>>(2*uint(k)))&3]
		switch op {
		case 'I', 'U':
			spec = append(spec, harness.Op{Kind: op, ID: id, Ver: strconv.Itoa(n)})
		case 'D':
			spec = append(spec, harness.Op{Kind: op, ID: id})
		}
	}
	return spec
}

// histories of length 0..L, ordered by length, then mixed radix (first batch
// is the least significant digit, the empty shape is digit 0).
func nHist(L int) int64 {
	var t, p int64 = 0, 1
	for l := 0; l <= L; l++ {
		t += p
		p *= nShapes
	}
	return t
}

func histOf(k int64) []int {
	p := int64(1)
	for l := 0; ; l++ {
		if k < p {
			h := make([]int, l)
			for i := 0; i < l; i++ {
				h[i] = int(k % nShapes)
				k /= nShapes
			}
			return h
		}
		k -= p
		p *= nShapes
	}
}

func histSpecs(h []int) []harness.BatchSpec {
	out := make([]harness.BatchSpec, len(h))
	for i, s := range h {
		out[i] = shapeSpec(s, i+1)
	}
	return out
}

func histString(specs []harness.BatchSpec) string {
	var p []string
	for _, s := range specs {
		p = append(p, s.String())
	}
	return strings.Join(p, "")
}

// configurations: dir {crashfs, fs, mem} x ice {v1, v2} x {safe, unsafe} x
// {merging off, eager merge}; configuration 0 is the default one.
type config struct {
	dir    int // 0 crashfs in-memory device, 1 real FileSystemDirectory on /dev/shm, 2 index.InMemoryDirectory (InMemoryOnlyConfig)
	ver    int // 1, 2
	unsafe bool
	eager  bool
	rr     bool // run under the round-robin ("lockstep") default scheduler instead of the client-first one
}

const nConfigs = 24

var dirNames = []string{"crashfs", "fs", "mem"}

func configOf(i int) config {
	c := config{dir: i % 3}
	i /= 3
	c.ver = 1 + i%2
	i /= 2
	c.unsafe = i%2 == 1
	i /= 2
	c.eager = i%2 == 1
	return c
}

func (c config) String() string {
	s := dirNames[c.dir] + "/v" + strconv.Itoa(c.ver)
	if c.unsafe {
		s += "/unsafe"
	} else {
		s += "/safe"
	}
	if c.eager {
		s += "/eager-merge"
	} else {
		s += "/no-merge"
	}
	if c.rr {
		s += "/lockstep"
	}
	return s
}

// turns is the number of times the client yields to the writer's background
// threads after each batch.  Under the default schedule the client thread is
// preferred whenever it can run, so without these turns the persister (unsafe
// mode) and the merger would never get to work before the next batch: the
// eager-merge configurations would not contain a single merged segment and an
// unsafe writer would never persist anything.
func (c config) turns() int {
	switch {
	case c.eager:
		return 2
	case c.unsafe:
		return 1
	}
	return 0
}

func (c config) opts() harness.Opts {
	o := harness.Opts{Unsafe: c.unsafe, SegVersion: c.ver}
	if c.eager {
		o.EagerMerge = true
	} else {
		o.NoMemMerge = true // the file merge plan is switched off in runHistory
	}
	return o
}

// ---------------------------------------------------------------- scratch space

var caseSeq int

func scratchRoot() string {
	pid := os.Getpid()
	if os.Getenv("VERIF_WORKER") != "" {
		pid = os.Getppid()
	}
	return fmt.Sprintf("/dev/shm/verif-c01-%d", pid)
}

func newCaseDir() (string, error) {
	caseSeq++
	p := filepath.Join(scratchRoot(), fmt.Sprintf("w%d-%d", os.Getpid(), caseSeq))
	_ = os.RemoveAll(p)
	return p, os.MkdirAll(p, 0o700)
}

// ---------------------------------------------------------------- one history

type apiMode int

const (
	apiReusedBatch apiMode = iota // one index.Batch object, Reset() between the batches
	apiFreshBatch                 // a new batch per call
	apiSingleOps                  // Writer.Insert / Update / Delete
)

type outcome struct {
	failure    string
	contents   []string // observed content after each batch
	reopened   string
	nontrivial bool
	counts     map[string]int64
}

// fillBatch adds the operations of spec to b (documents are built fresh).
func fillBatch(b *index.Batch, spec harness.BatchSpec) {
	for _, o := range spec {
		switch o.Kind {
		case 'I':
			b.Insert(harness.Doc(o.ID, o.Ver))
		case 'U':
			b.Update(bluge.Identifier(o.ID), harness.Doc(o.ID, o.Ver))
		case 'D':
			b.Delete(bluge.Identifier(o.ID))
		}
	}
}

// expectation of one batch: given the model before it, what must be visible after it
type expectFunc func(before *harness.Model, spec harness.BatchSpec) *harness.Model

func abstractApply(before *harness.Model, spec harness.BatchSpec) *harness.Model {
	m := before.Clone()
	m.Apply(spec)
	return m
}

// runHistory executes the batches on a real writer of the given configuration
// and compares every observation with the expectation.
func runHistory(cfg config, specs []harness.BatchSpec, api apiMode, expect expectFunc) (out outcome) {
	out.counts = map[string]int64{}
	var dir index.Directory
	var fsPath string
	newDir := func() index.Directory { return dir }
	switch cfg.dir {
	case 0:
		d := crashfs.New()
		d.Points = false
		dir = d
	case 1:
		p, err := newCaseDir()
		if err != nil {
			out.failure = "harness: " + err.Error()
			return
		}
		fsPath = p
		defer os.RemoveAll(p)
		newDir = func() index.Directory { return index.NewFileSystemDirectory(fsPath) }
	case 2:
		// the directory bluge.InMemoryOnlyConfig() would create
		dir = bluge.InMemoryOnlyConfig().VerifIndexConfig().DirectoryFunc()
	}
	model := harness.NewModel()
	prefixes := []string{model.Content()} // content after each prefix of the history
	var fail string
	s := verifmc.Run(verifmc.Options{RoundRobin: cfg.rr}, func() {
		bcfg := harness.Config(nil, cfg.opts())
		ic := bcfg.VerifIndexConfig()
		ic.DirectoryFunc = newDir
		if !cfg.eager {
			// merging off: besides "never merge in memory" (harness.Opts.NoMemMerge) the
			// merge planner gets a segment budget that is never exceeded (the default
			// plan would merge even two one-document file segments); only the removal
			// of completely deleted segments remains
			ic.MergePlanOptions.CalcBudget = func(int64, int64, *mergeplan.Options) int { return math.MaxInt32 }
		}
		bcfg = bcfg.WithVerifIndexConfig(ic)
		w, err := bluge.OpenWriter(bcfg)
		if err != nil {
			verifmc.Fail("OpenWriter: " + err.Error())
		}
		reused := bluge.NewBatch()
		for n, spec := range specs {
			for _, o := range spec {
				if (o.Kind == 'U' || o.Kind == 'D') && len(model.Docs[o.ID]) > 0 {
					out.nontrivial = true
				}
			}
			switch {
			case api == apiSingleOps && len(spec) == 1:
				o := spec[0]
				switch o.Kind {
				case 'I':
					err = w.Insert(harness.Doc(o.ID, o.Ver))
				case 'U':
					err = w.Update(bluge.Identifier(o.ID), harness.Doc(o.ID, o.Ver))
				case 'D':
					err = w.Delete(bluge.Identifier(o.ID))
				}
			case api == apiReusedBatch:
				reused.Reset()
				fillBatch(reused, spec)
				err = w.Batch(reused)
			default:
				b := bluge.NewBatch()
				fillBatch(b, spec)
				err = w.Batch(b)
			}
			if err != nil {
				fail = fmt.Sprintf("batch %d %s returned an error without any fault: %v", n+1, spec, err)
				break
			}
			model = expect(model, spec)
			want := model.Content()
			prefixes = append(prefixes, want)
			r, err := w.Reader()
			if err != nil {
				fail = fmt.Sprintf("Reader after batch %d: %v", n+1, err)
				break
			}
			got, err := harness.Observe(r)
			if err != nil {
				fail = fmt.Sprintf("after batch %d %s: %v (expected {%s})", n+1, spec, err, want)
				_ = r.Close()
				break
			}
			out.contents = append(out.contents, got)
			if got != want {
				fail = fmt.Sprintf("after batch %d %s the reader holds {%s}, the abstract index {%s}", n+1, spec, got, want)
				_ = r.Close()
				break
			}
			byID, err := harness.ObserveByID(r, ids)
			if err != nil {
				fail = fmt.Sprintf("after batch %d %s: lookup by id: %v", n+1, spec, err)
				_ = r.Close()
				break
			}
			if byID != want {
				fail = fmt.Sprintf("after batch %d %s term lookups on _id give {%s}, the abstract index {%s}", n+1, spec, byID, want)
				_ = r.Close()
				break
			}
			nseg := len(r.VerifSnapshot().VerifSegmentIDs())
			out.counts[fmt.Sprintf("observations_with_%d_segments", nseg)]++
			out.counts["readers_compared"]++
			if err := r.Close(); err != nil {
				fail = fmt.Sprintf("closing the reader after batch %d: %v", n+1, err)
				break
			}
			for y := 0; y < cfg.turns(); y++ {
				verifmc.Yield("c01-after-batch")
			}
		}
		if fail == "" {
			st := w.VerifIndexWriter().Stats()
			if st.TotFileMergeIntroductionsDone > 0 {
				out.counts["histories_with_merge_introduction"]++
			}
			if st.TotMemMergeDone > 0 {
				out.counts["histories_with_in_memory_merge"]++
			}
		}
		if err := w.Close(); err != nil && fail == "" {
			fail = "Close: " + err.Error()
		}
	})
	if s.Failure != "" {
		out.failure = "inside the writer: " + s.Failure
		return
	}
	if fail != "" {
		out.failure = fail
		return
	}
	if cfg.dir == 2 {
		return // the in-memory directory keeps no snapshots: nothing to reopen
	}
	// Close + reopen
	rcfg := harness.Config(nil, harness.Opts{SegVersion: cfg.ver})
	ic := rcfg.VerifIndexConfig()
	ic.DirectoryFunc = newDir
	rcfg = rcfg.WithVerifIndexConfig(ic)
	want := model.Content()
	rr, err := bluge.OpenReader(rcfg)
	if err != nil {
		snaps, lerr := newDir().List(index.ItemKindSnapshot)
		if lerr == nil && len(snaps) == 0 && (cfg.unsafe || len(specs) == 0) {
			// nothing was ever persisted: the empty prefix (allowed when no
			// batch was acknowledged as persisted)
			out.reopened = "<no snapshot>"
			out.counts["reopen_nothing_persisted"]++
			return
		}
		out.failure = fmt.Sprintf("after Close, OpenReader fails: %v (expected {%s})", err, want)
		return
	}
	defer rr.Close()
	got, err := harness.Observe(rr)
	if err != nil {
		out.failure = fmt.Sprintf("reopened index: %v (expected {%s})", err, want)
		return
	}
	out.reopened = got
	out.counts["reopens_compared"]++
	if !cfg.unsafe {
		if got != want {
			out.failure = fmt.Sprintf("after Close + OpenReader the index holds {%s}, every batch was acknowledged and the abstract index is {%s}", got, want)
			return
		}
	} else {
		ok := false
		for i := len(prefixes) - 1; i >= 0; i-- {
			if prefixes[i] == got {
				ok = true
				if i == len(prefixes)-1 {
					out.counts["unsafe_reopen_is_full_history"]++
				} else {
					out.counts["unsafe_reopen_is_shorter_prefix"]++
				}
				break
			}
		}
		if !ok {
			out.failure = fmt.Sprintf("unsafe mode: after Close + OpenReader the index holds {%s}, which is the abstract index after no prefix of the history (prefix contents: %s)", got, strings.Join(prefixes, " | "))
			return
		}
	}
	byID, err := harness.ObserveByID(rr, ids)
	if err != nil {
		out.failure = "reopened index: lookup by id: " + err.Error()
		return
	}
	if byID != got {
		out.failure = fmt.Sprintf("reopened index: term lookups on _id give {%s}, match-all {%s}", byID, got)
	}
	return
}

func resultOf(cfg config, specs []harness.BatchSpec, api apiMode, out outcome, idx int64) *explore.Result {
	hs := histString(specs)
	res := &explore.Result{Counts: out.counts}
	res.Outcome = cfg.String() + "|" + strings.Join(out.contents, "|") + "||" + out.reopened
	if out.nontrivial {
		res.Nontrivial = 1
	}
	if out.failure != "" {
		res.Key = fmt.Sprintf("history:%s:api%d:%s", cfg, api, hs)
		res.Failure = fmt.Sprintf("config %s, history %s: %s", cfg, hs, out.failure)
		return res
	}
	if idx%4099 == 0 {
		res.Sample = map[string]interface{}{"config": cfg.String(), "history": hs, "content_after_each_batch": out.contents, "after_close_and_reopen": out.reopened}
	}
	return res
}

func depth(param string, def bool) int {
	d := 3
	if def {
		d = 4
	}
	if strings.HasPrefix(param, "thorough") {
		d++
	}
	return d
}

// enumeration 1: the default configuration, deepest histories
func defTotal(param string) int64 { return nHist(depth(param, true)) }
func defEval(idx int64, param string) *explore.Result {
	cfg := configOf(0)
	specs := histSpecs(histOf(idx))
	return resultOf(cfg, specs, apiReusedBatch, runHistory(cfg, specs, apiReusedBatch, abstractApply), idx)
}

// enumeration 2: the 23 other configurations (history-major order)
func gridTotal(param string) int64 { return (nConfigs - 1) * nHist(depth(param, false)) }
func gridEval(idx int64, param string) *explore.Result {
	cfg := configOf(1 + int(idx%(nConfigs-1)))
	specs := histSpecs(histOf(idx / (nConfigs - 1)))
	return resultOf(cfg, specs, apiReusedBatch, runHistory(cfg, specs, apiReusedBatch, abstractApply), idx)
}

// enumeration 2b: the eager-merge configurations on the crashfs device once more
// under the round-robin default scheduler: client, introducer, persister and
// merger advance in lockstep, so that batches land inside merge and persist windows
var lockstepConfigs = []int{12, 15, 18, 21} // crashfs x {v1,v2} x {safe,unsafe} x eager merge

func lockTotal(param string) int64 {
	return int64(len(lockstepConfigs)) * nHist(depth(param, false))
}
func lockEval(idx int64, param string) *explore.Result {
	cfg := configOf(lockstepConfigs[idx%int64(len(lockstepConfigs))])
	cfg.rr = true
	specs := histSpecs(histOf(idx / int64(len(lockstepConfigs))))
	return resultOf(cfg, specs, apiReusedBatch, runHistory(cfg, specs, apiReusedBatch, abstractApply), idx)
}

// enumeration 3: Writer.Insert / Update / Delete and fresh batches: histories
// over the 6 single-operation shapes, both ways of submitting them
var singleShapes = []int{1, 2, 3, 4, 8, 12}

func nSingleHist(L int) int64 {
	var t, p int64 = 0, 1
	for l := 0; l <= L; l++ {
		t += p
		p *= int64(len(singleShapes))
	}
	return t
}
func singleHistOf(k int64) []int {
	n := int64(len(singleShapes))
	p := int64(1)
	for l := 0; ; l++ {
		if k < p {
			h := make([]int, l)
			for i := 0; i < l; i++ {
				h[i] = singleShapes[k%n]
				k /= n
			}
			return h
		}
		k -= p
		p *= n
	}
}

var singleConfigs = []int{0, 3, 6, 9} // crashfs: v1/v2 x safe/unsafe, merging off

func singleTotal(param string) int64 {
	return 2 * int64(len(singleConfigs)) * nSingleHist(depth(param, true))
}
func singleEval(idx int64, param string) *explore.Result {
	api := apiSingleOps
	if idx%2 == 1 {
		api = apiFreshBatch
	}
	idx /= 2
	cfg := configOf(singleConfigs[idx%int64(len(singleConfigs))])
	specs := histSpecs(singleHistOf(idx / int64(len(singleConfigs))))
	return resultOf(cfg, specs, api, runHistory(cfg, specs, api, abstractApply), idx)
}

// ---------------------------------------------------------------- known-finding probe

// A batch that names the id a in two operations.  Two reference semantics are
// evaluated: (S) the operations of the batch applied one after the other, which
// is what keeps "an id written only through Update has exactly one live
// document" true, and (A) the batch-level rule "remove every live document whose
// id is named, then add the batch's documents".
var dupOps = []byte{'I', 'U', 'D'}

var dupContexts = []string{"a absent", "a live in an older segment", "a live twice (two inserts)"}

func dupTotal(string) int64 { return int64(len(dupContexts)) * 9 * 4 }

func sequentialApply(before *harness.Model, spec harness.BatchSpec) *harness.Model {
	m := before.Clone()
	for _, o := range spec {
		m.Apply(harness.BatchSpec{o})
	}
	return m
}

func dupEval(idx int64, param string) *explore.Result {
	i := int(idx)
	first := dupOps[i%3]
	i /= 3
	second := dupOps[i%3]
	i /= 3
	ctx := i % len(dupContexts)
	i /= len(dupContexts)
	cfg := configOf([]int{0, 3, 6, 1}[i]) // crashfs v1 safe, v2 safe, v1 unsafe, fs v1 safe
	var specs []harness.BatchSpec
	n := 1
	switch ctx {
	case 1:
		specs = append(specs, harness.BatchSpec{{Kind: 'I', ID: "a", Ver: "0"}})
	case 2:
		specs = append(specs, harness.BatchSpec{{Kind: 'I', ID: "a", Ver: "0"}}, harness.BatchSpec{{Kind: 'I', ID: "a", Ver: "00"}})
	}
	mk := func(k byte) harness.Op {
		o := harness.Op{Kind: k, ID: "a"}
		if k != 'D' {
			o.Ver = strconv.Itoa(n)
			n++
		}
		return o
	}
	dup := harness.BatchSpec{mk(first), mk(second)}
	// b rides along so that the batch is not only about a
	dup = append(dup, harness.Op{Kind: 'U', ID: "b", Ver: "9"})
	specs = append(specs, dup)
	shape := fmt.Sprintf("%c(a);%c(a)", first, second)
	res := &explore.Result{Nontrivial: 1, Counts: map[string]int64{}}
	seq := runHistory(cfg, specs, apiFreshBatch, sequentialApply)
	res.Outcome = shape + "|" + dupContexts[ctx] + "|" + strings.Join(seq.contents, "|")
	if seq.failure == "" {
		res.Counts["dup_shapes_matching_sequential_semantics"]++
		return res
	}
	// which rule does the writer follow instead?
	abs := runHistory(cfg, specs, apiFreshBatch, abstractApply)
	follows := "it does follow the batch-level rule 'remove the named ids from the older content, then add every document of the batch'"
	res.Counts["dup_deviations_that_follow_batch_level_remove_then_add"]++
	if abs.failure != "" {
		res.Counts["dup_deviations_that_follow_batch_level_remove_then_add"]--
		res.Counts["dup_deviations_that_follow_neither_rule"]++
		follows = "it does not follow the batch-level remove-then-add rule either: " + abs.failure
	}
	res.Key = "dup-id-in-batch:" + shape
	res.Failure = fmt.Sprintf("batch naming id a twice, %s with %s (config %s, history %s): applying the operations in order is violated: %s; %s", shape, dupContexts[ctx], cfg, histString(specs), seq.failure, follows)
	return res
}

// ---------------------------------------------------------------- main

func main() {
	log.SetOutput(io.Discard)
	explore.RegisterEnum("c01-default", defTotal, defEval)
	explore.RegisterEnum("c01-grid", gridTotal, gridEval)
	explore.RegisterEnum("c01-lockstep", lockTotal, lockEval)
	explore.RegisterEnum("c01-single-ops", singleTotal, singleEval)
	explore.RegisterEnum("c01-dup-id-probe", dupTotal, dupEval)
	explore.WorkerMain()
	c := checkmain.New("C01")
	if v := c.IsReplay(); v != nil {
		c.RunReplay(v)
	}
	dd, dg := depth(c.Tier, true), depth(c.Tier, false)
	c.Rule = fmt.Sprintf("every history of 0..%d batches (default configuration crashfs/v1/safe/no-merge) and 0..%d batches (each of the 23 other configurations of {crashfs device, real FileSystemDirectory on /dev/shm, the directory of bluge.InMemoryOnlyConfig} x {ice v1, v2} x {safe, unsafe} x {merging off = no in-memory merge and a merge plan whose budget is never exceeded, eager merge options}) over the 16 batch shapes on ids {a,b} (per id: untouched/insert/update/delete; fresh version per written document); plus every history of 0..%d single-operation calls through Writer.Insert/Update/Delete and through a fresh batch per call; plus the 9 ordered pairs of operations on one id inside one batch (known-finding probe). A history is non-trivial when some batch updates or deletes an id that is live at that moment; distinct outcomes = distinct (configuration, sequence of observed contents, reopened content)", dd, dg, dd)
	c.Explanation = "bounded-exhaustive enumeration on the real writer under the controlled scheduler's default schedule; one index.Batch object is reused with Reset() across a history; oracle = reference multiset index (harness.Model: remove every live document whose id the batch updates/deletes, then add) compared after EVERY batch through a fresh Reader (Count, match-all enumeration, stored fields of every hit, term lookup on _id per id) and after Close + bluge.OpenReader (safe: final content; unsafe: content after some prefix). In the unsafe configurations the client yields once, in the eager-merge configurations twice, to the writer's background threads after each batch (otherwise the default schedule, which prefers the client thread, never lets the persister/merger work and no merged or lazily persisted segment would ever be observed); counts histories_with_merge_introduction / histories_with_in_memory_merge / unsafe_reopen_* / observations_with_N_segments show the layouts reached"
	c.Assumptions = []string{
		"schedules other than the default one (and, for the eager-merge configurations on the crashfs device, the round-robin lockstep schedule of c01-lockstep) are C05/C06's subject",
		"the alphabet has two ids; a third id would only add batches that are independent of the first two",
		"the in-memory directory keeps no snapshot, so Close + reopen is judged for the two persistent directory kinds only",
		"a batch naming one id twice is excluded from the main enumerations and probed separately (designated known finding)",
	}
	// the known-finding probe (108 small cases) runs first with an allowance of its
	// own, so that the set of reported known-finding keys does not depend on the
	// load of the machine; it is reported last, so that it never hides another violation
	probe := explore.Enumerate(explore.EnumConfig{Name: "c01-dup-id-probe", Param: c.Tier, Budget: 90 * time.Second, MaxViol: 1000, Chunk: 7})
	if probe.Cases == probe.Total && len(probe.Errors) == 0 {
		probe.Exhaustive = true // every case was evaluated; the violations are the per-shape known finding
	}
	// one wall-clock allowance for the rest, shared out over the enumerations
	deadline := time.Now().Add(c.PickD(60*time.Second, 9*time.Minute))
	share := func(f float64) time.Duration {
		d := time.Duration(float64(time.Until(deadline)) * f)
		if d < 2*time.Second {
			d = 2 * time.Second
		}
		return d
	}
	st := explore.Enumerate(explore.EnumConfig{Name: "c01-single-ops", Param: c.Tier, Budget: share(0.2), CrashIsViolation: true})
	c.AddEnum(st)
	st = explore.Enumerate(explore.EnumConfig{Name: "c01-default", Param: c.Tier, Budget: share(0.45), CrashIsViolation: true})
	c.AddEnum(st)
	st = explore.Enumerate(explore.EnumConfig{Name: "c01-lockstep", Param: c.Tier, Budget: share(0.35), CrashIsViolation: true})
	c.AddEnum(st)
	st = explore.Enumerate(explore.EnumConfig{Name: "c01-grid", Param: c.Tier, Budget: share(1), CrashIsViolation: true})
	c.AddEnum(st)
	c.AddEnum(probe)
	_ = os.RemoveAll(scratchRoot())
	c.Finish()
}

// Package checkmain is the common frame of every check binary: argument
// handling (tier / replay), aggregation of explorations and enumerations into
// the evidence file, known-finding matching, VIOLATION / KNOWN-FINDING lines
// and the exit status.
package checkmain

import (
	"encoding/json"
	"fmt"
	"os"
	"path/filepath"
	"runtime/pprof"
	"sort"
	"strconv"
	"strings"
	"time"

	"verif/explore"
)

// Root is the /verif directory (overridable for tests).
func Root() string {
	if r := os.Getenv("VERIF_ROOT"); r != "" {
		return r
	}
	return "/verif"
}

// Out is where evidence and replays are written: /verif, or a scratch
// directory when a mutated tree is being checked (VERIF_OUT).
func Out() string {
	if r := os.Getenv("VERIF_OUT"); r != "" {
		return r
	}
	return Root()
}

type finding struct {
	Property string `json:"property"`
	Key      string `json:"key"`
	Status   string `json:"status"` // "known" | "fixed"
	Commit   string `json:"commit,omitempty"`
	What     string `json:"what"`
}

// Check accumulates what one run of one property's check covered.
type Check struct {
	ID          string
	Tier        string
	Seed        int
	start       time.Time
	sections    []interface{}
	states      int64
	transitions int64
	validated   int64
	evals       int64
	nontrivial  int64
	samples     []interface{}
	violations  []explore.Violation
	errors      []string
	exhaustive  bool
	Assumptions []string
	Rule        string
	Explanation string
	Extra       map[string]interface{}
	findings    []finding
	deadline    time.Time
}

// New parses the command line: `<bin> quick|thorough` or `<bin> replay <file>`.
// replay mode is handled by the caller through IsReplay/ReplayFile.
func New(id string) *Check {
	c := &Check{ID: id, Tier: "quick", start: time.Now(), exhaustive: true, Extra: map[string]interface{}{}}
	if len(os.Args) > 1 {
		c.Tier = os.Args[1]
	}
	if t := os.Getenv("VERIF_TIER"); t != "" && c.Tier != "replay" && len(os.Args) <= 1 {
		c.Tier = t
	}
	if s := os.Getenv("VERIF_SEED"); s != "" {
		c.Seed, _ = strconv.Atoi(s)
	}
	if pf := os.Getenv("VERIF_CPUPROFILE"); pf != "" {
		f, _ := os.Create(pf)
		_ = pprof.StartCPUProfile(f)
		stopProfile = func() { pprof.StopCPUProfile(); f.Close() }
	}
	b, err := os.ReadFile(filepath.Join(Root(), "known_findings.json"))
	if err == nil {
		var f struct {
			Findings []finding `json:"findings"`
		}
		if json.Unmarshal(b, &f) == nil {
			c.findings = f.Findings
			for _, kf := range f.Findings {
				if kf.Property == c.ID && kf.Status == "known" && kf.Key != "" {
					explore.KnownKeys[kf.Key] = true
				}
			}
		}
	}
	return c
}

var stopProfile = func() {}

// Thorough reports whether the thorough tier was requested.
func (c *Check) Thorough() bool { return c.Tier == "thorough" }

// Pick returns q in the quick tier and t in the thorough tier.
func (c *Check) Pick(q, t int) int {
	if c.Thorough() {
		return t
	}
	return q
}

// PickD is Pick for durations.
func (c *Check) PickD(q, t time.Duration) time.Duration {
	if c.Thorough() {
		return t
	}
	return q
}

// IsReplay handles `replay <file>`: it loads the violation, and returns it.
func (c *Check) IsReplay() *explore.Violation {
	if c.Tier != "replay" {
		return nil
	}
	if len(os.Args) < 3 {
		fmt.Println("usage: replay <file>")
		os.Exit(2)
	}
	b, err := os.ReadFile(os.Args[2])
	if err != nil {
		fmt.Println(err)
		os.Exit(2)
	}
	var v explore.Violation
	if err := json.Unmarshal(b, &v); err != nil {
		fmt.Println(err)
		os.Exit(2)
	}
	return &v
}

// RunReplay re-executes a recorded violation and exits 1 if it still fails.
func (c *Check) RunReplay(v *explore.Violation) {
	var f string
	var steps []string
	var stack string
	if len(v.Steps) == 0 && len(v.Choices) == 1 && explore.IsEnum(v.Scenario) {
		f = explore.ReplayEnum(v)
	} else {
		f, steps, stack = explore.Replay(v)
	}
	if f == "" {
		fmt.Printf("replay of %s: no failure (recorded: %s)\n", v.Scenario, firstLine(v.Failure))
		os.Exit(0)
	}
	fmt.Printf("replay of %s fails: %s\n", v.Scenario, f)
	if stack != "" {
		fmt.Println(stack)
	}
	if n := len(steps); n > 0 {
		lo := 0
		if n > 60 {
			lo = n - 60
		}
		fmt.Printf("last %d of %d steps:\n", n-lo, n)
		for _, s := range steps[lo:] {
			fmt.Println("  ", s)
		}
	}
	os.Exit(1)
}

// AddExplore records the statistics of one exploration.
func (c *Check) AddExplore(st *explore.Stats) {
	c.sections = append(c.sections, map[string]interface{}{"explore": st})
	c.states += st.Nodes
	c.transitions += st.Steps
	c.validated += st.Executions
	c.evals += st.Executions
	c.nontrivial += int64(len(st.Outcomes))
	c.violations = append(c.violations, st.Violations...)
	c.errors = append(c.errors, st.Errors...)
	if !st.Exhaustive {
		c.exhaustive = false
	}
	for _, s := range st.Samples {
		if len(c.samples) < 6 {
			c.samples = append(c.samples, s)
		}
	}
	fmt.Printf("[%s] explore %-28s %s bound=%d execs=%d nodes=%d steps=%d outcomes=%d horizon=%d exhaustive=%v %.1fs\n",
		c.ID, st.Scenario, st.Param, st.Bound, st.Executions, st.Nodes, st.Steps, len(st.Outcomes), st.HorizonHits, st.Exhaustive, st.WallS)
	if len(st.Counts) > 0 {
		var parts []string
		for _, k := range explore.SortedKeys(st.Counts) {
			parts = append(parts, fmt.Sprintf("%s=%d", k, st.Counts[k]))
		}
		fmt.Printf("[%s]   counts: %s\n", c.ID, strings.Join(parts, " "))
	}
}

// AddEnum records the statistics of one enumeration.
func (c *Check) AddEnum(st *explore.EnumStats) {
	c.sections = append(c.sections, map[string]interface{}{"enumerate": st})
	c.states += st.Cases
	c.transitions += st.Evals
	c.validated += st.Evals
	c.evals += st.Evals
	c.nontrivial += st.Nontrivial
	c.violations = append(c.violations, st.Violations...)
	c.errors = append(c.errors, st.Errors...)
	if !st.Exhaustive {
		c.exhaustive = false
	}
	for _, s := range st.Samples {
		if len(c.samples) < 6 {
			c.samples = append(c.samples, s)
		}
	}
	fmt.Printf("[%s] enum    %-28s %s cases=%d/%d evals=%d nontrivial=%d outcomes=%d exhaustive=%v %.1fs\n",
		c.ID, st.Name, st.Param, st.Cases, st.Total, st.Evals, st.Nontrivial, st.NOutcomes, st.Exhaustive, st.WallS)
	if len(st.Counts) > 0 {
		var parts []string
		for _, k := range explore.SortedKeys(st.Counts) {
			parts = append(parts, fmt.Sprintf("%s=%d", k, st.Counts[k]))
		}
		fmt.Printf("[%s]   counts: %s\n", c.ID, strings.Join(parts, " "))
	}
}

// AddSample adds a written-out case to the evidence.
func (c *Check) AddSample(s interface{}) {
	if len(c.samples) < 12 {
		c.samples = append(c.samples, s)
	}
}

// AddViolation records a violation found outside the engines.
func (c *Check) AddViolation(v explore.Violation) { c.violations = append(c.violations, v) }

// AddError records a harness error (exit 2).
func (c *Check) AddError(e string) { c.errors = append(c.errors, e) }

// AddCounts lets a check account work done outside the engines.
func (c *Check) AddCounts(states, transitions, validated, evals, nontrivial int64) {
	c.states += states
	c.transitions += transitions
	c.validated += validated
	c.evals += evals
	c.nontrivial += nontrivial
}

// NotExhaustive marks the run as cut.
func (c *Check) NotExhaustive() { c.exhaustive = false }

// Failed reports whether something went wrong so far.
// Failed reports whether something other than a listed known finding was seen so
// far (checks use it to stop early; a known finding must not end a check).
func (c *Check) Failed() bool {
	if len(c.errors) > 0 {
		return true
	}
	for _, v := range c.violations {
		if v.Key == "" || !explore.KnownKeys[v.Key] {
			return true
		}
	}
	return false
}

func firstLine(s string) string {
	if i := strings.IndexByte(s, '\n'); i >= 0 {
		return s[:i]
	}
	return s
}

// Finish writes the evidence file, prints the verdict lines and exits.
func (c *Check) Finish() {
	stopProfile()
	explore.CleanupRaceLogs()
	wall := time.Since(c.start).Seconds()
	// classify violations against the known-findings file
	var fresh []explore.Violation
	known := map[string]finding{}
	for _, v := range c.violations {
		matched := false
		for _, f := range c.findings {
			if f.Property == c.ID && f.Status == "known" && f.Key != "" && f.Key == v.Key {
				known[f.Key] = f
				matched = true
				break
			}
		}
		if !matched {
			fresh = append(fresh, v)
		}
	}
	keys := make([]string, 0, len(known))
	for k := range known {
		keys = append(keys, k)
	}
	sort.Strings(keys)
	for _, k := range keys {
		fmt.Printf("KNOWN-FINDING: property=%s %s [%s]\n", c.ID, known[k].What, k)
	}
	if len(fresh) > 0 {
		seenK := map[string]bool{}
		for _, v := range fresh {
			if !seenK[v.Key] && len(seenK) < 300 {
				seenK[v.Key] = true
				fmt.Printf("[%s] unlisted violation key: %q\n", c.ID, v.Key)
			}
		}
	}
	if len(fresh) > 5 {
		fmt.Printf("[%s] %d violations found, reporting the first 5\n", c.ID, len(fresh))
		fresh = fresh[:5]
	}
	var replayPaths []string
	for i := range fresh {
		p := explore.WriteReplay(Out(), c.ID, &fresh[i])
		replayPaths = append(replayPaths, p)
	}
	if len(c.samples) == 0 {
		c.samples = append(c.samples, "no sample recorded")
	}
	cov := map[string]interface{}{
		"states":                        max64(c.states, 0),
		"transitions":                   max64(c.transitions, 0),
		"traces_validated_against_impl": c.validated,
		"evaluations":                   c.evals,
		"distinct_nontrivial":           c.nontrivial,
		"rule":                          c.Rule,
		"samples":                       c.samples,
		"exhaustive":                    c.exhaustive && len(fresh) == 0 && len(c.errors) == 0, // known findings do not cut anything
		"explanation":                   c.Explanation,
		"sections":                      c.sections,
		"known_findings_reported":       keys,
	}
	for k, v := range c.Extra {
		cov[k] = v
	}
	ev := map[string]interface{}{
		"property_id": c.ID,
		"tier":        tierName(c.Tier),
		"seed":        c.Seed,
		"level":       "model_checking",
		"coverage":    cov,
		"assumptions": c.Assumptions,
		"wall_s":      wall,
		"violations":  len(fresh),
	}
	_ = os.MkdirAll(filepath.Join(Out(), "evidence"), 0o755)
	b, _ := json.MarshalIndent(ev, "", " ")
	if err := os.WriteFile(filepath.Join(Out(), "evidence", c.ID+".json"), b, 0o644); err != nil {
		fmt.Println("cannot write evidence:", err)
		os.Exit(2)
	}
	for _, e := range c.errors {
		fmt.Printf("HARNESS-ERROR property=%s %s\n", c.ID, e)
	}
	for i, v := range fresh {
		fmt.Printf("violation: %s: %s\n", v.Scenario, firstLine(v.Failure))
		fmt.Printf("VIOLATION property=%s replay=%s\n", c.ID, replayPaths[i])
	}
	fmt.Printf("[%s] tier=%s states=%d transitions=%d executions=%d exhaustive=%v violations=%d known=%d errors=%d wall=%.1fs\n",
		c.ID, c.Tier, c.states, c.transitions, c.validated, cov["exhaustive"], len(fresh), len(keys), len(c.errors), wall)
	switch {
	case len(fresh) > 0:
		os.Exit(1)
	case len(c.errors) > 0:
		os.Exit(2)
	}
	os.Exit(0)
}

func tierName(t string) string {
	if t == "thorough" {
		return "thorough"
	}
	return "quick"
}

func max64(a, b int64) int64 {
	if a > b {
		return a
	}
	return b
}

package harness

import (
	"context"
	"fmt"
	"sort"
	"strings"

	"github.com/blugelabs/bluge"
	"github.com/blugelabs/bluge/index"
	"github.com/blugelabs/bluge/index/mergeplan"
	"github.com/blugelabs/bluge/verifmc"
)

// Doc builds the document for (id, ver): stored version, a text field whose
// terms depend on the version, a numeric field.
func Doc(id, ver string) *bluge.Document {
	d := bluge.NewDocument(id)
	d.AddField(bluge.NewKeywordField("v", ver).StoreValue().Sortable())
	d.AddField(bluge.NewTextField("t", "common "+id+" "+ver).StoreValue())
	d.AddField(bluge.NewNumericField("n", float64(len(ver))).StoreValue().Sortable())
	return d
}

// MakeBatch turns a spec into an index batch.
func MakeBatch(spec BatchSpec) *index.Batch {
	b := bluge.NewBatch()
	for _, o := range spec {
		switch o.Kind {
		case 'I':
			b.Insert(Doc(o.ID, o.Ver))
		case 'U':
			b.Update(bluge.Identifier(o.ID), Doc(o.ID, o.Ver))
		case 'D':
			b.Delete(bluge.Identifier(o.ID))
		}
	}
	return b
}

// Opts configure a writer for the controlled checks.
type Opts struct {
	Unsafe        bool
	EagerMerge    bool // merge plan scaled down so that 2-3 one-document segments merge
	MergeFloor1   bool // with EagerMerge: floor segment size 1, so that of three one-document segments two are merged and one stays
	NoFileMerge   bool // the merge planner never finds work (unbounded budget)
	NoMemMerge    bool // never merge in memory
	Retain        int  // snapshots kept by the deletion policy (default 1)
	NapMS         int
	NapUnderFiles int // PersisterNapUnderNumFiles (0: keep the default of 1000)
	SegVersion    int // 0/1: ice v1, 2: ice v2
	AsyncError    func(error)
	EventCallback func(index.Event)
	Workers       int
}

// Config builds a bluge.Config over the given directory.
func Config(dir index.Directory, o Opts) bluge.Config {
	cfg := bluge.DefaultConfigWithDirectory(func() index.Directory { return dir })
	ic := cfg.VerifIndexConfig()
	ic.NumAnalysisWorkers = 1
	if o.Workers > 0 {
		ic.NumAnalysisWorkers = o.Workers
	}
	ic.UnsafeBatch = o.Unsafe
	ic.PersisterNapTimeMSec = o.NapMS
	if o.NapUnderFiles > 0 {
		ic.PersisterNapUnderNumFiles = o.NapUnderFiles
	}
	if o.Retain > 0 {
		n := o.Retain
		ic.DeletionPolicyFunc = func() index.DeletionPolicy { return index.NewKeepNLatestDeletionPolicy(n) }
	}
	if o.EagerMerge {
		ic.MergePlanOptions = mergeplan.Options{
			MaxSegmentsPerTier:   1,
			MaxSegmentSize:       1000,
			TierGrowth:           2.0,
			SegmentsPerMergeTask: 2,
			FloorSegmentSize:     10, // any two small file segments exceed the budget of 1 and are merged
			ReclaimDeletesWeight: 2.0,
		}
	}
	if o.EagerMerge && o.MergeFloor1 {
		ic.MergePlanOptions.FloorSegmentSize = 1
	}
	if o.NoFileMerge {
		ic.MergePlanOptions.CalcBudget = func(int64, int64, *mergeplan.Options) int { return 1 << 30 }
	}
	if o.NoMemMerge {
		ic.MinSegmentsForInMemoryMerge = 1 << 30
	}
	if o.SegVersion == 2 {
		ic = ic.WithSegmentVersion(2)
	}
	ic.AsyncError = o.AsyncError
	if ic.AsyncError == nil {
		ic.AsyncError = func(error) {}
	}
	ic.EventCallback = o.EventCallback
	return cfg.WithVerifIndexConfig(ic)
}

// Observe reads the complete content of a reader: every live document as
// "id=ver" (from stored fields), canonically sorted.  It also cross-checks
// Count against the number of hits.
func Observe(r *bluge.Reader) (string, error) {
	var pairs []string
	var err error
	verifmc.Quiet(func() {
		pairs, err = observe(r)
	})
	if err != nil {
		return "", err
	}
	return ContentOf(pairs), nil
}

func observe(r *bluge.Reader) ([]string, error) {
	cnt, err := r.Count()
	if err != nil {
		return nil, fmt.Errorf("count: %v", err)
	}
	it, err := r.Search(context.Background(), bluge.NewAllMatches(bluge.NewMatchAllQuery()))
	if err != nil {
		return nil, fmt.Errorf("search: %v", err)
	}
	var pairs []string
	seen := map[uint64]bool{}
	for {
		m, err := it.Next()
		if err != nil {
			return nil, fmt.Errorf("next: %v", err)
		}
		if m == nil {
			break
		}
		if seen[m.Number] {
			return nil, fmt.Errorf("document number %d returned twice", m.Number)
		}
		seen[m.Number] = true
		var id, ver, txt string
		err = m.VisitStoredFields(func(field string, value []byte) bool {
			switch field {
			case "_id":
				id = string(value)
			case "v":
				ver = string(value)
			case "t":
				txt = string(value)
			}
			return true
		})
		if err != nil {
			return nil, fmt.Errorf("stored fields: %v", err)
		}
		if txt != "common "+id+" "+ver {
			return nil, fmt.Errorf("stored fields of %s=%s are inconsistent: t=%q", id, ver, txt)
		}
		pairs = append(pairs, id+"="+ver)
	}
	if uint64(len(pairs)) != cnt {
		return nil, fmt.Errorf("Count()=%d but match-all returned %d documents (%s)", cnt, len(pairs), strings.Join(pairs, ","))
	}
	sort.Strings(pairs)
	return pairs, nil
}

// ObserveByID looks every id up through a term query on _id and through a
// term query on the version-specific text term; returns "id=ver" pairs.
func ObserveByID(r *bluge.Reader, ids []string) (string, error) {
	var pairs []string
	var rerr error
	verifmc.Quiet(func() {
		for _, id := range ids {
			q := bluge.NewTermQuery(id).SetField("_id")
			it, err := r.Search(context.Background(), bluge.NewTopNSearch(10, q))
			if err != nil {
				rerr = err
				return
			}
			for {
				m, err := it.Next()
				if err != nil {
					rerr = err
					return
				}
				if m == nil {
					break
				}
				var gotID, ver string
				_ = m.VisitStoredFields(func(field string, value []byte) bool {
					if field == "_id" {
						gotID = string(value)
					}
					if field == "v" {
						ver = string(value)
					}
					return true
				})
				if gotID != id {
					rerr = fmt.Errorf("term query _id:%s returned document %s", id, gotID)
					return
				}
				pairs = append(pairs, id+"="+ver)
			}
		}
	})
	if rerr != nil {
		return "", rerr
	}
	return ContentOf(pairs), nil
}

//go:build go1.21

package index

// Read-only accessors used by the verification harness (overlay only; this
// file is never part of the repository).

// VerifEpoch returns the epoch of a snapshot.
func (i *Snapshot) VerifEpoch() uint64 { return i.epoch }

// VerifSegmentIDs returns the ids of the snapshot's segments, in order.
func (i *Snapshot) VerifSegmentIDs() []uint64 {
	rv := make([]uint64, len(i.segment))
	for j, s := range i.segment {
		rv[j] = s.id
	}
	return rv
}

// VerifSegmentPersisted reports, per segment, whether it is file backed.
func (i *Snapshot) VerifSegmentPersisted() []bool {
	rv := make([]bool, len(i.segment))
	for j, s := range i.segment {
		rv[j] = s.segment != nil && s.segment.Persisted()
	}
	return rv
}

// VerifRefs returns the reference count of the snapshot.
func (i *Snapshot) VerifRefs() int64 {
	i.m.Lock()
	defer i.m.Unlock()
	return i.refs
}

// VerifRootSegmentIDs returns the segment ids of the writer's current root.
func (s *Writer) VerifRootSegmentIDs() (epoch uint64, ids []uint64) {
	s.rootLock.RLock()
	defer s.rootLock.RUnlock()
	if s.root == nil {
		return 0, nil
	}
	return s.root.epoch, s.root.VerifSegmentIDs()
}

// VerifDirectory returns the directory the writer operates on.
func (s *Writer) VerifDirectory() Directory { return s.directory }

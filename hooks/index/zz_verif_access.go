//go:build go1.21

package index

import (
	"bytes"

	"github.com/RoaringBitmap/roaring"
	segment "github.com/blugelabs/bluge_segment_api"
)

// Read-only accessors used by the verification harness (overlay only; this
// file is never part of the repository).

// VerifEpoch returns the epoch of a snapshot.
func (i *Snapshot) VerifEpoch() uint64 { return i.epoch }

// VerifSegmentIDs returns the ids of the snapshot's segments, in order.
func (i *Snapshot) VerifSegmentIDs() []uint64 {
	rv := make([]uint64, len(i.segment))
	for j, s := range i.segment {
		rv[j] = s.id
	}
	return rv
}

// VerifSegmentPersisted reports, per segment, whether it is file backed.
func (i *Snapshot) VerifSegmentPersisted() []bool {
	rv := make([]bool, len(i.segment))
	for j, s := range i.segment {
		rv[j] = s.segment != nil && s.segment.Persisted()
	}
	return rv
}

// VerifRefs returns the reference count of the snapshot.
func (i *Snapshot) VerifRefs() int64 {
	i.m.Lock()
	defer i.m.Unlock()
	return i.refs
}

// VerifRootSegmentIDs returns the segment ids of the writer's current root.
func (s *Writer) VerifRootSegmentIDs() (epoch uint64, ids []uint64) {
	s.rootLock.RLock()
	defer s.rootLock.RUnlock()
	if s.root == nil {
		return 0, nil
	}
	return s.root.epoch, s.root.VerifSegmentIDs()
}

// VerifDirectory returns the directory the writer operates on.
func (s *Writer) VerifDirectory() Directory { return s.directory }

// ---- snapshot encoding access (C12)

// VerifSegInfo describes one segment entry of a snapshot file.
type VerifSegInfo struct {
	ID         uint64
	Type       string
	Version    uint32
	Deleted    []uint32 // sorted doc numbers; nil = no deleted set recorded
	HasDeleted bool
}

type verifStubSegment struct {
	segment.Segment // nil: only Type and Version are ever called by WriteTo
	typ             string
	ver             uint32
}

func (s *verifStubSegment) Type() string    { return s.typ }
func (s *verifStubSegment) Version() uint32 { return s.ver }

// VerifEncodeSnapshot produces the file encoding of a snapshot with the given
// segment entries, through Snapshot.WriteTo.
func VerifEncodeSnapshot(epoch uint64, segs []VerifSegInfo) ([]byte, error) {
	snap := &Snapshot{epoch: epoch}
	for _, si := range segs {
		ss := &segmentSnapshot{
			id:      si.ID,
			segment: &segmentWrapper{Segment: &verifStubSegment{typ: si.Type, ver: si.Version}, refCounter: noOpRefCounter{}},
		}
		if si.HasDeleted {
			ss.deleted = roaring.BitmapOf(si.Deleted...)
		}
		snap.segment = append(snap.segment, ss)
	}
	var buf bytes.Buffer
	_, err := snap.WriteTo(&buf, nil)
	return buf.Bytes(), err
}

// VerifSegInfos returns the segment entries of a (loaded) snapshot.
func (i *Snapshot) VerifSegInfos() []VerifSegInfo {
	var rv []VerifSegInfo
	for _, s := range i.segment {
		si := VerifSegInfo{ID: s.id, Type: s.segmentType, Version: s.segmentVersion}
		if s.segmentType == "" && s.segment != nil {
			si.Type, si.Version = s.segment.Type(), s.segment.Version()
		}
		if s.deleted != nil {
			si.HasDeleted = true
			si.Deleted = s.deleted.ToArray()
		}
		rv = append(rv, si)
	}
	return rv
}

// VerifDecodeSnapshot runs Snapshot.ReadFrom over raw bytes (no CRC handling).
func VerifDecodeSnapshot(b []byte) ([]VerifSegInfo, int64, error) {
	snap := &Snapshot{}
	n, err := snap.ReadFrom(bytes.NewReader(b))
	if err != nil {
		return nil, n, err
	}
	return snap.VerifSegInfos(), n, nil
}

// VerifRootNoLock returns epoch and file-backed segment ids of the current
// root without taking rootLock (only for use under the cooperative scheduler,
// where exactly one thread runs at a time).
func (s *Writer) VerifRootNoLock() (epoch uint64, fileSegs []uint64) {
	if s.root == nil {
		return 0, nil
	}
	for _, seg := range s.root.segment {
		if seg.segment != nil && seg.segment.Persisted() {
			fileSegs = append(fileSegs, seg.id)
		}
	}
	return s.root.epoch, fileSegs
}

// VerifFileSegmentIDs returns the ids of the file-backed segments of a snapshot.
func (i *Snapshot) VerifFileSegmentIDs() []uint64 {
	var rv []uint64
	for _, s := range i.segment {
		if s.segment != nil && s.segment.Persisted() {
			rv = append(rv, s.id)
		}
	}
	return rv
}

// VerifSnapshotItem returns the item writer (a *Snapshot) for the given
// segment entries, as the persister would hand it to Directory.Persist.
func VerifSnapshotItem(epoch uint64, segs []VerifSegInfo) WriterTo {
	snap := &Snapshot{epoch: epoch}
	for _, si := range segs {
		ss := &segmentSnapshot{
			id:      si.ID,
			segment: &segmentWrapper{Segment: &verifStubSegment{typ: si.Type, ver: si.Version}, refCounter: noOpRefCounter{}},
		}
		if si.HasDeleted {
			ss.deleted = roaring.BitmapOf(si.Deleted...)
		}
		snap.segment = append(snap.segment, ss)
	}
	return snap
}

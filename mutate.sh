#!/bin/bash
# mutate.sh <patch.diff> <ID> [tier]: apply a deliberate property-breaking change to /repo,
# run the check, always revert.  Prints DETECTED / MISSED.
set -u
cd "$(dirname "$0")"
P=$(realpath "$1"); ID=$2; TIER=${3:-quick}
if ! git -C /repo diff --quiet; then echo "repo dirty, refusing"; exit 2; fi
git -C /repo apply "$P" || { echo "patch does not apply"; exit 2; }
./run.sh "$ID" "$TIER" > build/mutate.$$.log 2>&1
rc=$?
git -C /repo checkout -- . 
tail -4 build/mutate.$$.log | sed 's/^/    /'
if [ $rc -eq 1 ] && grep -q "^VIOLATION property=$ID" build/mutate.$$.log; then echo "DETECTED $(basename $P) by $ID ($TIER)"; else echo "MISSED $(basename $P) by $ID ($TIER) rc=$rc"; fi
rm -f build/mutate.$$.log

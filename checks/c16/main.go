// C16: aggregations are exact over the whole match set.
//
// Every multiset of at most 3 (thorough 4) documents from an 8-document
// alphabet (single-valued, multi-valued and missing numeric / date / keyword
// fields) is indexed; 4 queries x 39 aggregation trees x every search setting
// (n, from in {0,1,2,5}, 3 sort orders, After / Before keys) are run through
// Reader.Search and every aggregation result is compared with a direct
// computation over the documents the query selects.
//
// Most trees reference every field once (one aggregation per field, sorting by
// a field no aggregation reads); a few trees deliberately reference a field
// several times (several metrics of one field, sorting by an aggregated field).
// Fourteen trees use the filtered sources of search/aggregations/filter.go
// (FilterText / FilterNumeric / FilterDate) with predicates that reject a value
// sorting before an accepted value of the same document, with aggregations over
// the UNFILTERED same field nested inside or next to the filtered one.
//
// A second enumeration runs searches while one segment's file is unreadable:
// a search may fail, but if it returns normally it has to be exact.
package main

import (
	"fmt"
	"hash/fnv"
	"io"
	"log"
	"math"
	"os"
	"path/filepath"
	"runtime/debug"
	"sort"
	"strconv"
	"strings"
	"time"

	"context"

	"github.com/axiomhq/hyperloglog"
	"github.com/blugelabs/bluge"
	"github.com/blugelabs/bluge/index"
	"github.com/blugelabs/bluge/index/lock"
	"github.com/blugelabs/bluge/search"
	"github.com/blugelabs/bluge/search/aggregations"
	"github.com/blugelabs/bluge/verifmc"
	segment "github.com/blugelabs/bluge_segment_api"

	"verif/checkmain"
	"verif/crashfs"
	"verif/explore"
	"verif/harness"
)

// ---------------------------------------------------------------- documents

type adoc struct {
	name string
	n    []float64   // numeric field "n"
	d    []time.Time // date field "d"
	k    []string    // keyword field "k"
	m    float64     // numeric field "m", always present, single-valued (weights, "another field")
	body string      // text field queried by the term query
}

func day(y int) time.Time { return time.Date(y, 3, 4, 5, 6, 7, 0, time.UTC) }

var (
	d0 = day(1960)
	d1 = day(2001)
	d2 = day(2002)
	d3 = day(2003)
	d4 = day(2030)
)

// simplest first
var alphabet = []adoc{
	{name: "A0", n: []float64{1}, d: []time.Time{d1}, k: []string{"a"}, m: 1, body: "x"},
	{name: "A1", n: []float64{2}, d: []time.Time{d2}, k: []string{"b"}, m: 2, body: "y"},
	{name: "A2", n: nil, d: nil, k: nil, m: 1, body: "y"},                                            // everything missing
	{name: "A3", n: []float64{1, 5}, d: []time.Time{d1, d3}, k: []string{"a", "b"}, m: 3, body: "x"}, // multi-valued, values in different narrow ranges
	{name: "A4", n: []float64{5}, d: []time.Time{d3}, k: []string{"c"}, m: 5, body: "x"},             //
	{name: "A5", n: []float64{2, 3}, d: []time.Time{d1, d2}, k: []string{"b", "c"}, m: 2, body: "y"}, // multi-valued
	{name: "A6", n: []float64{-3}, d: []time.Time{d0}, k: []string{"a"}, m: 4, body: "x x"},          // negative number, pre-1970 date
	{name: "A7", n: []float64{7}, d: []time.Time{d4}, k: []string{"d"}, m: 0, body: "x y"},           // outside every range, zero weight, fourth term
}

var idByPos = []string{"d", "a", "f", "b", "e", "c"}

// pos: position in the corpus; the numeric field "s" (read by no aggregation)
// orders the documents against the index order
func makeDoc(id string, a *adoc, pos int) *bluge.Document {
	d := bluge.NewDocument(id)
	d.AddField(bluge.NewNumericField("s", float64(10-pos)))
	for _, v := range a.n {
		d.AddField(bluge.NewNumericField("n", v))
	}
	for _, v := range a.d {
		d.AddField(bluge.NewDateTimeField("d", v))
	}
	for _, v := range a.k {
		d.AddField(bluge.NewKeywordField("k", v).Aggregatable())
	}
	d.AddField(bluge.NewNumericField("m", a.m))
	d.AddField(bluge.NewTextField("body", a.body))
	return d
}

// multisets of size <= maxSize over the alphabet, as non-decreasing index lists, smaller first
func multisets(maxSize int) [][]int {
	var out [][]int
	var rec func(size, from int, cur []int)
	rec = func(size, from int, cur []int) {
		if len(cur) == size {
			out = append(out, append([]int(nil), cur...))
			return
		}
		for i := from; i < len(alphabet); i++ {
			rec(size, i, append(cur, i))
		}
	}
	for s := 0; s <= maxSize; s++ {
		rec(s, 0, nil)
	}
	return out
}

var msCache = map[int][][]int{}

func corpora(param string) [][]int {
	sz := 3
	if param == "thorough" {
		sz = 4
	}
	if c, ok := msCache[sz]; ok {
		return c
	}
	c := multisets(sz)
	msCache[sz] = c
	return c
}

func nLayouts(param string) int {
	if param == "thorough" {
		return 3
	}
	return 1
}

// layout 0: two segments split in the middle (one when fewer than 2 documents);
// layout 1: one segment; layout 2: every document in its own segment
func buildIndex(list []int, layout int) (*bluge.Reader, string) {
	dir, fail := buildDir(list, layout)
	if fail != "" {
		return nil, fail
	}
	r, err := bluge.OpenReader(harness.Config(dir, harness.Opts{}))
	if err != nil {
		return nil, "open reader: " + err.Error()
	}
	return r, ""
}

// buildFiles returns the files of the index
func buildFiles(list []int, layout int) (map[string][]byte, string) {
	dir, fail := buildDir(list, layout)
	if fail != "" {
		return nil, fail
	}
	return dir.Snapshot(), ""
}

func buildDir(list []int, layout int) (*crashfs.Dir, string) {
	dir := crashfs.New()
	dir.Points = false
	var fail string
	s := verifmc.Run(verifmc.Options{}, func() {
		w, err := bluge.OpenWriter(harness.Config(dir, harness.Opts{NoMemMerge: true}))
		if err != nil {
			fail = "open writer: " + err.Error()
			return
		}
		if len(list) == 0 {
			// a writer that never received a batch leaves nothing to open: the empty
			// corpus is an inserted and deleted document
			b := bluge.NewBatch()
			b.Insert(makeDoc("zz", &alphabet[0], 9))
			if err := w.Batch(b); err != nil {
				fail = err.Error()
				return
			}
			b = bluge.NewBatch()
			b.Delete(bluge.Identifier("zz"))
			if err := w.Batch(b); err != nil {
				fail = err.Error()
				return
			}
		}
		split := 0
		if layout == 0 && len(list) >= 2 {
			split = len(list) / 2
		}
		b := bluge.NewBatch()
		n := 0
		for i, a := range list {
			if (split > 0 && i == split) || (layout == 2 && i > 0) {
				if err := w.Batch(b); err != nil {
					fail = err.Error()
					return
				}
				b = bluge.NewBatch()
				n = 0
			}
			b.Insert(makeDoc(idByPos[i], &alphabet[a], i))
			n++
		}
		if n > 0 {
			if err := w.Batch(b); err != nil {
				fail = err.Error()
				return
			}
		}
		if err := w.Close(); err != nil {
			fail = "close: " + err.Error()
		}
	})
	if s.Failure != "" {
		return nil, "building the index failed: " + s.Failure
	}
	if fail != "" {
		return nil, "building the index failed: " + fail
	}
	return dir, ""
}

// ---------------------------------------------------------------- queries

var queryNames = []string{"match-all", "body:x", "all-but-first-document", "match-none"}

func queryOf(qi int, list []int) bluge.Query {
	switch qi {
	case 0:
		return bluge.NewMatchAllQuery()
	case 1:
		return bluge.NewTermQuery("x").SetField("body")
	case 2:
		return bluge.NewBooleanQuery().AddMust(bluge.NewMatchAllQuery()).AddMustNot(bluge.NewTermQuery(idByPos[0]).SetField("_id"))
	default:
		return bluge.NewMatchNoneQuery()
	}
}

// the documents the query selects, in index order
func selected(qi int, list []int) []*adoc {
	var out []*adoc
	for i, a := range list {
		d := &alphabet[a]
		switch qi {
		case 0:
			out = append(out, d)
		case 1:
			for _, w := range strings.Fields(d.body) {
				if w == "x" {
					out = append(out, d)
					break
				}
			}
		case 2:
			if i != 0 {
				out = append(out, d)
			}
		}
	}
	return out
}

// ---------------------------------------------------------------- metrics and their reference values

type metric struct {
	name string
	mk   func() search.Aggregation
	// ref returns the expected value over the documents in scope; defined=false
	// when the statement does not fix a value (no values in scope)
	ref func(docs []*adoc) (v float64, defined bool)
	// empty is what the calculator shows when it never saw a value
	empty float64
	kind  int // 0 plain metric, 1 cardinality, 2 quantiles, 3 a nested/sibling bucket aggregation
	field string
	scal  bool // the value scales with the number of times each value is seen
	// qvals: the values the quantile sketch is fed (kind 2; nil = every value of n)
	qvals func(docs []*adoc) []float64
	// buckets: kind 3, the expected bucket counts by direct counting (bucket name -> documents)
	buckets func(docs []*adoc) map[string]int
}

func nVals(docs []*adoc) []float64 {
	var v []float64
	for _, d := range docs {
		v = append(v, d.n...)
	}
	return v
}

func mVals(docs []*adoc) []float64 {
	var v []float64
	for _, d := range docs {
		v = append(v, d.m)
	}
	return v
}

func sumOf(v []float64) float64 {
	s := 0.0
	for _, x := range v {
		s += x
	}
	return s
}

func minOf(v []float64) float64 {
	m := math.Inf(1)
	for _, x := range v {
		if x < m {
			m = x
		}
	}
	return m
}

func maxOf(v []float64) float64 {
	m := math.Inf(-1)
	for _, x := range v {
		if x > m {
			m = x
		}
	}
	return m
}

func fieldMetrics(field string, vals func([]*adoc) []float64) []metric {
	src := func() search.FieldSource { return search.Field(field) }
	return []metric{
		{name: "sum_" + field, field: field, scal: true, mk: func() search.Aggregation { return aggregations.Sum(src()) },
			ref: func(d []*adoc) (float64, bool) { return sumOf(vals(d)), true }, empty: 0},
		{name: "min_" + field, field: field, mk: func() search.Aggregation { return aggregations.Min(src()) },
			ref: func(d []*adoc) (float64, bool) { v := vals(d); return minOf(v), len(v) > 0 }, empty: math.Inf(1)},
		{name: "max_" + field, field: field, mk: func() search.Aggregation { return aggregations.Max(src()) },
			ref: func(d []*adoc) (float64, bool) { v := vals(d); return maxOf(v), len(v) > 0 }, empty: math.Inf(-1)},
		{name: "avg_" + field, field: field, mk: func() search.Aggregation { return aggregations.Avg(src()) },
			ref: func(d []*adoc) (float64, bool) { v := vals(d); return sumOf(v) / float64(len(v)), len(v) > 0 }, empty: math.NaN()},
	}
}

var metricCount = metric{name: "cnt", mk: func() search.Aggregation { return aggregations.CountMatches() },
	ref: func(d []*adoc) (float64, bool) { return float64(len(d)), true }, empty: 0}

// weighted average of n with the document's m as the weight of each of its values
var metricWavg = metric{name: "wavg_n_by_m", field: "m", mk: func() search.Aggregation {
	return aggregations.WeightedAvg(search.Field("n"), search.Field("m"))
}, ref: func(docs []*adoc) (float64, bool) {
	var num, den float64
	cnt := 0
	for _, d := range docs {
		for _, v := range d.n {
			num += v * d.m
			den += d.m
			cnt++
		}
	}
	return num / den, cnt > 0 && den != 0
}, empty: math.NaN()}

func kTerms(docs []*adoc) [][]byte {
	var out [][]byte
	for _, d := range docs {
		ks := append([]string(nil), d.k...)
		sort.Strings(ks)
		for _, k := range ks {
			out = append(out, []byte(k))
		}
	}
	return out
}

var metricCard = metric{name: "card_k", field: "k", kind: 1, mk: func() search.Aggregation { return aggregations.Cardinality(search.Field("k")) },
	ref: func(docs []*adoc) (float64, bool) {
		sk := hyperloglog.New16()
		for _, t := range kTerms(docs) {
			sk.Insert(t)
		}
		return float64(sk.Estimate()), true
	}, empty: 0}

var metricQuant = metric{name: "quant_n", field: "n", kind: 2, mk: func() search.Aggregation { return aggregations.Quantiles(search.Field("n")) }}

var quantRanks = []float64{0, 0.1, 0.25, 0.5, 0.75, 0.9, 1}

var nMetrics = fieldMetrics("n", nVals)
var mMetrics = fieldMetrics("m", mVals)

func allMetrics() []metric {
	out := []metric{metricCount}
	out = append(out, nMetrics...)
	out = append(out, mMetrics...)
	out = append(out, metricWavg, metricCard, metricQuant)
	return out
}

// ---------------------------------------------------------------- filtered sources (search/aggregations/filter.go)

// Every predicate rejects, for some multi-valued document of the alphabet, a
// value that sorts BEFORE an accepted value of the same document (A3: k=[a,b],
// n=[1,5], d=[2001,2003]; A5: k=[b,c], n=[2,3], d=[2001,2002]), and its
// counterpart rejects the later one.
type kPred struct {
	name string
	ok   func(string) bool
}
type nPred struct {
	name string
	ok   func(float64) bool
}
type dPred struct {
	name string
	ok   func(time.Time) bool
}

var (
	kNotA = &kPred{"not-a", func(s string) bool { return s != "a" }}
	kNotB = &kPred{"not-b", func(s string) bool { return s != "b" }}
	nLow  = &nPred{"not-1-or-2", func(v float64) bool { return v != 1 && v != 2 }}
	nHigh = &nPred{"not-3-or-5", func(v float64) bool { return v != 3 && v != 5 }}
	dLow  = &dPred{"not-2001", func(t time.Time) bool { return t.Year() != 2001 }}
	dHigh = &dPred{"not-2002-or-2003", func(t time.Time) bool { return t.Year() != 2002 && t.Year() != 2003 }}
)

func kSource(p *kPred) search.TextValuesSource {
	if p == nil {
		return search.Field("k")
	}
	return aggregations.FilterText(search.Field("k"), func(b []byte) bool { return p.ok(string(b)) })
}

func nSource(p *nPred) search.NumericValuesSource {
	if p == nil {
		return search.Field("n")
	}
	return aggregations.FilterNumeric(search.Field("n"), p.ok)
}

func dSource(p *dPred) search.DateValuesSource {
	if p == nil {
		return search.Field("d")
	}
	return aggregations.FilterDate(search.Field("d"), p.ok)
}

func kOf(d *adoc, p *kPred) []string {
	if p == nil {
		return d.k
	}
	var out []string
	for _, v := range d.k {
		if p.ok(v) {
			out = append(out, v)
		}
	}
	return out
}

func nOf(d *adoc, p *nPred) []float64 {
	if p == nil {
		return d.n
	}
	var out []float64
	for _, v := range d.n {
		if p.ok(v) {
			out = append(out, v)
		}
	}
	return out
}

func dOf(d *adoc, p *dPred) []time.Time {
	if p == nil {
		return d.d
	}
	var out []time.Time
	for _, v := range d.d {
		if p.ok(v) {
			out = append(out, v)
		}
	}
	return out
}

// every numeric metric over FilterNumeric(n, p)
func filteredNumMetrics(p *nPred) []metric {
	vals := func(docs []*adoc) []float64 {
		var v []float64
		for _, d := range docs {
			v = append(v, nOf(d, p)...)
		}
		return v
	}
	sfx := "_n[" + p.name + "]"
	return []metric{
		{name: "sum" + sfx, field: "n", scal: true, mk: func() search.Aggregation { return aggregations.Sum(nSource(p)) },
			ref: func(d []*adoc) (float64, bool) { return sumOf(vals(d)), true }, empty: 0},
		{name: "min" + sfx, field: "n", mk: func() search.Aggregation { return aggregations.Min(nSource(p)) },
			ref: func(d []*adoc) (float64, bool) { v := vals(d); return minOf(v), len(v) > 0 }, empty: math.Inf(1)},
		{name: "max" + sfx, field: "n", mk: func() search.Aggregation { return aggregations.Max(nSource(p)) },
			ref: func(d []*adoc) (float64, bool) { v := vals(d); return maxOf(v), len(v) > 0 }, empty: math.Inf(-1)},
		{name: "avg" + sfx, field: "n", mk: func() search.Aggregation { return aggregations.Avg(nSource(p)) },
			ref: func(d []*adoc) (float64, bool) { v := vals(d); return sumOf(v) / float64(len(v)), len(v) > 0 }, empty: math.NaN()},
		{name: "wavg" + sfx + "_by_m", field: "m", mk: func() search.Aggregation {
			return aggregations.WeightedAvg(nSource(p), search.Field("m"))
		}, ref: func(docs []*adoc) (float64, bool) {
			var num, den float64
			cnt := 0
			for _, d := range docs {
				for _, v := range nOf(d, p) {
					num += v * d.m
					den += d.m
					cnt++
				}
			}
			return num / den, cnt > 0 && den != 0
		}, empty: math.NaN()},
		{name: "quant" + sfx, field: "n", kind: 2, qvals: vals, mk: func() search.Aggregation { return aggregations.Quantiles(nSource(p)) }},
	}
}

// cardinality over FilterText(k, p)
func filteredCard(p *kPred) metric {
	return metric{name: "card_k[" + p.name + "]", field: "k", kind: 1, mk: func() search.Aggregation { return aggregations.Cardinality(kSource(p)) },
		ref: func(docs []*adoc) (float64, bool) {
			sk := hyperloglog.New16()
			for _, d := range docs {
				ks := append([]string(nil), kOf(d, p)...)
				sort.Strings(ks)
				for _, k := range ks {
					sk.Insert([]byte(k))
				}
			}
			return float64(sk.Estimate()), true
		}, empty: 0}
}

// bucket aggregations over the UNFILTERED fields, used nested inside (or next
// to) a filtered aggregation: the bucket counts must equal direct counting
// over the documents in scope, whatever the filtered aggregation did before
var nestedTermsK = metric{name: "terms_k", field: "k", kind: 3,
	mk: func() search.Aggregation { return aggregations.NewTermsAggregation(search.Field("k"), 10) },
	buckets: func(docs []*adoc) map[string]int {
		out := map[string]int{}
		for _, d := range docs {
			for _, k := range d.k {
				out[k]++
			}
		}
		return out
	}}

var nestedRangesN = metric{name: "ranges_n", field: "n", kind: 3,
	mk: func() search.Aggregation {
		ra := aggregations.Ranges(search.Field("n"))
		for _, r := range narrowRanges {
			ra.AddRange(aggregations.NamedRange(r.name, r.lo, r.hi))
		}
		return ra
	},
	buckets: func(docs []*adoc) map[string]int {
		out := map[string]int{}
		for _, r := range narrowRanges {
			out[r.name] = 0
			for _, d := range docs {
				for _, v := range d.n {
					if inRange(v, r) {
						out[r.name]++
						break
					}
				}
			}
		}
		return out
	}}

var nestedRangesD = metric{name: "dranges_d", field: "d", kind: 3,
	mk: func() search.Aggregation {
		da := aggregations.DateRanges(search.Field("d"))
		for _, r := range narrowDates {
			da.AddRange(aggregations.NewNamedDateRange(r.name, r.lo, r.hi))
		}
		return da
	},
	buckets: func(docs []*adoc) map[string]int {
		out := map[string]int{}
		for _, r := range narrowDates {
			out[r.name] = 0
			for _, d := range docs {
				for _, v := range d.d {
					if inDRange(v, r) {
						out[r.name]++
						break
					}
				}
			}
		}
		return out
	}}

func fnum(v float64) string {
	if math.IsNaN(v) {
		return "NaN"
	}
	return fmt.Sprintf("%v", v)
}

// finding: a disagreement with the reference.  got/want/field/scal let the
// caller recognise "every value of the field was seen k times".
type finding struct {
	class string // "" = specific (keyed by the input)
	msg   string
	field string
	scal  bool // got scales linearly with the number of times each value is seen
	got   float64
	want  float64
}

// checkMetrics compares the calculators of one bucket with the reference over
// the documents in its scope; canon collects what was observed.
func checkMetrics(b *search.Bucket, path string, ms []metric, docs []*adoc, canon *strings.Builder) *finding {
	for _, m := range ms {
		calc := b.Aggregation(m.name)
		if calc == nil {
			return &finding{msg: fmt.Sprintf("%s%s: the result has no such aggregation", path, m.name)}
		}
		if m.kind == 2 {
			qc, ok := calc.(*aggregations.QuantilesCalculator)
			if !ok {
				return &finding{msg: fmt.Sprintf("%s%s: unexpected calculator type %T", path, m.name, calc)}
			}
			vals := nVals(docs)
			if m.qvals != nil {
				vals = m.qvals(docs)
			}
			lo, hi := minOf(vals), maxOf(vals)
			prev := math.Inf(-1)
			fmt.Fprintf(canon, "%s%s=[", path, m.name)
			for _, rk := range quantRanks {
				q, err := qc.Quantile(rk)
				if err != nil {
					return &finding{msg: fmt.Sprintf("%s%s: Quantile(%v): %v", path, m.name, rk, err)}
				}
				fmt.Fprintf(canon, "%s ", fnum(q))
				if len(vals) == 0 {
					continue
				}
				if math.IsNaN(q) || q < lo || q > hi {
					cl := "quantile-outside-the-matched-values"
					if tol := 1e-12 * math.Max(math.Abs(lo), math.Abs(hi)); q >= lo-tol && q <= hi+tol {
						cl = "quantile-outside-the-matched-values-by-rounding" // a few units in the last place
					}
					return &finding{class: cl, field: "n", msg: fmt.Sprintf("%s%s: quantile %v is %v, outside the matched values %v (min %v, max %v)", path, m.name, rk, q, vals, lo, hi)}
				}
				if q < prev {
					cl := "quantile-decreasing-in-rank"
					if prev-q <= 1e-12*math.Max(math.Abs(lo), math.Abs(hi)) {
						cl = "quantile-decreasing-in-rank-by-rounding" // a few units in the last place
					}
					return &finding{class: cl, field: "n", msg: fmt.Sprintf("%s%s: quantile %v is %v, smaller than the quantile of the previous rank (%v); values %v", path, m.name, rk, q, prev, vals)}
				}
				prev = q
			}
			canon.WriteString("] ")
			continue
		}
		if m.kind == 3 {
			bc, ok := calc.(search.BucketCalculator)
			if !ok {
				return &finding{msg: fmt.Sprintf("%s%s: unexpected calculator type %T", path, m.name, calc)}
			}
			want := m.buckets(docs)
			got := map[string]int{}
			var parts []string
			for _, nb := range bc.Buckets() {
				c, ok := bucketCount(nb)
				if !ok {
					return &finding{msg: fmt.Sprintf("%s%s/%s: no count", path, m.name, nb.Name())}
				}
				if _, dup := got[nb.Name()]; dup {
					return &finding{msg: fmt.Sprintf("%s%s: bucket %q returned twice", path, m.name, nb.Name())}
				}
				got[nb.Name()] = int(c)
				parts = append(parts, fmt.Sprintf("%s:%v", nb.Name(), c))
			}
			sort.Strings(parts)
			fmt.Fprintf(canon, "%s%s={%s} ", path, m.name, strings.Join(parts, " "))
			var wparts []string
			for k, v := range want {
				wparts = append(wparts, fmt.Sprintf("%s:%d", k, v))
			}
			sort.Strings(wparts)
			if strings.Join(parts, " ") != strings.Join(wparts, " ") {
				return &finding{field: m.field, msg: fmt.Sprintf("%s%s over the unfiltered field %s has buckets {%s}, direct counting over the %d documents in scope gives {%s}", path, m.name, m.field, strings.Join(parts, " "), len(docs), strings.Join(wparts, " "))}
			}
			continue
		}
		mc, ok := calc.(search.MetricCalculator)
		if !ok {
			return &finding{msg: fmt.Sprintf("%s%s: unexpected calculator type %T", path, m.name, calc)}
		}
		got := mc.Value()
		fmt.Fprintf(canon, "%s%s=%s ", path, m.name, fnum(got))
		want, defined := m.ref(docs)
		if !defined {
			continue
		}
		if got != want {
			f := &finding{field: m.field, scal: m.scal, got: got, want: want,
				msg: fmt.Sprintf("%s%s = %s, direct computation over the %d documents in scope gives %s", path, m.name, fnum(got), len(docs), fnum(want))}
			if got == m.empty || (math.IsNaN(got) && math.IsNaN(m.empty)) {
				f.msg += " (the calculator shows its initial value: it saw no value of field " + m.field + ")"
				f.class = "saw-no-values"
			}
			return f
		}
	}
	return nil
}

// ---------------------------------------------------------------- aggregation trees

type rng struct {
	name   string
	lo, hi float64
}

type drng struct {
	name   string
	lo, hi time.Time // zero = open
}

var narrowRanges = []rng{{"lt2", math.Inf(-1), 2}, {"2", 2, 3}, {"3", 3, 4}, {"4to6", 4, 6}, {"none", 100, 200}}
var wideRanges = []rng{{"2to4", 2, 4}, {"wide", -10, 6.5}, {"lt2", math.Inf(-1), 2}}
var narrowDates = []drng{{"old", time.Time{}, d1}, {"2001", d1, d2}, {"2002", d2, d3}, {"2003on", d3, d4}, {"future", d4.Add(time.Hour), time.Time{}}}
var wideDates = []drng{{"upto2002", time.Time{}, d3}, {"all", time.Time{}, time.Time{}}, {"2001-2003", d1, d3.Add(time.Hour)}}

type tree struct {
	name string
	kind int // 0 metrics, 1 terms, 2 numeric ranges, 3 date ranges
	// std: also the standard aggregations (count, max_score, duration)
	std     bool
	metrics []metric // top level (kind 0) or nested in every bucket
	sizes   []int    // kind 1: one terms aggregation per size
	rngs    []rng
	drngs   []drng
	// sortField: the field of the "sort by a field" settings; "s" is read by no aggregation
	sortField string
	// filters on the source of the bucket aggregation (nil = the plain field)
	kp *kPred
	np *nPred
	dp *dPred
	// siblings: aggregations over the same field next to each other; the order in
	// which they consume a hit is not fixed, so the key of a failure leaves the
	// search setting out (any setting may be the one that shows it)
	siblings bool
	// sibD: also an unfiltered date range aggregation at top level
	sibD bool
}

func ms(m ...metric) []metric { return m }

var (
	sumN, minN, maxN, avgN = nMetrics[0], nMetrics[1], nMetrics[2], nMetrics[3]
	sumM, minM, maxM, avgM = mMetrics[0], mMetrics[1], mMetrics[2], mMetrics[3]
)

var trees = []tree{
	// --- every field referenced once
	{name: "standard+count+sum(n)+cardinality(k)+sum(m)", kind: 0, std: true, metrics: ms(metricCount, sumN, metricCard, sumM)},
	{name: "min(n)+min(m)", kind: 0, metrics: ms(minN, minM)},
	{name: "max(n)+max(m)", kind: 0, metrics: ms(maxN, maxM)},
	{name: "avg(n)+avg(m)", kind: 0, metrics: ms(avgN, avgM)},
	{name: "weighted-avg(n by m)", kind: 0, metrics: ms(metricWavg)},
	{name: "quantiles(n)", kind: 0, metrics: ms(metricQuant)},
	{name: "terms(k,1)", kind: 1, sizes: []int{1}},
	{name: "terms(k,1)>sum(n)+sum(m)", kind: 1, sizes: []int{1}, metrics: ms(sumN, sumM)},
	{name: "terms(k,2)>min(n)+max(m)", kind: 1, sizes: []int{2}, metrics: ms(minN, maxM)},
	{name: "terms(k,10)>max(n)+min(m)", kind: 1, sizes: []int{10}, metrics: ms(maxN, minM)},
	{name: "terms(k,2)>avg(n)+avg(m)", kind: 1, sizes: []int{2}, metrics: ms(avgN, avgM)},
	{name: "terms(k,10)>weighted-avg(n by m)", kind: 1, sizes: []int{10}, metrics: ms(metricWavg)},
	{name: "terms(k,10)>quantiles(n)", kind: 1, sizes: []int{10}, metrics: ms(metricQuant)},
	{name: "ranges(n)", kind: 2, rngs: narrowRanges},
	{name: "ranges(n)>metrics-of-n", kind: 2, rngs: narrowRanges, metrics: ms(sumN, minN, maxN, avgN, metricQuant)},
	{name: "ranges(n)>metrics-of-other-fields", kind: 2, rngs: narrowRanges, metrics: ms(sumM, minM, maxM, avgM, metricWavg, metricCard)},
	{name: "dateranges(d)", kind: 3, drngs: narrowDates},
	{name: "dateranges(d)>metrics-of-other-fields", kind: 3, drngs: narrowDates, metrics: ms(sumN, minN, maxN, avgN, sumM, metricWavg, metricCard, metricQuant)},
	// --- two values of one document in one range
	{name: "ranges(n),two-values-of-a-document-in-one-range", kind: 2, rngs: wideRanges},
	{name: "dateranges(d),two-values-of-a-document-in-one-range", kind: 3, drngs: wideDates},
	// --- a field referenced more than once
	{name: "all-metrics-in-one-request", kind: 0, std: true, metrics: allMetrics()},
	{name: "sum(n),sorted-by-n", kind: 0, metrics: ms(sumN), sortField: "n"},
	{name: "ranges(n),sorted-by-n", kind: 2, rngs: narrowRanges, sortField: "n"},
	{name: "terms(k,10)>cardinality(k)", kind: 1, sizes: []int{10}, metrics: ms(metricCard)},
	{name: "terms(k,1)+terms(k,2)+terms(k,10)", kind: 1, sizes: []int{1, 2, 10}},
	// --- filtered sources; nested aggregations read the UNFILTERED same field
	{name: "terms(filter(k,not-a),10)>cardinality(k)+terms(k,10)", kind: 1, sizes: []int{10}, kp: kNotA, metrics: ms(metricCard, nestedTermsK)},
	{name: "terms(filter(k,not-b),10)>cardinality(k)+terms(k,10)", kind: 1, sizes: []int{10}, kp: kNotB, metrics: ms(metricCard, nestedTermsK)},
	{name: "terms(filter(k,not-a),1)>sum(n)+max(m)", kind: 1, sizes: []int{1}, kp: kNotA, metrics: ms(sumN, maxM)},
	{name: "cardinality(filter(k,not-a))", kind: 0, metrics: ms(filteredCard(kNotA))},
	{name: "cardinality(filter(k,not-b))", kind: 0, metrics: ms(filteredCard(kNotB))},
	{name: "siblings:cardinality(filter(k,not-a))+cardinality(filter(k,not-b))+cardinality(k)+terms(k,10)", kind: 0, siblings: true,
		metrics: ms(filteredCard(kNotA), filteredCard(kNotB), metricCard, nestedTermsK)},
	{name: "metrics(filter(n,not-1-or-2))", kind: 0, metrics: filteredNumMetrics(nLow)},
	{name: "metrics(filter(n,not-3-or-5))", kind: 0, metrics: filteredNumMetrics(nHigh)},
	{name: "siblings:sum(filter(n,not-1-or-2))+sum(filter(n,not-3-or-5))+sum(n)+min(n)+ranges(n)", kind: 0, siblings: true,
		metrics: ms(filteredNumMetrics(nLow)[0], filteredNumMetrics(nHigh)[0], sumN, minN, nestedRangesN)},
	{name: "ranges(filter(n,not-1-or-2))>metrics-of-n+ranges(n)", kind: 2, rngs: narrowRanges, np: nLow, metrics: ms(sumN, minN, maxN, avgN, nestedRangesN)},
	{name: "ranges(filter(n,not-3-or-5))>metrics-of-n+ranges(n)", kind: 2, rngs: narrowRanges, np: nHigh, metrics: ms(sumN, minN, maxN, avgN, nestedRangesN)},
	{name: "dateranges(filter(d,not-2001))>dateranges(d)+sum(n)+cardinality(k)", kind: 3, drngs: narrowDates, dp: dLow, metrics: ms(nestedRangesD, sumN, metricCard)},
	{name: "dateranges(filter(d,not-2002-or-2003))>dateranges(d)+sum(n)+cardinality(k)", kind: 3, drngs: narrowDates, dp: dHigh, metrics: ms(nestedRangesD, sumN, metricCard)},
	{name: "siblings:dateranges(filter(d,not-2001))+dateranges(d)", kind: 3, drngs: narrowDates, dp: dLow, siblings: true, metrics: nil, sibD: true},
}

func addTree(req *bluge.TopNSearch, t *tree) {
	if t.std {
		req.WithStandardAggregations()
	}
	switch t.kind {
	case 0:
		for _, m := range t.metrics {
			req.AddAggregation(m.name, m.mk())
		}
	case 1:
		for _, sz := range t.sizes {
			ta := aggregations.NewTermsAggregation(kSource(t.kp), sz)
			for _, m := range t.metrics {
				ta.AddAggregation(m.name, m.mk())
			}
			req.AddAggregation(fmt.Sprintf("terms%d", sz), ta)
		}
	case 2:
		ra := aggregations.Ranges(nSource(t.np))
		for _, r := range t.rngs {
			ra.AddRange(aggregations.NamedRange(r.name, r.lo, r.hi))
		}
		for _, m := range t.metrics {
			ra.AddAggregation(m.name, m.mk())
		}
		req.AddAggregation("ranges", ra)
	case 3:
		da := aggregations.DateRanges(dSource(t.dp))
		for _, r := range t.drngs {
			da.AddRange(aggregations.NewNamedDateRange(r.name, r.lo, r.hi))
		}
		for _, m := range t.metrics {
			da.AddAggregation(m.name, m.mk())
		}
		req.AddAggregation("dranges", da)
		if t.sibD {
			req.AddAggregation(nestedRangesD.name, nestedRangesD.mk())
		}
	}
}

func bucketCount(b *search.Bucket) (float64, bool) {
	c, ok := b.Aggregation("count").(search.MetricCalculator)
	if !ok {
		return 0, false
	}
	return c.Value(), true
}

func inRange(v float64, r rng) bool { return v >= r.lo && v < r.hi }
func inDRange(v time.Time, r drng) bool {
	if !r.lo.IsZero() && v.Before(r.lo) {
		return false
	}
	if !r.hi.IsZero() && !v.Before(r.hi) {
		return false
	}
	return true
}

// checkTree compares the aggregation results of one search with the reference
func checkTree(root *search.Bucket, t *tree, docs []*adoc, maxScore float64, canon *strings.Builder) *finding {
	if t.std {
		if got := root.Count(); got != uint64(len(docs)) {
			return &finding{msg: fmt.Sprintf("count = %d, the query selects %d documents", got, len(docs))}
		}
		if got := root.Metric("max_score"); got != maxScore {
			return &finding{msg: fmt.Sprintf("max_score = %v, the largest score of a matching document is %v", got, maxScore)}
		}
		if root.Aggregation("duration") == nil || root.Duration() < 0 {
			return &finding{msg: "no duration"}
		}
		fmt.Fprintf(canon, "count=%d ", root.Count())
	}
	switch t.kind {
	case 0:
		return checkMetrics(root, "", t.metrics, docs, canon)
	case 1:
		// reference: documents per term
		byTerm := map[string][]*adoc{}
		multi := false
		for _, d := range docs {
			ks := kOf(d, t.kp)
			if len(ks) > 1 {
				multi = true
			}
			for _, k := range ks {
				byTerm[k] = append(byTerm[k], d)
			}
		}
		for _, sz := range t.sizes {
			name := fmt.Sprintf("terms%d", sz)
			tc, ok := root.Aggregation(name).(*aggregations.TermsCalculator)
			if !ok {
				return &finding{msg: name + ": missing or of unexpected type"}
			}
			bs := tc.Buckets()
			wantN := len(byTerm)
			if wantN > sz {
				wantN = sz
			}
			if len(bs) != wantN {
				return &finding{msg: fmt.Sprintf("%s: %d buckets returned, %d distinct terms among the matches, size %d", name, len(bs), len(byTerm), sz)}
			}
			seen := map[string]bool{}
			minReturned := math.Inf(1)
			prev := math.Inf(1)
			sumCounts := 0.0
			var lines []string
			for _, b := range bs {
				tm := b.Name()
				in, ok := byTerm[tm]
				if !ok || seen[tm] {
					return &finding{msg: fmt.Sprintf("%s: bucket %q is not a term of a matching document, or is returned twice", name, tm)}
				}
				seen[tm] = true
				cnt, ok := bucketCount(b)
				if !ok {
					return &finding{msg: fmt.Sprintf("%s/%s: no count", name, tm)}
				}
				if cnt != float64(len(in)) {
					return &finding{field: "k", scal: true, got: cnt, want: float64(len(in)),
						msg: fmt.Sprintf("%s/%s: count = %v, %d matching documents carry the term", name, tm, cnt, len(in))}
				}
				if cnt > prev {
					return &finding{msg: fmt.Sprintf("%s: buckets are not ordered by descending count (%v after %v)", name, cnt, prev)}
				}
				prev = cnt
				if cnt < minReturned {
					minReturned = cnt
				}
				sumCounts += cnt
				var sb strings.Builder
				if f := checkMetrics(b, name+"/"+tm+"/", t.metrics, in, &sb); f != nil {
					return f
				}
				lines = append(lines, fmt.Sprintf("%s/%s:%v %s", name, tm, cnt, sb.String()))
			}
			for tm, in := range byTerm {
				if !seen[tm] && float64(len(in)) > minReturned {
					return &finding{msg: fmt.Sprintf("%s: term %q with %d documents was left out although a returned bucket has only %v", name, tm, len(in), minReturned)}
				}
			}
			other := tc.Other()
			if !multi && float64(other) != float64(len(docs))-sumCounts {
				return &finding{msg: fmt.Sprintf("%s: other = %d, but %d matches (all single-valued) minus %v in the returned buckets leaves %v", name, other, len(docs), sumCounts, float64(len(docs))-sumCounts)}
			}
			sort.Strings(lines)
			fmt.Fprintf(canon, "%s other=%d ", strings.Join(lines, " "), other)
		}
		return nil
	case 2, 3:
		var bs []*search.Bucket
		n := len(t.rngs)
		fld := "n"
		if t.kind == 2 {
			bs = root.Buckets("ranges")
		} else {
			bs = root.Buckets("dranges")
			n = len(t.drngs)
			fld = "d"
		}
		if len(bs) != n {
			return &finding{msg: fmt.Sprintf("%d range buckets returned, %d ranges requested", len(bs), n)}
		}
		for i, b := range bs {
			var in []*adoc
			values := 0 // number of (document, value) pairs in the range
			var rname string
			for _, d := range docs {
				hit := 0
				if t.kind == 2 {
					rname = t.rngs[i].name
					for _, v := range nOf(d, t.np) {
						if inRange(v, t.rngs[i]) {
							hit++
						}
					}
				} else {
					rname = t.drngs[i].name
					for _, v := range dOf(d, t.dp) {
						if inDRange(v, t.drngs[i]) {
							hit++
						}
					}
				}
				if hit > 0 {
					in = append(in, d)
				}
				values += hit
			}
			if t.kind == 2 {
				rname = t.rngs[i].name
			} else {
				rname = t.drngs[i].name
			}
			if b.Name() != rname {
				return &finding{msg: fmt.Sprintf("bucket %d is named %q, the range is %q", i, b.Name(), rname)}
			}
			cnt, ok := bucketCount(b)
			if !ok {
				return &finding{msg: rname + ": no count"}
			}
			fmt.Fprintf(canon, "%s:%v ", rname, cnt)
			if cnt != float64(len(in)) {
				f := &finding{field: fld, scal: true, got: cnt, want: float64(len(in)),
					msg: fmt.Sprintf("range %s: count = %v, %d matching documents have a value in the range", rname, cnt, len(in))}
				if cnt == float64(values) {
					f.class = "per-value"
					f.msg += fmt.Sprintf(" (%d values of these documents lie in the range: a document with two values in one range is consumed twice)", values)
				}
				return f
			}
			if f := checkMetrics(b, rname+"/", t.metrics, in, canon); f != nil {
				return f
			}
		}
		if t.sibD {
			return checkMetrics(root, "", ms(nestedRangesD), docs, canon)
		}
		return nil
	}
	return nil
}

// ---------------------------------------------------------------- settings

type setting struct {
	n, from int
	sort    int    // 0 default (score desc), 1 by a numeric field, 2 by -_id, 3 by _id (paging)
	after   string // key for After / Before under sort 3
	mode    int    // 0 plain, 1 After, 2 Before
}

func (s setting) describe(t *tree) string {
	sf := t.sortField
	if sf == "" {
		sf = "s"
	}
	srt := []string{"default", sf, "-_id", "_id"}[s.sort]
	switch s.mode {
	case 1:
		return fmt.Sprintf("n=%d sort=%s After(%q)", s.n, srt, s.after)
	case 2:
		return fmt.Sprintf("n=%d sort=%s Before(%q)", s.n, srt, s.after)
	}
	return fmt.Sprintf("n=%d from=%d sort=%s", s.n, s.from, srt)
}

var nfQuick = []int{0, 1, 2, 5}
var nfThorough = []int{0, 1, 2, 5, 11} // 11: the collector's heap store

func settingsFor(list []int, param string) []setting {
	nfVals := nfQuick
	if param == "thorough" {
		nfVals = nfThorough
	}
	var out []setting
	for srt := 0; srt < 3; srt++ {
		for _, n := range nfVals {
			for _, f := range nfVals {
				out = append(out, setting{n: n, from: f, sort: srt})
			}
		}
	}
	keys := []string{"", "zz"}
	for i := range list {
		keys = append(keys, idByPos[i])
	}
	sort.Strings(keys)
	for _, k := range keys {
		for _, n := range []int{0, 1, 5} {
			out = append(out, setting{n: n, sort: 3, after: k, mode: 1})
		}
		for _, n := range []int{1, 5} {
			out = append(out, setting{n: n, sort: 3, after: k, mode: 2})
		}
	}
	return out
}

func request(s setting, t *tree, q bluge.Query) *bluge.TopNSearch {
	req := bluge.NewTopNSearch(s.n, q).SetFrom(s.from)
	switch s.sort {
	case 1:
		sf := t.sortField
		if sf == "" {
			sf = "s"
		}
		req.SortBy([]string{sf})
	case 2:
		req.SortBy([]string{"-_id"})
	case 3:
		req.SortBy([]string{"_id"})
	}
	switch s.mode {
	case 1:
		req.After([][]byte{[]byte(s.after)})
	case 2:
		req.Before([][]byte{[]byte(s.after)})
	}
	return req
}

// how often the request names each field (sort keys and aggregations)
func references(req *bluge.TopNSearch) map[string]int {
	refs := map[string]int{}
	for _, f := range req.SortOrder().Fields() {
		refs[f]++
	}
	for _, f := range req.Aggregations().Fields() {
		refs[f]++
	}
	return refs
}

// ---------------------------------------------------------------- the enumeration

var bg = context.Background()

type cached struct {
	key string
	r   *bluge.Reader
}

var lastIndex cached

func readerFor(list []int, layout int) (*bluge.Reader, string) {
	key := fmt.Sprint(list, layout)
	if lastIndex.key == key && lastIndex.r != nil {
		return lastIndex.r, ""
	}
	if lastIndex.r != nil {
		_ = lastIndex.r.Close()
		lastIndex = cached{}
	}
	r, fail := buildIndex(list, layout)
	if fail != "" {
		return nil, fail
	}
	lastIndex = cached{key, r}
	return r, ""
}

func corpusString(list []int) string {
	var s []string
	for _, a := range list {
		s = append(s, alphabet[a].name)
	}
	return "{" + strings.Join(s, ",") + "}"
}

func describeDocs(list []int) string {
	var s []string
	for i, a := range list {
		d := alphabet[a]
		s = append(s, fmt.Sprintf("%s(id %s): n=%v d=%v k=%v m=%v body=%q", d.name, idByPos[i], d.n, years(d.d), d.k, d.m, d.body))
	}
	return strings.Join(s, "; ")
}

func years(ts []time.Time) []int {
	var y []int
	for _, t := range ts {
		y = append(y, t.Year())
	}
	return y
}

func total(param string) int64 {
	return int64(len(corpora(param)) * nLayouts(param) * len(trees))
}

// stable keys of the recognised classes of disagreement
const (
	keyPerReference = "values of a field are seen once per reference of the field (sort key + aggregations)"
	keyNotLoadedNum = "numeric range aggregation does not load the fields of its nested aggregations"
	keyNotLoadedDat = "date range aggregation does not load the fields of its nested aggregations"
	keyPerValueNum  = "numeric range bucket consumes a document once per value in the range"
	keyPerValueDat  = "date range bucket consumes a document once per value in the range"
)

func eval(idx int64, param string) *explore.Result {
	ti := int(idx % int64(len(trees)))
	idx /= int64(len(trees))
	layout := int(idx % int64(nLayouts(param)))
	list := corpora(param)[idx/int64(nLayouts(param))]
	t := &trees[ti]
	res := &explore.Result{Counts: map[string]int64{}}
	lname := []string{"two-segments", "one-segment", "segment-per-document"}[layout]
	where := fmt.Sprintf("tree=%s corpus=%s layout=%s", t.name, corpusString(list), lname)
	r, fail := readerFor(list, layout)
	if fail != "" {
		res.Failure = where + ": " + fail
		res.Key = where + " build"
		return res
	}
	h := fnv.New64a()
	sets := settingsFor(list, param)
	for qi := range queryNames {
		docs := selected(qi, list)
		maxScore := 0.0
		if t.std {
			// reference for max_score: the scores of all matches under the AllMatches collector
			maxScore = fullMaxScore(r, queryOf(qi, list))
		}
		var firstCanon, firstSetting string
		for si, s := range sets {
			req := request(s, t, queryOf(qi, list))
			addTree(req, t)
			var root *search.Bucket
			var serr error
			verifmc.Quiet(func() {
				it, err := r.Search(bg, req)
				if err != nil {
					serr = err
					return
				}
				for {
					m, err := it.Next()
					if err != nil {
						serr = err
						return
					}
					if m == nil {
						break
					}
				}
				root = it.Aggregations()
			})
			res.Evals++
			if len(docs) > 0 {
				res.Nontrivial++
			}
			skey := fmt.Sprintf("%s query=%s %s", where, queryNames[qi], s.describe(t))
			if serr != nil {
				res.Failure = skey + ": search failed: " + serr.Error()
				res.Key = skey
				return res
			}
			var canon strings.Builder
			if f := checkTree(root, t, docs, maxScore, &canon); f != nil {
				res.Key = skey
				if t.siblings {
					res.Key = fmt.Sprintf("%s query=%s", where, queryNames[qi])
				}
				refs := references(req)
				switch {
				case f.scal && refs[f.field] > 1 && f.got == float64(refs[f.field])*f.want:
					res.Key = keyPerReference
					f.msg += fmt.Sprintf(" (the request names field %s %d times: %d x %v = %v)", f.field, refs[f.field], refs[f.field], f.want, f.got)
				case f.class == "saw-no-values" && t.kind == 2 && refs[f.field] == 0:
					res.Key = keyNotLoadedNum
				case f.class == "saw-no-values" && t.kind == 3 && refs[f.field] == 0:
					res.Key = keyNotLoadedDat
				case f.class == "per-value" && t.kind == 2 && refs["n"] == 1:
					res.Key = keyPerValueNum
				case f.class == "per-value" && t.kind == 3 && refs["d"] == 1:
					res.Key = keyPerValueDat
				case strings.HasPrefix(f.class, "quantile"):
					res.Key = f.class
				}
				res.Failure = fmt.Sprintf("%s: %s   [first seen: %s; documents: %s; the query selects %d of them]", res.Key, f.msg, skey, describeDocs(list), len(docs))
				return res
			}
			if si == 0 {
				firstCanon, firstSetting = canon.String(), s.describe(t)
			} else if canon.String() != firstCanon {
				res.Key = skey + " differs"
				res.Failure = fmt.Sprintf("%s query=%s: the aggregation results depend on the search setting: under %s they are <%s>, under %s they are <%s>; documents: %s", where, queryNames[qi], firstSetting, firstCanon, s.describe(t), canon.String(), describeDocs(list))
				return res
			}
		}
		_, _ = h.Write([]byte(firstCanon))
		if qi == 0 && idx%41 == 0 && len(list) >= 2 {
			res.Sample = map[string]interface{}{"tree": t.name, "documents": describeDocs(list), "layout": lname, "query": queryNames[qi],
				"settings": len(sets), "observed_equal_to_reference": firstCanon}
		}
	}
	res.Outcome = fmt.Sprintf("%s|%x", where, h.Sum64())
	return res
}

// ---------------------------------------------------------------- search under a read fault

// The statement is about the result of a search: a search that returns
// normally claims aggregations over every match.  When reading a segment fails
// in the middle of a search the only two sound outcomes are an error, or a
// result that is nevertheless exact.  The fault is produced with public seams
// only: the index files are put into a real FileSystemDirectory on tmpfs whose
// load function is index.LoadMMapNever (plain file reads), and after OpenReader
// the *os.File of one segment is closed, so every later read of it fails.

var faultTreeNames = []string{"standard+count+sum(n)+cardinality(k)+sum(m)", "terms(k,1)>sum(n)+sum(m)", "ranges(n)>metrics-of-n"}

func treeByName(name string) *tree {
	for i := range trees {
		if trees[i].name == name {
			return &trees[i]
		}
	}
	panic("no tree " + name)
}

// corpora: every multiset of exactly 2 documents (one segment each) and the
// 3-document multisets of the first four letters (three segments)
func faultCorpora() [][]int {
	var out [][]int
	for _, c := range multisets(3) {
		if len(c) == 2 {
			out = append(out, c)
		}
		if len(c) == 3 && c[2] <= 3 {
			out = append(out, c)
		}
	}
	return out
}

var faultCorp = faultCorpora()

// one case = (corpus, segment whose file is closed)
func faultTotal(param string) int64 {
	var n int64
	for _, c := range faultCorp {
		n += int64(len(c))
	}
	return n
}

func faultCase(idx int64) ([]int, int) {
	for _, c := range faultCorp {
		if idx < int64(len(c)) {
			return c, int(idx)
		}
		idx -= int64(len(c))
	}
	return nil, 0
}

type segFiles struct{ files []*os.File }

func faultEval(idx int64, param string) (res *explore.Result) {
	list, victim := faultCase(idx)
	res = &explore.Result{Counts: map[string]int64{}}
	where := fmt.Sprintf("read-fault: corpus=%s (one segment per document) closed-segment=%d", corpusString(list), victim)
	// build in memory, copy the files to a scratch directory on tmpfs
	mem, fail := buildFiles(list, 2)
	if fail != "" {
		res.Failure, res.Key = where+": "+fail, where+" build"
		return res
	}
	path, err := os.MkdirTemp("/dev/shm", "verif-c16-")
	if err != nil {
		res.Failure, res.Key = "harness: "+err.Error(), "harness"
		return res
	}
	defer os.RemoveAll(path)
	for name, b := range mem {
		if err := os.WriteFile(filepath.Join(path, name), b, 0o600); err != nil {
			res.Failure, res.Key = "harness: "+err.Error(), "harness"
			return res
		}
	}
	sf := &segFiles{}
	cfg := bluge.DefaultConfigWithDirectory(func() index.Directory {
		d := index.NewFileSystemDirectory(path)
		d.SetLoadMMapFunc(func(f lock.LockedFile) (*segment.Data, io.Closer, error) {
			if strings.HasSuffix(f.File().Name(), index.ItemKindSegment) {
				sf.files = append(sf.files, f.File())
			}
			return index.LoadMMapNever(f)
		})
		return d
	})
	r, err := bluge.OpenReader(cfg)
	if err != nil {
		res.Failure, res.Key = where+": open reader: "+err.Error(), where+" open"
		return res
	}
	defer r.Close()
	if len(sf.files) != len(list) {
		res.Failure, res.Key = fmt.Sprintf("%s: the reader opened %d segment files, expected %d", where, len(sf.files), len(list)), where+" open"
		return res
	}
	sort.Slice(sf.files, func(i, j int) bool { return sf.files[i].Name() < sf.files[j].Name() })
	sets := settingsFor(list, "quick")
	run := func(phase string) bool {
		for _, tn := range faultTreeNames {
			t := treeByName(tn)
			for qi := 0; qi < 3; qi++ {
				docs := selected(qi, list)
				maxScore := 0.0
				if t.std && phase == "healthy" {
					maxScore = fullMaxScore(r, queryOf(qi, list))
				}
				for _, s := range sets {
					// a sub-grid of the settings: n in {0,2,5} x from in {0,1} x 3 sort orders, After/Before with n=1
					if (s.mode != 0 && s.n != 1) || (s.mode == 0 && (s.n == 1 || s.from > 1)) {
						continue
					}
					req := request(s, t, queryOf(qi, list))
					addTree(req, t)
					var root *search.Bucket
					var serr error
					var panicked interface{}
					func() {
						defer func() { panicked = recover() }()
						verifmc.Quiet(func() {
							it, err := r.Search(bg, req)
							if err != nil {
								serr = err
								return
							}
							for {
								m, err := it.Next()
								if err != nil {
									serr = err
									return
								}
								if m == nil {
									break
								}
							}
							root = it.Aggregations()
						})
					}()
					res.Evals++
					skey := fmt.Sprintf("%s tree=%s query=%s %s", where, t.name, queryNames[qi], s.describe(t))
					if panicked != nil {
						res.Key = skey
						res.Failure = fmt.Sprintf("%s: the search panicked (%s index): %v", skey, phase, panicked)
						return false
					}
					if serr != nil {
						if phase == "healthy" {
							res.Key = skey
							res.Failure = fmt.Sprintf("%s: the search failed on the intact index: %v", skey, serr)
							return false
						}
						res.Counts["faulted_searches_that_returned_an_error"]++
						continue
					}
					if phase == "faulted" {
						res.Nontrivial++
						res.Counts["faulted_searches_that_returned_a_result"]++
					}
					var canon strings.Builder
					mt := *t
					if phase == "faulted" {
						mt.std = false // max_score needs a reference search; count is checked below
					}
					f := checkTree(root, &mt, docs, maxScore, &canon)
					if f == nil && t.std && root.Count() != uint64(len(docs)) {
						f = &finding{msg: fmt.Sprintf("count = %d, the query selects %d documents", root.Count(), len(docs))}
					}
					if f != nil {
						res.Key = skey
						if phase == "faulted" {
							res.Failure = fmt.Sprintf("%s: with the file of segment %d unreadable the search returned normally, but its aggregations are not those of the whole match set: %s   [documents: %s; the query selects %d of them]", skey, victim, f.msg, describeDocs(list), len(docs))
						} else {
							res.Failure = fmt.Sprintf("%s: (intact index) %s", skey, f.msg)
						}
						return false
					}
				}
			}
		}
		return true
	}
	if !run("healthy") {
		return res
	}
	if err := sf.files[victim].Close(); err != nil {
		res.Failure, res.Key = "harness: closing the segment file: "+err.Error(), "harness"
		return res
	}
	if !run("faulted") {
		return res
	}
	res.Outcome = fmt.Sprintf("%s err=%d ok=%d", where, res.Counts["faulted_searches_that_returned_an_error"], res.Counts["faulted_searches_that_returned_a_result"])
	if idx%17 == 0 {
		res.Sample = map[string]interface{}{"enumeration": "read-fault", "documents": describeDocs(list), "closed_segment": victim,
			"faulted_searches_error": res.Counts["faulted_searches_that_returned_an_error"], "faulted_searches_exact_result": res.Counts["faulted_searches_that_returned_a_result"]}
	}
	return res
}

func fullMaxScore(r *bluge.Reader, q bluge.Query) float64 {
	mx := 0.0
	verifmc.Quiet(func() {
		it, err := r.Search(bg, bluge.NewAllMatches(q))
		if err != nil {
			return
		}
		for {
			m, err := it.Next()
			if err != nil || m == nil {
				return
			}
			if m.Score > mx {
				mx = m.Score
			}
		}
	})
	return mx
}

func main() {
	log.SetOutput(io.Discard)
	debug.SetGCPercent(400)
	explore.RegisterEnum("c16-aggregations", total, eval)
	explore.RegisterEnum("c16-read-fault", faultTotal, faultEval)
	explore.WorkerMain()
	c := checkmain.New("C16")
	if v := c.IsReplay(); v != nil {
		c.RunReplay(v)
	}
	c.Rule = "every multiset of <=3 (thorough <=4) documents from an 8-document alphabet (single-valued, multi-valued, missing numeric/date/keyword values, negative number, pre-1970 date, zero weight) in two segments (thorough: also in one segment and in one segment per document) x 39 aggregation trees (every metric at top level, the standard aggregations, terms(k) of sizes 1,2,10 alone and > every metric, numeric ranges alone / > metrics of the ranged field / > metrics of other fields, date ranges alone / > every metric, ranges holding two values of one document, five trees that name a field more than once, and fourteen trees over FilterText/FilterNumeric/FilterDate sources (two predicates per kind, one rejecting the earlier and one the later value of the multi-valued documents) with cardinality/terms/ranges/date ranges/metrics over the unfiltered same field nested inside the filtered aggregation or standing next to it) x 4 queries (match-all, term, boolean excluding one document, match-none) x 48 + 5*(documents+2) search settings ((n,from) in {0,1,2,5}^2 (thorough {0,1,2,5,11}^2) x 3 sort orders (score, a numeric field no aggregation reads, -_id), After (n in 0,1,5) and Before (n in 1,5) under sort _id with every document's key and the two outer keys); an evaluation (one search) is non-trivial when the query selects at least one document; read-fault: every 2-document multiset and the 3-document multisets over the first four letters, one segment per document, in a real FileSystemDirectory on tmpfs read with index.LoadMMapNever, x every segment whose file is closed after OpenReader x 3 trees x 3 queries x 18 settings ((n,from) in {0,2,5}x{0,1}, 3 sort orders) plus After/Before with every key, first on the intact reader (must be exact), then with the file closed (non-trivial: the search returned a result, which must be exact)"
	c.Explanation = "bounded-exhaustive enumeration through Reader.Search; oracle = direct computation over the documents the query selects by its meaning (exact: all values are small integers), bucket counts = documents with a value in the bucket, terms buckets a valid top-size choice with other = matches - returned for single-valued matches, cardinality = estimate of a fresh hyperloglog.New16 fed the same terms, quantiles within [min,max] and non-decreasing in rank, and the printed results identical across all settings of one (corpus, tree, query)"
	c.Assumptions = []string{
		"min, max, average, weighted average over no values (or zero total weight) have no prescribed value; they only have to be the same under every search setting",
		"the weight field is present in every document (what a missing weight means is not stated)",
		"cardinality and terms are exercised on the keyword field only (a numeric field's document values also hold its precision-step terms)",
		"which of several equally frequent terms fills the last terms bucket is not prescribed; it has to be one of them",
		"a bucket holds documents: a document with two values in one range is expected to be counted once",
		"read-fault: a search that returns an error makes no claim; a search that returns normally claims aggregations over every match (a read error that is swallowed is a violation, an error is not)",
		"FilterGeoPoint has no aggregation that consumes it and is not exercised",
	}
	budget := func(q, t time.Duration) time.Duration {
		if v, err := strconv.Atoi(os.Getenv("VERIF_BUDGET")); err == nil && v > 0 { // diagnostic: seconds per enumeration
			return time.Duration(v) * time.Second
		}
		return c.PickD(q, t)
	}
	for _, e := range []struct {
		name  string
		q, t  time.Duration
		chunk int64
	}{
		{"c16-aggregations", 28 * time.Second, 8 * time.Minute, 13},
		{"c16-read-fault", 6 * time.Second, 30 * time.Second, 1},
	} {
		st := explore.Enumerate(explore.EnumConfig{Name: e.name, Param: c.Tier, Budget: budget(e.q, e.t), Chunk: e.chunk, MaxViol: 1 << 20})
		c.AddEnum(st)
		if os.Getenv("VERIF_KEYS") != "" { // diagnostic: the distinct keys of all violations
			n := map[string]int64{}
			for _, v := range st.Violations {
				n[v.Key]++
			}
			for _, k := range explore.SortedKeys(n) {
				fmt.Printf("KEY %4d  %s\n", n[k], k)
			}
			for _, v := range st.Violations {
				if strings.Contains(v.Key, os.Getenv("VERIF_KEYS")) {
					fmt.Println("FAILURE", v.Choices, v.Failure)
				}
			}
		}
	}
	c.Finish()
}
